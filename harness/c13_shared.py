"""C13, worker clause — the state of the schema object that worker threads share, exercised on the REAL objects.

Two real threads work on one loaded schema.  Thread A is paused at a chosen point of its request (a *gate*: before the
k-th access to shared state / call of a building function), thread B then makes its own request and runs until it is
done or blocked on one of the schema's locks, A is resumed, both finish.  The schedule is deterministic: threads never
run at the same time, a gate that is not reached within its timeout is an infrastructure error.  The replay judges that
both threads obtain what a single-threaded run obtains (the prepared JSON schema with all references followed, or the
next API operation), and the same schedules are forced inside real engine runs (1 worker vs 2 workers, same multiset of
requests per operation).

What is recorded on the real objects (and sent to the Lean model / specification, lean/Drivers/C13.lean):
  * every access to the shared resolver's `_scopes_stack` (the list itself is replaced by a recording subclass);
  * acquire / release of every lock that lives on the schema object (and the task producer's lock);
  * every read / assignment of the lazily initialised members listed in the table regenerated from the source, with a
    digest of the value at that moment.
"""
from __future__ import annotations

import hashlib
import json
import os
import tempfile
import threading
import types
from collections import Counter
from contextlib import ExitStack, contextmanager
from unittest import mock

import schemathesis
from harness.core import InfraError
from harness.gen_c13_tables import shared_tables

GATE_TIMEOUT = 30.0
LOCK_TYPES = (type(threading.Lock()), type(threading.RLock()))



# ---------------------------------------------------------------------------------------------------------------
# the generated family: schemas whose references are deeper than the inlining limit
# ---------------------------------------------------------------------------------------------------------------

def chain(prefix, depth, leaf):
    """`<prefix>0` -> `<prefix>1` -> ... -> `<prefix><depth>` = leaf: every level requires the next one"""
    out = {f"{prefix}{lv}": {"type": "object", "required": ["level", "next"], "additionalProperties": False,
                             "properties": {"level": {"type": "integer", "enum": [lv]},
                                            "next": {"$ref": f"#/components/schemas/{prefix}{lv + 1}"}}}
           for lv in range(depth)}
    out[f"{prefix}{depth}"] = leaf
    return out


def body_operation(ref):
    return {"post": {"requestBody": {"required": True, "content": {"application/json": {"schema": {"$ref": ref}}}},
                     "responses": {"200": {"description": "OK"}}}}


LEAVES = [{"type": "integer", "minimum": 0, "maximum": 1000}, {"type": "string", "enum": ["x", "y", "z"]},
          {"type": "boolean"}, {"type": "string", "pattern": "^[a-c]{2}$"}]


def query_operation(ref):
    return {"get": {"parameters": [{"name": "q", "in": "query", "required": True, "schema": {"$ref": ref}}],
                    "responses": {"200": {"description": "OK"}}}}


def gen_family(rng, *, multi, depth=None, n_ops=None, path_refs=False, collide=False, shared_tail=False,
               shallow_remote=False, in_query=False):
    """-> {"files": {relative path: document}, "ops": [path, …], "shape": {…}}.  `depth` > 8: the operation schemas
    keep local references after `resolve_all` stopped inlining, `prepare_schema` looks them up in the components."""
    depth = depth or rng.randint(9, 12)
    n_ops = n_ops or rng.choice([2, 3])
    names = ["a", "b", "c"][:n_ops]
    files, comps, paths = {}, {}, {}
    blocks = []
    for i, n in enumerate(names):
        P = n.upper()
        if multi and not (collide and i == n_ops - 1):
            leaf = {"$ref": f"{n}/defs.json#/Leaf"}
            files[f"{n}/defs.json"] = {"Leaf": {"type": "object", "required": ["v", "n"], "additionalProperties": False,
                                                "properties": {"v": {"$ref": "inner.json#/V"},
                                                               "n": {"type": "integer", "minimum": 0, "maximum": 9}}}}
            files[f"{n}/inner.json"] = {"V": {"type": "string", "enum": [f"from-{n}-1", f"from-{n}-2"]}}
        elif multi:
            # the same relative reference text as inside the sub-directories, but at the root: another document
            leaf = {"$ref": "inner.json#/V"}
            files["inner.json"] = {"V": {"type": "string", "enum": ["from-root-1", "from-root-2"]}}
        elif shared_tail and i > 0:
            leaf = {"$ref": f"#/components/schemas/A{rng.randint(1, depth)}"}
        else:
            leaf = dict(LEAVES[(i + rng.randint(0, 3)) % len(LEAVES)])
        ch = chain(P, depth, leaf)
        if collide and multi and i == n_ops - 1:
            # its leaf comes first among the components: the first remote reference a builder meets
            blocks.insert(0, {f"{P}{depth}": ch.pop(f"{P}{depth}")})
        blocks.append(ch)
        make = query_operation if in_query else body_operation
        if path_refs and multi:
            files[f"paths/{n}.json"] = make(f"../root.json#/components/schemas/{P}0")
            paths[f"/{n}"] = {"$ref": f"paths/{n}.json"}
        else:
            paths[f"/{n}"] = make(f"#/components/schemas/{P}0")
    for blk in blocks:
        comps.update(blk)
    if shallow_remote and multi:
        # one more operation that points straight into a document which the deep chains reach as well
        paths["/s"] = body_operation(f"{names[0]}/defs.json#/Leaf")
        names = names + ["s"]
    files["root.json"] = {"openapi": "3.0.2", "info": {"title": "deep", "version": "1"}, "paths": paths,
                          "components": {"schemas": comps}}
    return {"files": files, "ops": [f"/{n}" for n in names],
            "shape": {"multi": multi, "depth": depth, "ops": n_ops, "path_refs": bool(path_refs and multi),
                      "collide": bool(collide and multi), "shared_tail": bool(shared_tail and not multi),
                      "shallow_remote": bool(shallow_remote and multi), "in_query": bool(in_query)}}


def write_files(files, directory):
    for rel, doc in files.items():
        p = os.path.join(directory, rel)
        os.makedirs(os.path.dirname(p), exist_ok=True)
        with open(p, "w") as fd:
            json.dump(doc, fd)
    return os.path.join(directory, "root.json")


# ---------------------------------------------------------------------------------------------------------------
# recording
# ---------------------------------------------------------------------------------------------------------------

class Gate:
    """pauses the designated thread before its k-th gate point"""

    def __init__(self, k):
        self.k = k
        self.thread = None            # ident of thread A
        self.count = 0
        self.names = []
        self.paused = threading.Event()
        self.resume = threading.Event()
        self.at = None
        self.version = None           # callable: fingerprint of the shared state (solo runs only)
        self.versions = []

    def point(self, name):
        if self.thread is None or threading.get_ident() != self.thread:
            return
        self.names.append(name)
        if self.version is not None:
            self.versions.append(self.version())
        if self.count == self.k:
            self.at = name
            self.paused.set()
            if not self.resume.wait(GATE_TIMEOUT):
                raise InfraError(f"gate {self.k} ({name}) was never released")
        self.count += 1


class EngineGate:
    """inside a real engine run with two workers: both take their first operation, then the worker that took the first
    one (A) prepares it alone up to the `occurrence`-th gate point called `name`, stands still while the other worker
    (B) tests its whole operation (or blocks on a lock of the schema object), and goes on.  No two threads ever run at
    the same time before both first operations are done, so the run is deterministic."""

    def __init__(self, name, occurrence, workers):
        self.name, self.occurrence = name, occurrence
        self.thread = None            # ident of worker A
        self.mutex = threading.Lock()
        self.inside = {}              # ident -> depth of prepare_schema calls
        self.calls = {}               # ident -> number of next_operation calls
        self.seen = 0
        self.fired = False
        self.a_turn_done = threading.Event()
        self.other_done = threading.Event()
        self.barrier = threading.Barrier(workers, timeout=GATE_TIMEOUT) if workers > 1 else None
        self.infra = None
        self.names = []
        self.version = None
        self.blocked_now = lambda: ()

    def next_operation(self, real):
        """wraps the task producer: the first operations are handed out one after the other, before any preparation"""
        ident = threading.get_ident()
        with self.mutex:
            n = self.calls[ident] = self.calls.get(ident, 0) + 1
            if n == 1 and self.thread is None:
                self.thread = ident
        result = real()
        try:
            if n == 1 and self.barrier is not None:
                self.barrier.wait()
                if ident != self.thread and not self.a_turn_done.wait(GATE_TIMEOUT):
                    self.infra = "worker A neither reached its gate nor finished its operation"
            elif n == 2:
                (self.a_turn_done if ident == self.thread else self.other_done).set()
        except threading.BrokenBarrierError:
            self.infra = "the workers did not both take a first operation"
        return result

    def enter(self):
        ident = threading.get_ident()
        with self.mutex:
            self.inside[ident] = self.inside.get(ident, 0) + 1

    def leave(self):
        ident = threading.get_ident()
        with self.mutex:
            self.inside[ident] -= 1

    def blocked(self):
        pass

    def point(self, name):
        ident = threading.get_ident()
        if ident != self.thread or self.fired or not self.inside.get(ident) or name != self.name:
            return
        self.seen += 1
        if self.seen != self.occurrence:
            return
        self.fired = True
        self.a_turn_done.set()
        waited = 0.0
        while not self.other_done.wait(0.005):
            waited += 0.005
            if any(i != ident for i in self.blocked_now()):
                return
            others = [t for t in threading.enumerate() if t.name.startswith("schemathesis_unit_tests_")
                      and t.ident != ident and t.is_alive()]
            if not others:
                return
            if waited > GATE_TIMEOUT:
                self.infra = f"engine gate {self.name}#{self.occurrence}: the other worker neither finished nor blocked"
                return


class Recorder:
    def __init__(self, gate):
        self.gate = gate
        self.events = []              # (tid, kind, payload) in real-time order (threads never run simultaneously)
        self.tids = {}
        self.held = {}                # tid -> list of lock names currently held
        self.on_block = None
        self.busy = threading.local()
        self.auto = False             # engine runs: threads are numbered as they show up
        self.blocked = set()          # threads that are waiting for a lock right now

    def tid(self):
        if self.auto:
            return self.tids.setdefault(threading.get_ident(), len(self.tids))
        return self.tids.get(threading.get_ident())

    def emit(self, kind, payload=None, gate=True):
        t = self.tid()
        if t is None:
            return
        if gate:
            self.gate.point(kind)
        self.events.append((t, kind, payload))


class TracedList(list):
    """stands in for `resolver._scopes_stack`: the shared object itself reports who touches it"""
    rec: Recorder = None
    sid = 0

    def append(self, item):
        self.rec.emit("push", (self.sid, item))
        list.append(self, item)

    def pop(self, *a):
        self.rec.emit("pop", (self.sid, None))
        return list.pop(self, *a)

    def __getitem__(self, i):
        if i == -1:
            self.rec.gate.point("readTop")
            v = list.__getitem__(self, i)
            self.rec.emit("readTop", (self.sid, v), gate=False)
            return v
        self.rec.emit("readAll", (self.sid, list(list.__iter__(self))))
        return list.__getitem__(self, i)

    def __iter__(self):
        self.rec.emit("readAll", (self.sid, list(list.__iter__(self))))
        return list.__iter__(self)


class LockProxy:
    def __init__(self, real, name, rec):
        self.real, self.name, self.rec = real, name, rec

    def acquire(self, blocking=True, timeout=-1):
        self.rec.gate.point("acquire:" + self.name)
        if not self.real.acquire(False):
            ident = threading.get_ident()
            self.rec.blocked.add(ident)
            try:
                if self.rec.on_block:
                    self.rec.on_block()
                if not self.real.acquire(True, 2 * GATE_TIMEOUT):
                    raise InfraError(f"lock {self.name} was never released")
            finally:
                self.rec.blocked.discard(ident)
        self.rec.emit("acq", self.name, gate=False)
        t = self.rec.tid()
        if t is not None:
            self.rec.held.setdefault(t, []).append(self.name)
        return True

    def release(self):
        t = self.rec.tid()
        if t is not None and self.name in self.rec.held.get(t, []):
            self.rec.held[t].remove(self.name)
        self.rec.emit("rel", self.name, gate=False)
        self.real.release()

    def __enter__(self):
        self.acquire()
        return self

    def __exit__(self, *a):
        self.release()


def canon_value(v, shared_ids, depth=0):
    """JSON-able view of a shared member's value; sub-objects that are themselves other shared members are references"""
    if depth and id(v) in shared_ids:
        return f"<shared:{shared_ids[id(v)]}>"
    if isinstance(v, dict):
        return {str(k): canon_value(x, shared_ids, depth + 1) for k, x in v.items()}
    if isinstance(v, (list, tuple)):
        return [canon_value(x, shared_ids, depth + 1) for x in v]
    if isinstance(v, (str, int, float, bool)) or v is None:
        return v
    return f"<{type(v).__name__}>"


def digest(v, shared_ids):
    return hashlib.blake2b(json.dumps(canon_value(v, shared_ids), sort_keys=True, default=str).encode(), digest_size=8).hexdigest()


_TABLES = []


def tables():
    if not _TABLES:
        _TABLES.append(shared_tables())
    return _TABLES[0]


def lazy_member_names(schema):
    lazy, _ = tables()
    classes = {c.__name__ for c in type(schema).__mro__}
    return {m for _f, where, m, kind, _p, _l in lazy if where.split(".")[0] in classes and kind == "hasattr-guard"}


def deref(doc, node, depth=0):
    """the prepared schema with every local reference followed: independent of how inlined definitions are named"""
    from schemathesis.specs.openapi.schemas import UNRESOLVABLE, resolve_pointer
    if depth > 80:
        return "<deep>"
    if isinstance(node, dict):
        r = node.get("$ref")
        if isinstance(r, str) and r.startswith("#/"):
            t = resolve_pointer(doc, r[1:])
            return {"$unresolvable": r.split("/")[1]} if t is UNRESOLVABLE else deref(doc, t, depth + 1)
        return {k: deref(doc, v, depth) for k, v in node.items() if not (node is doc and k in ("components", "x-inlined", "definitions"))}
    if isinstance(node, list):
        return [deref(doc, v, depth) for v in node]
    return node


class Loaded:
    """one freshly loaded schema with the recording installed"""

    def __init__(self, fam, taken, gate_k=-1, engine_gate=None, base_url=None, directory=None):
        self.fam = fam
        # a fresh directory per case: documents loaded from files are cached per location by the code under test
        self.dir = directory or tempfile.TemporaryDirectory(prefix="c13-")
        self.own_dir = directory is None
        self.stack = ExitStack()
        self.gate = engine_gate or Gate(gate_k)
        self.rec = Recorder(self.gate)
        self.rec.auto = engine_gate is not None
        try:
            path = write_files(fam["files"], self.dir.name)
            self.root = self.dir.name
            self.schema = schemathesis.openapi.from_path(path)
            if base_url:
                self.schema = self.schema.configure(base_url=base_url)
            self.ops = []
            if engine_gate is None:
                from schemathesis.engine.phases.unit._pool import TaskProducer
                self.producer = TaskProducer(types.SimpleNamespace(
                    schema=self.schema, config=types.SimpleNamespace(execution=types.SimpleNamespace(generation=None))))
                # single-threaded prefix: the operations already handed out before the two requests start
                for _ in range(taken):
                    self.ops.append(self.producer.next_operation().ok())
            else:
                self.producer = None
            self._install()
        except BaseException:
            self.close()
            raise

    def _install(self):
        from schemathesis.specs.openapi import schemas as S
        rec, schema = self.rec, self.schema
        for name in ("transform", "deepclone", "resolve_pointer", "to_json_schema", "_make_reference_key"):
            real = getattr(S, name, None)
            if real is None:      # gate points are conveniences: a renamed helper only makes the schedule coarser
                continue

            def wrapper(*a, __real=real, __name=name, **kw):
                rec.gate.point(__name)
                return __real(*a, **kw)
            self.stack.enter_context(mock.patch.object(S, name, wrapper))
        self.bases = {}
        self.stacks = []
        schema.resolver                       # the resolver exists before workers start (it is created while loading)
        for attr, v in list(vars(schema).items()):
            self._trace_resolver(v)
        for attr, v in list(vars(schema).items()):
            if isinstance(v, LOCK_TYPES):
                object.__setattr__(schema, attr, LockProxy(v, attr, rec))
        if self.producer is not None:
            self.producer.lock = LockProxy(self.producer.lock, "producer.lock", rec)
        lazy = lazy_member_names(schema)
        self.lazy = lazy
        shared_ids = self.shared_ids = {}
        self.shared_values = {}
        for attr, v in vars(schema).items():
            if isinstance(v, (dict, list)) and attr.startswith("_"):
                shared_ids[id(v)] = attr
                self.shared_values[attr] = v
        cls = type(schema)

        def __setattr__(obj, name, value):
            self._trace_resolver(value)
            if name in lazy:
                rec.emit("set", (name, id(value)))
                self.objects[id(value)] = value
            object.__setattr__(obj, name, value)

        def __getattribute__(obj, name):
            if name in lazy and rec.tid() is not None and not getattr(rec.busy, "on", False):
                rec.busy.on = True
                try:
                    rec.gate.point("get:" + name)
                    try:
                        value = object.__getattribute__(obj, name)
                    except AttributeError:
                        rec.emit("get", (name, None, None), gate=False)
                        raise
                    self.objects[id(value)] = value
                    rec.emit("get", (name, id(value), digest(value, shared_ids)), gate=False)
                    return value
                finally:
                    rec.busy.on = False
            return object.__getattribute__(obj, name)

        self.objects = {}
        self.original_class = cls
        schema.__class__ = type(cls.__name__, (cls,), {"__setattr__": __setattr__, "__getattribute__": __getattribute__})

    def _trace_resolver(self, value):
        """a resolver that belongs to the schema object: its stack of scopes reports who touches it"""
        import jsonschema
        if isinstance(value, jsonschema.RefResolver) and not isinstance(value._scopes_stack, TracedList):
            traced = TracedList(value._scopes_stack)
            traced.rec, traced.sid = self.rec, len(self.stacks)
            self.bases[traced.sid] = list(value._scopes_stack)
            self.stacks.append(traced)
            value._scopes_stack = traced

    def close(self):
        try:
            self.stack.close()
        finally:
            if self.own_dir:
                self.dir.cleanup()

    def __enter__(self):
        return self

    def __exit__(self, *a):
        self.close()

    # ---- requests -------------------------------------------------------------------------------------------
    def perform(self, request):
        """what a worker does with the shared schema object; the result is what the rest of its work depends on"""
        try:
            if request[0] == "prepare":
                op = self.ops[request[1]]
                if op.body:
                    # what `_get_body_strategy` does before it builds the strategy
                    prepared = self.schema.prepare_schema(op.body[0].as_json_schema(op))
                else:
                    from schemathesis.specs.openapi._hypothesis import get_schema_for_location
                    prepared = get_schema_for_location(op, "query", op.query)
                return ["ok", deref(prepared, prepared)]
            if request[0] == "next":
                result = self.producer.next_operation()
                if result is None:
                    return ["ok", None]
                from schemathesis.core.result import Err
                if isinstance(result, Err):
                    exc = result.err()
                    return ["err", type(exc).__name__.lstrip("_"), canon_message(str(exc), self.root)]
                op = result.ok()
                self.ops.append(op)
                return ["ok", op.label]
            raise InfraError(f"unknown request {request}")
        except InfraError:
            raise
        except Exception as exc:
            return ["err", type(exc).__name__.lstrip("_"), canon_message(str(exc), self.root)]

    def version(self):
        """fingerprint of everything another thread could observe on the schema object right now"""
        if getattr(self.rec.busy, "on", False):
            return self.gate.versions[-1] if self.gate.versions else ""
        self.rec.busy.on = True
        try:
            stack = [list(list.__iter__(st)) for st in self.stacks]
            members = {}
            for name in self.lazy:
                try:
                    members[name] = digest(object.__getattribute__(self.schema, name), self.shared_ids)
                except AttributeError:
                    members[name] = None
            shared = {name: digest(v, {}) for name, v in self.shared_values.items()}
            return hashlib.blake2b(json.dumps([stack, members, shared, sorted(self.rec.held.get(0, []))], sort_keys=True)
                                   .encode(), digest_size=8).hexdigest()
        finally:
            self.rec.busy.on = False

    def final_digests(self):
        return {oid: digest(v, self.shared_ids) for oid, v in self.objects.items()}


def canon_message(text, root):
    """error text without the temporary directory and without the digests that depend on it"""
    import re
    return re.sub(r"[0-9a-f]{40}", "<key>", text.replace(root, "<root>"))[:160]


def role(request):
    return "iteration" if request[0] == "next" else "inlining"


def solo(fam, request, taken):
    """the request made by the only thread there is -> (result, names of its gate points, the gate points before which
    the state that other threads can observe differs from what it was at the previous gate point)"""
    with Loaded(fam, taken) as L:
        out = {}
        L.gate.version = L.version

        def run():
            L.rec.tids[threading.get_ident()] = 0
            L.gate.thread = threading.get_ident()
            out["r"] = L.perform(request)
        t = threading.Thread(target=run)
        t.start()
        t.join(GATE_TIMEOUT)
        if t.is_alive():
            raise InfraError("solo request did not finish")
        vs = L.gate.versions
        changes = [k for k in range(len(vs)) if k == 0 or vs[k] != vs[k - 1]]
        return out["r"], list(L.gate.names), changes


def sequential(fam, a, b, taken):
    """both requests on one schema object, one after the other, in one thread"""
    with Loaded(fam, taken) as L:
        ra = L.perform(a)
        rb = L.perform(b)
        return ra, rb


def forced(fam, a, b, k, taken):
    """A is paused before its k-th gate point; B runs until done or blocked; A resumes; B finishes.
    -> None when A has fewer than k+1 gate points, else a dict with both results and the recording"""
    with Loaded(fam, taken, gate_k=k) as L:
        res = {}
        b_done, b_blocked = threading.Event(), threading.Event()

        def on_block():
            if threading.get_ident() != L.gate.thread:
                b_blocked.set()
        L.rec.on_block = on_block

        def run_a():
            L.rec.tids[threading.get_ident()] = 0
            L.gate.thread = threading.get_ident()
            try:
                res["a"] = L.perform(a)
            except InfraError as exc:
                res["infra"] = str(exc)

        def run_b():
            L.rec.tids[threading.get_ident()] = 1
            try:
                res["b"] = L.perform(b)
            except InfraError as exc:
                res["infra"] = str(exc)
            finally:
                b_done.set()
        ta, tb = threading.Thread(target=run_a), threading.Thread(target=run_b)
        ta.start()
        while not L.gate.paused.wait(0.002):
            if not ta.is_alive():
                break
        if not L.gate.paused.is_set():
            ta.join()
            return None
        held_at_pause = {0: list(L.rec.held.get(0, []))}
        n_before = len(L.rec.events)
        digests_at_pause = {oid: digest(v, L.shared_ids) for oid, v in L.objects.items()}
        tb.start()
        waited = 0.0
        while not (b_done.is_set() or b_blocked.is_set()):
            b_done.wait(0.002)
            waited += 0.002
            if waited > GATE_TIMEOUT:
                L.gate.resume.set()
                raise InfraError("thread B neither finished nor blocked on a lock of the schema")
        L.gate.resume.set()
        ta.join(GATE_TIMEOUT)
        tb.join(GATE_TIMEOUT)
        if ta.is_alive() or tb.is_alive():
            raise InfraError("forced schedule did not terminate")
        if "infra" in res:
            raise InfraError(res["infra"])
        return {"a": res["a"], "b": res["b"], "events": list(L.rec.events), "split": n_before, "gate": L.gate.at,
                "b_blocked": b_blocked.is_set(), "held_at_pause": held_at_pause[0], "bases": dict(L.bases),
                "finals": L.final_digests(), "at_pause": digests_at_pause, "root": L.root}


# ---------------------------------------------------------------------------------------------------------------
# judging a recording: model (shared stack, lazily initialised cell) and specification (own scope, complete object)
# ---------------------------------------------------------------------------------------------------------------

def stack_request(run, stack_id, lock=None):
    """the recording of one resolver's stack as a trace of the Lean stack model: scopes interned, only the chosen
    lock's acquire/release"""
    intern = {}

    def sid(s):
        s = s.replace(run["root"], "<root>") if isinstance(s, str) else str(s)
        return intern.setdefault(s, len(intern))
    base = [sid(s) for s in reversed(run["bases"][stack_id])]          # model: top of the stack first
    trace, reads, index = [], [], []
    for i, (t, kind, payload) in enumerate(run["events"]):
        if kind in ("push", "pop", "readTop", "readAll") and payload[0] != stack_id:
            continue
        if kind == "push":
            trace.append([t, "push", sid(payload[1])])
        elif kind == "pop":
            trace.append([t, "pop"])
        elif kind == "readTop":
            trace.append([t, "readTop"])
            reads.append([t, [sid(payload[1])]])
            index.append(i)
        elif kind == "readAll":
            trace.append([t, "readAll"])
            reads.append([t, [sid(s) for s in reversed(payload[1])]])
            index.append(i)
        elif kind in ("acq", "rel") and payload == lock:
            trace.append([t, kind])
    names = {v: k for k, v in intern.items()}
    return {"base": base, "trace": trace}, reads, index, names


def py_stack_oracle(req):
    """independent re-statement of the specification: the reads on the shared stack and on per-thread stacks"""
    shared, priv = list(req["base"]), {}
    out_s, out_p = [], []
    for ev in req["trace"]:
        t, k = ev[0], ev[1]
        mine = priv.setdefault(t, list(req["base"]))
        if k == "push":
            shared.insert(0, ev[2])
            mine.insert(0, ev[2])
        elif k == "pop":
            del shared[:1]
            del mine[:1]
        elif k == "readTop":
            out_s.append([t, shared[:1]])
            out_p.append([t, mine[:1]])
        elif k == "readAll":
            out_s.append([t, list(shared)])
            out_p.append([t, list(mine)])
    return out_s, out_p


def cell_request(run):
    intern = {}
    gets, index = [], []
    for i, (t, kind, payload) in enumerate(run["events"]):
        if kind == "get" and payload[1] is not None:
            gets.append([t, intern.setdefault(payload[1], len(intern)), int(payload[2], 16) % (2 ** 53)])
            index.append(i)
    finals = [[intern[oid], int(d, 16) % (2 ** 53)] for oid, d in run["finals"].items() if oid in intern]
    return {"gets": gets, "finals": finals}, index


def cell_position(run, member):
    """where thread A stood when it was paused, in the terms of the cell model"""
    before = run["events"][:run["split"]]
    checked = any(t == 0 and k == "get" and p[0] == member for t, k, p in before)
    sets = [p[1] for t, k, p in before if t == 0 and k == "set" and p[0] == member]
    if not checked and not sets:
        return "P0"
    if not sets:
        hit = [p for t, k, p in before if t == 0 and k == "get" and p[0] == member and p[1] is not None]
        return "P3" if hit else "P1"
    oid = sets[-1]
    return "P3" if run["at_pause"].get(oid) == run["finals"].get(oid) else "P2"


def cell_model_request(row, position):
    """the schedule of the cell model that corresponds to `position`, for the configuration the table row describes"""
    _f, _w, _m, _k, pab, lock = row
    cfg = {"parts": 1, "publishAt": 1 if pab else 0, "locked": bool(lock)}
    if position == "P2" and pab:
        return None      # not reachable in the model of this source: the object is assigned when it is complete
    steps = {"P0": 0, "P1": 1, "P2": 2, "P3": 4}[position]
    return {**cfg, "workers": 2, "sched": [0] * steps + [1] * 6 + [0] * 6 + [1] * 6}


def classify(run, thread, a, b, stack_foreign, cell_incomplete):
    """narrow signature of a deviating result: which shared object, who read it, whose state it saw"""
    me, other = (a, b) if thread == 0 else (b, a)
    for i in cell_incomplete:
        t, _k, payload = run["events"][i]
        if t == thread:
            return f"C13:shared-cell:{payload[0]}:read-while-another-worker-is-still-building-it", i
    # the deviating thread's own reads first; then the other thread's (it may have published what this one then used)
    for i in [j for j in stack_foreign if run["events"][j][0] == thread] + \
            [j for j in stack_foreign if run["events"][j][0] != thread]:
        t, kind, _payload = run["events"][i]
        if t != thread:
            thread, me, other = t, other, me
        held = {0: [], 1: []}
        for tt, k, p in run["events"][:i]:
            if k == "acq":
                held[tt].append(p)
            elif k == "rel" and p in held[tt]:
                held[tt].remove(p)
        fmt = lambda ls: "+".join(sorted(set(ls))) or "-"
        what = "key-read" if kind == "readAll" else "scope-read"
        return (f"C13:shared-resolver:{role(me)}-{what}-sees-scope-of-{role(other)}:reader-holds={fmt(held[thread])}:"
                f"other-holds={fmt(held[1 - thread])}"), i
    return f"C13:shared-schema-state:{role(me)}-result-differs-when-interleaved-with-{role(other)}", None


def brief(result):
    if result[0] == "err":
        return result
    txt = json.dumps(result[1], sort_keys=True)
    return ["ok", hashlib.blake2b(txt.encode(), digest_size=6).hexdigest(), len(txt)]


def first_difference(x, y, path="$"):
    if type(x) is not type(y):
        return {"at": path, "alone": x if not isinstance(x, (dict, list)) else type(x).__name__,
                "interleaved": y if not isinstance(y, (dict, list)) else type(y).__name__}
    if isinstance(x, dict):
        for k in sorted(set(x) | set(y)):
            if k not in x or k not in y:
                return {"at": f"{path}.{k}", "alone": "present" if k in x else "absent", "interleaved": "present" if k in y else "absent"}
            d = first_difference(x[k], y[k], f"{path}.{k}")
            if d:
                return d
        return None
    if isinstance(x, list):
        if len(x) != len(y):
            return {"at": path, "alone": x if len(str(x)) < 120 else len(x), "interleaved": y if len(str(y)) < 120 else len(y)}
        for i, (p, q) in enumerate(zip(x, y)):
            d = first_difference(p, q, f"{path}[{i}]")
            if d:
                return d
        return None
    return None if x == y else {"at": path, "alone": x, "interleaved": y}


# ---------------------------------------------------------------------------------------------------------------
# the same schedules inside real engine runs: 1 worker vs 2 workers
# ---------------------------------------------------------------------------------------------------------------

def engine_requests(fam, workers, seed, gate=None, max_examples=3, directory=None):
    """runs the real engine (fuzzing phase) against a deterministic loopback API -> ({operation: Counter of requests},
    labels of the operations that ended in an error)"""
    import logging
    from flask import Flask, jsonify, request
    from harness import engine_common as E
    from schemathesis.engine.phases import PhaseName
    logging.getLogger("werkzeug").setLevel(logging.ERROR)
    log = []
    app = Flask("c13-shared")

    @app.route("/<path:p>", methods=["GET", "POST", "PUT", "PATCH", "DELETE"])
    def any_(p):
        log.append((request.method, request.path, request.get_data().decode("latin-1")))
        return jsonify({"ok": True}), 200
    from schemathesis.engine.phases.unit import _pool
    eg = EngineGate(*(gate or ("<none>", 0)), workers)
    real_next = _pool.TaskProducer.next_operation

    def next_operation(producer):
        return eg.next_operation(lambda: real_next(producer))
    with E.Server(app) as srv, mock.patch.object(_pool.TaskProducer, "next_operation", next_operation):
        with Loaded(fam, 0, engine_gate=eg, base_url=srv.url, directory=directory) as L:
            real_prepare = L.original_class.prepare_schema
            schema = L.schema

            def prepare_schema(value):
                eg.enter()
                try:
                    return real_prepare(schema, value)
                finally:
                    eg.leave()
            object.__setattr__(schema, "prepare_schema", prepare_schema)
            L.rec.on_block = eg.blocked
            eg.blocked_now = lambda: tuple(L.rec.blocked)
            ec = E.engine_config(phases=[PhaseName.FUZZING], workers=workers, max_examples=max_examples, seed=seed)
            evs = E.run_engine(schema, ec)
    if eg.infra:
        raise InfraError(eg.infra)
    per_op = {}
    for m, path, body in log:
        per_op.setdefault(f"{m} {path}", Counter())[body] += 1
    errors = sorted(getattr(e, "label", "?") for e in evs if type(e).__name__ == "NonFatalError")
    return per_op, errors, eg.fired


# ---------------------------------------------------------------------------------------------------------------
# the check
# ---------------------------------------------------------------------------------------------------------------

KF_WORKERS = "C13:workers:fuzzing-values-differ-between-one-and-several-workers"
KF_SECOND_RUN = "C13:in-process:second-run-over-the-same-multi-file-schema:inlined-references-unresolvable"


def plan(chk):
    """families and request pairs of this run: (family, [(a, b, taken, forced?)])"""
    rng = chk.rng
    P = lambda i: ("prepare", i)
    N = ("next",)
    out = []
    # the two families that also go through the real engine (two operations, one per worker; no iteration after the
    # first two `next_operation` calls, so the engine schedule is exactly the forced one)
    single = gen_family(rng, multi=False, n_ops=2, shared_tail=rng.random() < 0.5)
    single["engine"] = True
    out.append((single, [(P(0), P(1), 2, True), (P(1), P(0), 2, True)]))
    plain = gen_family(rng, multi=True, n_ops=2)
    plain["engine"] = True
    out.append((plain, [(P(0), P(1), 2, True), (P(1), P(0), 2, True)]))
    multi = gen_family(rng, multi=True, n_ops=3, path_refs=True, collide=True, shallow_remote=True)
    out.append((multi, [(P(0), P(1), 3, True), (P(0), P(2), 3, True), (N, P(0), 1, True), (P(0), N, 1, True),
                        (P(0), N, 3, False)]))
    if chk.thorough:
        out[2][1].extend([(P(1), P(0), 3, True), (P(2), P(0), 3, True), (P(1), P(2), 3, True), (N, P(1), 2, True),
                          (P(2), N, 3, True)])
        for _ in range(8):
            multi_ = rng.random() < 0.6
            fam = gen_family(rng, multi=multi_, path_refs=rng.random() < 0.5, collide=rng.random() < 0.5,
                             shared_tail=rng.random() < 0.5, shallow_remote=rng.random() < 0.5,
                             in_query=rng.random() < 0.4)
            n = fam["shape"]["ops"]
            pairs = [(P(i), P(j), n, True) for i in range(n) for j in range(n) if i != j]
            pairs += [(N, P(0), 1, True), (P(0), N, 1, True)]
            if fam["shape"]["shallow_remote"]:
                pairs.append((P(0), N, n, False))
            out.append((fam, pairs))
        # control: references shallower than the inlining limit never reach the shared components
        out.append((gen_family(rng, multi=False, n_ops=2, depth=3), [(P(0), P(1), 2, True)]))
    return out


def judge_runs(chk, runs):
    """model and specification over the recordings of the forced runs (one driver batch)"""
    reqs, meta = [], []
    for ri, run in enumerate(runs):
        locks = sorted({p for _t, k, p in run["events"] if k == "acq"})
        for stack_id in run["bases"]:
            for lock in locks or [None]:
                req, reads, index, names = stack_request(run, stack_id, lock)
                reqs.append(("stack", req))
                meta.append(("stack", ri, stack_id, lock, req, reads, index, names))
        creq, cindex = cell_request(run)
        reqs.append(("gets", creq))
        meta.append(("gets", ri, creq, cindex))
    answers = chk.driver("C13").batch(reqs) if reqs else []
    for run in runs:
        run["foreign"], run["incomplete"], run["disc"], run["foreign_detail"] = set(), set(), {}, {}
    for m, ans in zip(meta, answers):
        if isinstance(ans, dict) and "__err__" in ans:
            raise InfraError(f"C13 driver: {ans}")
        run = runs[m[1]]
        if m[0] == "stack":
            _k, _ri, stack_id, lock, req, reads, index, names = m
            osh, opr = py_stack_oracle(req)
            if ans["priv"] != opr or ans["shared"] != osh:
                raise InfraError(f"Lean specification and the Python oracle disagree on a stack trace: {req}")
            if ans["disc"] and ans["foreign"]:
                raise InfraError("a disciplined trace with a foreign read contradicts locked_stack_reads_own_scope: "
                                 f"the trace encoding is wrong: {req}")
            run["disc"][(stack_id, lock)] = ans["disc"]
            chk.case("model:shared-stack", key=None, nontrivial=bool(reads))
            if ans["shared"] != reads:
                chk.disagreement("shared-stack:reads", req, ans["shared"], reads)
            for j in ans["foreign"]:
                run["foreign"].add(index[j])
                run["foreign_detail"][index[j]] = {"read": reads[j][1] and [names[x] for x in reads[j][1]],
                                                   "alone": [names[x] for x in ans["priv"][j][1]]}
        else:
            _k, _ri, creq, cindex = m
            finals = dict(map(tuple, creq["finals"]))
            oracle = [j for j, (_t, o, seen) in enumerate(creq["gets"]) if finals.get(o) != seen]
            if oracle != ans:
                raise InfraError(f"Lean specification and the Python oracle disagree on a cell trace: {creq} {ans}")
            for j in ans:
                run["incomplete"].add(cindex[j])


def cell_correspondence(chk, runs):
    """the cell model in the configuration that the regenerated table describes vs what thread B found"""
    lazy, _ = tables()
    rows = {r[2]: r for r in lazy if r[3] == "hasattr-guard"}
    reqs, meta = [], []
    for run in runs:
        for member, row in rows.items():
            if not any(k in ("get", "set") and p[0] == member for _t, k, p in run["events"]):
                continue
            pos = cell_position(run, member)
            # what B found while A stood still: B's reads of the member before A moves again
            phase = []
            for i in range(run["split"], len(run["events"])):
                if run["events"][i][0] == 0:
                    break
                if run["events"][i][1] == "get" and run["events"][i][2][0] == member:
                    phase.append(i)
            if not phase:
                continue
            real_complete = not any(i in run["incomplete"] for i in phase)
            mreq = cell_model_request(row, pos)
            chk.feature(f"cell-position:{member}:{pos}")
            if mreq is None:
                chk.disagreement(f"shared-cell:{member}", {"position": pos, "table_row": row},
                                 "unreachable: the table says the object is assigned when it is complete", "reached")
                continue
            reqs.append(("cell", mreq))
            meta.append((member, pos, real_complete, row))
    for (member, pos, real_complete, row), ans in zip(meta, chk.driver("C13").batch(reqs) if reqs else []):
        if isinstance(ans, dict) and "__err__" in ans:
            raise InfraError(f"C13 driver: {ans}")
        w1 = ans["workers"][1]
        model_complete = not (w1["pc"] == "done" and w1["seen"] != 1)
        chk.case("model:shared-cell", key=[member, pos, row[4], row[5]], nontrivial=True,
                 sample={"member": member, "thread_A_paused_at": pos, "model_B": w1, "real_B_complete": real_complete})
        if model_complete != real_complete:
            chk.disagreement(f"shared-cell:{member}", {"position": pos, "table_row": row}, w1, {"complete": real_complete})


def small(request):
    return list(request)


def run_shared(chk):
    """forced interleavings on the real schema object + the same overlaps inside real engine runs"""
    chk.proved += [
        "lazy_cell_every_worker_sees_the_built_value / publish_before_build_unsafe / publish_before_build_under_lock_safe "
        "(check-build-publish cell, every schedule)",
        "lazy_members_publish_after_build_or_locked / lazy_members_table_covers_components_and_resolver / "
        "every_lazy_member_is_cell_safe (decide over the table of lazily initialised members regenerated from the source)",
        "locked_stack_reads_own_scope (every access under the lock => every read is the thread's own scope, every "
        "interleaving); lock_released_during_resolution_reads_foreign_scope / key_read_before_lock_reads_foreign_scope / "
        "second_path_without_the_lock_reads_foreign_scope (decide witnesses)",
        "inlining_resolution_under_one_lock / resolver_sites_uniform (decide over the table of resolver accesses "
        "regenerated from the source)"]
    lazy, sites = tables()
    from harness.gen_c13_tables import shared_flags
    lock, key_locked, other_locked = shared_flags(sites)
    chk.variants["reference-key-read"] = "repaired(under the lock)" if key_locked else "asFound(before the lock is taken)"
    chk.variants["resolver-users-other-than-inlining"] = "repaired(same lock)" if other_locked else "asFound(no common lock)"
    chk.notes.append(f"lazily initialised members: {[(r[2], r[4], r[5]) for r in lazy]}; inlining lock: {lock!r}")
    rng = chk.rng
    all_runs, e2e_plan, in_sequence = [], [], {}
    cap = chk.budget(40, 400)
    for fam, pairs in plan(chk):
        shape = fam["shape"]
        solos = {}

        def alone(req, taken):
            if (req, taken) not in solos:
                solos[(req, taken)] = solo(fam, req, taken)
            return solos[(req, taken)]
        deviating_gates = []
        for a, b, taken, do_force in pairs:
            ra, names, changes = alone(a, taken)
            rb, _n, _c = alone(b, taken)
            chk.feature(f"family:{'multi' if shape['multi'] else 'single'}-file")
            chk.feature(f"pair:{role(a)}/{role(b)}")
            if ra[0] != "ok" or rb[0] != "ok":
                raise InfraError(f"a generated schema is not usable alone: {shape} {a} {ra[:2]} {b} {rb[:2]}")
            # one thread, one request after the other: the order in which operations are prepared must not matter either
            sa, sb = sequential(fam, a, b, taken)
            in_sequence[(id(fam), a, b, taken)] = (sa, sb)
            chk.case("shared:sequential", key=[shape, small(a), small(b), taken], nontrivial=True,
                     sample={"family": shape, "first": small(a), "then": small(b), "same_as_alone": [sa == ra, sb == rb]})
            if sa != ra or sb != rb:
                which, got, want = ("first", sa, ra) if sa != ra else ("second", sb, rb)
                kind = got[1] if got[0] == "err" else "different-result"
                chk.violation(f"C13:preparation-order:{role(b)}-after-{role(a)}:{kind}",
                              f"one thread, two requests on one schema object: the {which} request does not obtain what it "
                              "obtains on a fresh schema object, i.e. what an operation is tested with depends on which "
                              "operations were prepared before it (the order changes with the number of workers)",
                              {"kind": "sequential", "family": fam, "first": small(a), "then": small(b), "taken": taken,
                               "alone": brief(want), "in_sequence": brief(got),
                               "difference": first_difference(want[1], got[1]) if got[0] == "ok" else got})
            if not do_force:
                continue
            gates = changes if len(changes) <= cap else sorted(rng.sample(changes, cap))
            for k in gates:
                run = forced(fam, a, b, k, taken)
                if run is None:
                    continue
                run.update(fam=fam, a_req=a, b_req=b, taken=taken, k=k, solo=(ra, rb),
                           occurrence=names[:k + 1].count(names[k]))
                all_runs.append(run)
        e2e_plan.append((fam, solos))
    judge_runs(chk, all_runs)
    cell_correspondence(chk, all_runs)
    deviating = {}
    for run in all_runs:
        fam, a, b = run["fam"], run["a_req"], run["b_req"]
        ra, rb = run["solo"]
        chk.case("shared:forced-interleaving", key=[fam["shape"], small(a), small(b), run["taken"], run["gate"], run["occurrence"]],
                 nontrivial=True, sample={"family": fam["shape"], "A": small(a), "B": small(b), "A_paused_before": run["gate"],
                                          "B": "blocked on a lock" if run["b_blocked"] else "ran to completion",
                                          "same_as_alone": [run["a"] == ra, run["b"] == rb]})
        chk.feature(f"gate:{run['gate'].split(':')[0]}")
        chk.feature("B:blocked" if run["b_blocked"] else "B:ran")
        chk.feature("foreign-read:some" if run["foreign"] else "foreign-read:none")
        chk.feature("disciplined:" + ("yes" if any(run["disc"].values()) else "no"))
        for thread, got, want in ((0, run["a"], ra), (1, run["b"], rb)):
            if got == want:
                continue
            sig, at = classify(run, thread, a, b, sorted(run["foreign"]), sorted(run["incomplete"]))
            seq = in_sequence.get((id(fam), a, b, run["taken"]))
            if at is None and thread == 1 and seq is not None and got == seq[1]:
                # no foreign scope, no incomplete object: B obtained what it obtains AFTER A's request in one thread,
                # i.e. the effect is the order dependence that the sequential runs report
                sig = f"C13:preparation-order:{role(b)}-after-{role(a)}:{got[1] if got[0] == 'err' else 'different-result'}"
            deviating.setdefault(id(fam), []).append((run, sig))
            ev = run["events"][at] if at is not None else None
            chk.violation(sig, "two real threads on one loaded schema, forced interleaving: a thread does not obtain what it "
                          "obtains alone, so its operation is tested with other data (or not at all) when another worker "
                          "is active",
                          {"kind": "forced", "family": fam, "A": small(a), "B": small(b), "taken": run["taken"], "gate": run["k"],
                           "A_paused_before": f"{run['gate']} #{run['occurrence']}", "deviating_thread": "AB"[thread],
                           "B_was": "blocked on a lock" if run["b_blocked"] else "run to completion",
                           "alone": brief(want), "interleaved": brief(got) if got[0] == "ok" else got,
                           "difference": first_difference(want[1], got[1]) if got[0] == "ok" else None,
                           "first_foreign_or_incomplete_read": None if ev is None else
                           {"event": [ev[0], ev[1], str(ev[2]).replace(run["root"], "<root>")[:200]],
                            **run["foreign_detail"].get(at, {})}})
    engine_part(chk, e2e_plan, deviating)


def engine_part(chk, e2e_plan, deviating):
    """1 worker vs 2 workers through the real engine, the first two workers' preparations forced to overlap"""
    seed = chk.rng.randint(1, 10 ** 6)
    per_family = chk.budget(2, 6)
    for fam, solos in e2e_plan:
        shape = fam["shape"]
        if not fam.get("engine"):
            continue
        directory = tempfile.TemporaryDirectory(prefix="c13-twice-") if shape["multi"] else None
        try:
            if directory is not None:
                write_files(fam["files"], directory.name)
            one, one_errors, _ = engine_requests(fam, 1, seed, directory=directory)
            if directory is not None:
                # the same configuration once more in this process, over the same files
                again, again_errors, _ = engine_requests(fam, 1, seed, directory=directory)
                chk.case("in-process:double-run:one-directory", key=[shape, seed], nontrivial=bool(one),
                         sample={"family": shape, "first": {k: sum(v.values()) for k, v in one.items()},
                                 "second": {k: sum(v.values()) for k, v in again.items()}})
                if (again, again_errors) != (one, one_errors):
                    lost = sorted(set(one) - set(again))
                    sig = KF_SECOND_RUN if lost and again_errors != one_errors else \
                        "C13:in-process:second-run-over-the-same-multi-file-schema:requests-differ"
                    chk.violation(sig, "two engine runs in one process with the same seed over the same multi-file schema "
                                  "send different requests", {"kind": "double-run", "family": fam, "seed": seed,
                                                              "first": {k: sum(v.values()) for k, v in one.items()},
                                                              "second": {k: sum(v.values()) for k, v in again.items()},
                                                              "errors_first": one_errors, "errors_second": again_errors})
        finally:
            if directory is not None:
                directory.cleanup()
        key = (("prepare", 0), min((t for (r, t) in solos if r == ("prepare", 0)), default=None))
        if key not in solos:
            continue
        _ra, names, changes = solos[key]
        # overlaps that deviated on the bare objects first, then a spread over the points where shared state changes
        chosen = []
        for run, _sig in deviating.get(id(fam), []):
            if run["a_req"] == ("prepare", 0) and run["b_req"][0] == "prepare" and run["k"] not in chosen:
                chosen.append(run["k"])
        spread = [changes[i] for i in sorted({len(changes) // 3, (2 * len(changes)) // 3, len(changes) - 1}) if changes]
        for k in spread:
            if k not in chosen and k < len(names):
                chosen.append(k)
        for k in chosen[:per_family]:
            gate = (names[k], names[:k + 1].count(names[k]))
            two, two_errors, fired = engine_requests(fam, 2, seed, gate=gate)
            chk.case("workers:forced-overlap", key=[shape, seed, list(gate)], nontrivial=fired,
                     sample={"family": shape, "first_worker_paused_before": list(gate), "gate_reached": fired,
                             "one_worker": {kk: sum(v.values()) for kk, v in one.items()},
                             "two_workers": {kk: sum(v.values()) for kk, v in two.items()}})
            chk.feature("engine-gate:" + ("reached" if fired else "not-reached"))
            if (two, two_errors) == (one, one_errors):
                continue
            counts = lambda d: {kk: sum(v.values()) for kk, v in d.items()}
            if counts(one) == counts(two) and one_errors == two_errors:
                sig = KF_WORKERS      # same operations, same number of requests, one generated value differs (F19c)
            else:
                sig = f"C13:workers:forced-overlap:per-operation-requests-differ-from-one-worker:paused-before-{gate[0].split(':')[0]}"
            chk.violation(sig, "the multiset of requests per operation differs between 1 worker and 2 workers whose first "
                          "preparations overlap (the first worker is paused inside its preparation until the second one "
                          "has made its own)", {"kind": "engine", "family": fam, "seed": seed, "gate": list(gate),
                                                "one_worker": counts(one), "two_workers": counts(two),
                                                "errors_one": one_errors, "errors_two": two_errors})


def replay_shared(chk, data):
    r = data["replay"]
    fam = r["family"]
    print(data.get("what"))
    print("family:", json.dumps(fam["shape"]))
    if r["kind"] == "forced":
        a, b = tuple(r["A"]), tuple(r["B"])
        ra, names, _ = solo(fam, a, r["taken"])
        rb, _, _ = solo(fam, b, r["taken"])
        run = forced(fam, a, b, r["gate"], r["taken"])
        print(f"A = {a} paused before gate {r['gate']} ({names[r['gate']]}), B = {b}")
        print("alone:       A", brief(ra), " B", brief(rb))
        print("interleaved: A", brief(run["a"]) if run["a"][0] == "ok" else run["a"], " B", brief(run["b"]) if run["b"][0] == "ok" else run["b"])
        judge_runs(chk, [run])
        print("model/spec: reads of a foreign scope at events", sorted(run["foreign"]), "incomplete objects read at", sorted(run["incomplete"]),
              "disciplined:", run["disc"])
    elif r["kind"] == "sequential":
        a, b = tuple(r["first"]), tuple(r["then"])
        print("alone:      ", brief(solo(fam, a, r["taken"])[0]), brief(solo(fam, b, r["taken"])[0]))
        sa, sb = sequential(fam, a, b, r["taken"])
        print("in sequence:", brief(sa) if sa[0] == "ok" else sa, brief(sb) if sb[0] == "ok" else sb)
    elif r["kind"] == "engine":
        one = engine_requests(fam, 1, r["seed"])
        two = engine_requests(fam, 2, r["seed"], gate=tuple(r["gate"]))
        print("1 worker :", {k: sum(v.values()) for k, v in one[0].items()}, one[1])
        print("2 workers:", {k: sum(v.values()) for k, v in two[0].items()}, two[1])
    elif r["kind"] == "double-run":
        with tempfile.TemporaryDirectory(prefix="c13-twice-") as d:
            write_files(fam["files"], d)
            holder = types.SimpleNamespace(name=d, cleanup=lambda: None)
            for i in (1, 2):
                out = engine_requests(fam, 1, r["seed"], directory=holder)
                print(f"run {i}:", {k: sum(v.values()) for k, v in out[0].items()}, out[1])
    return 0
