"""Fresh-process runner for C13: runs the real engine against an in-process loopback API and prints the request log.
usage: python -m harness.children.c13_child '<json config>'"""
import json
import logging
import sys

logging.getLogger("werkzeug").setLevel(logging.ERROR)


def main():
    cfg = json.loads(sys.argv[1])
    from flask import Flask, jsonify, request
    from harness import engine_common as E
    from schemathesis.engine.phases import PhaseName
    log = []
    app = Flask("c13")

    @app.route("/<path:p>", methods=["GET", "POST", "PUT", "DELETE", "PATCH"])
    def any_(p):
        hdrs = sorted((k.lower(), v) for k, v in request.headers.items()
                      if k.lower() not in ("x-schemathesis-testcaseid", "host", "user-agent", "accept-encoding", "connection",
                                           "content-length", "accept"))
        log.append([request.method, request.full_path.rstrip("?"), hdrs, request.get_data().decode("latin-1")])
        if request.method == "POST":
            return jsonify({"id": 5}), 201
        return jsonify({"id": 5}), 200

    with E.Server(app) as srv:
        schema = E.load_schema(srv.url, raw=cfg["raw"])
        phases = [PhaseName[p] for p in cfg["phases"]]
        from schemathesis.generation import GenerationConfig, GenerationMode
        ec = E.engine_config(phases=phases, workers=cfg["workers"], max_examples=cfg["max_examples"], seed=cfg["seed"],
                             stateful_step_count=cfg.get("steps"))
        ec.execution.generation = GenerationConfig(modes=[GenerationMode[m] for m in cfg.get("modes", ["POSITIVE"])])
        evs = E.run_engine(schema, ec)
    fails = sorted((type(e).__name__, getattr(e, "label", None) or "", E.STATUS.get(getattr(e, "status", None), ""))
                   for e in evs if type(e).__name__ == "ScenarioFinished")
    print(json.dumps({"requests": log, "scenarios": fails}))


if __name__ == "__main__":
    main()
