"""Fresh-process runner for the fault sweep (C05 / C11): runs the real engine against a loopback API with a
`sys.settrace` / `threading.settrace` hook that (a) collects the call sites made *from* schemathesis frames, or
(b) raises one exception at the n-th call of one site (a single injected fault), and prints what came out of the stream.

usage: python -m harness.children.fault_child '<json job>'
  job = {"mode": "collect"|"inject", "schema": "flat"|"linked", "phases": [...], "workers": 1, "max_examples": 3,
         "jobs": [{"site": [caller_file, caller_fn, pkg, callee_fn], "nth": 1, "exc": "RuntimeError"}, ...]}
one JSON line per job on stdout (collect: a single line with the site list and the clean summary)."""
import json
import logging
import os
import sys
import threading

logging.getLogger("werkzeug").setLevel(logging.ERROR)

PKGS = ("requests", "json")

LINKED = {
    "openapi": "3.0.2", "info": {"title": "t", "version": "1"},
    "paths": {
        "/items": {"post": {"operationId": "mk", "requestBody": {"content": {"application/json": {"schema": {
            "type": "object", "properties": {"name": {"type": "string"}}, "required": ["name"]}}}},
            "responses": {"201": {"description": "ok", "content": {"application/json": {"schema": {"type": "object"}}},
                                   "links": {"get": {"operationId": "rd", "parameters": {"id": "$response.body#/id"}}}}}}},
        "/items/{id}": {"get": {"operationId": "rd", "parameters": [
            {"name": "id", "in": "path", "required": True, "schema": {"type": "integer"}}],
            "responses": {"200": {"description": "ok"}}}}},
}


def main():
    job = json.loads(sys.argv[1])
    import requests
    import schemathesis
    from flask import Flask, jsonify, request
    from harness import engine_common as E
    from schemathesis.engine import from_schema
    from schemathesis.engine.phases import PhaseName

    src = os.path.dirname(os.path.realpath(schemathesis.__file__))

    def in_st(code):
        return os.path.realpath(code.co_filename).startswith(src)

    def pkg_of(code):
        f = code.co_filename
        if os.path.realpath(f).startswith(src):
            return "schemathesis"
        for p in PKGS:
            if f"/{p}/" in f:
                return p
        return None

    def site_of(frame):
        back = frame.f_back
        if back is None or not in_st(back.f_code):
            return None
        pk = pkg_of(frame.f_code)
        if pk is None:
            return None
        return (os.path.relpath(back.f_code.co_filename, src), back.f_code.co_name, pk, frame.f_code.co_name)

    class Injected(RuntimeError):
        pass

    def make_exc(name):
        if hasattr(requests.exceptions, name):
            return getattr(requests.exceptions, name)("injected fault")
        if name == "Injected":
            return Injected("injected fault")
        return {"RuntimeError": RuntimeError, "KeyError": KeyError, "ValueError": ValueError, "TypeError": TypeError,
                "AssertionError": AssertionError, "AttributeError": AttributeError}[name]("injected fault")

    log = []
    app = Flask("fault")

    @app.route("/<path:p>", methods=["GET", "POST", "PUT", "DELETE", "PATCH"])
    def any_(p):
        log.append((request.method, p))
        if request.method == "POST":
            return jsonify({"id": 5}), 201
        return jsonify({"id": 5}), 200

    @app.route("/")
    def root():
        log.append(("GET", ""))
        return jsonify({}), 200

    escaped = []

    def hook(args):
        # a thread died with an exception: which call of the thread's own function did it come through?
        names, tb = [], args.exc_traceback
        while tb is not None:
            if in_st(tb.tb_frame.f_code):
                names.append(tb.tb_frame.f_code.co_name)
            tb = tb.tb_next
        escaped.append({"thread": args.thread.name if args.thread else None, "exc": type(args.exc_value).__name__,
                        "via": names[:2]})

    threading.excepthook = hook

    def run(tracer):
        del log[:]
        del escaped[:]
        raw = LINKED if job["schema"] == "linked" else None
        if job["schema"] == "flat-err":
            # two healthy operations and one for which `run_test` itself reports an error in the middle of its scenario
            # (a required parameter nothing satisfies): faults after that point meet a scenario that already carries an error event
            # (the error-carrying operation comes first: the first call of every site then falls into its scenario)
            raw = {**E.RAW, "paths": {"/bad": {"get": {"parameters": [{"name": "q", "in": "query", "required": True,
                                                                       "schema": {"type": "integer", "minimum": 5, "maximum": 1}}],
                                                       "responses": {"200": {"description": "ok"}}}},
                                      **{k: v for k, v in list(E.RAW["paths"].items())[:2]}}}
        schema = E.load_schema(srv.url, n_ops=None if raw else 2, raw=raw)
        cfg = E.engine_config(phases=[PhaseName[p] for p in job["phases"]], workers=job["workers"],
                              max_examples=job["max_examples"], stateful_step_count=job.get("steps", 3))
        evs, err = [], None
        threading.settrace(tracer)
        sys.settrace(tracer)
        try:
            try:
                for ev in from_schema(schema, config=cfg).execute():
                    evs.append(ev)
            except BaseException as e:  # the stream died
                err = e
        finally:
            sys.settrace(None)
            threading.settrace(None)
        ps = E.plan_canon(evs)
        try:
            code = E.exit_code_of(evs)
        except Exception as e:
            code = f"raised:{type(e).__name__}"
        return {"bad": [list(b) for b in E.stream_violations(ps, interrupted=False)],
                "died": type(err).__name__ if err is not None else None,
                "errors": sum(1 for p in ps if p["k"] in ("NonFatalError", "FatalError")),
                "scenarios": [p.get("st") for p in ps if p["k"] == "ScenarioFinished"],
                "phases": [[p["phase"], p["st"]] for p in ps if p["k"] == "PhaseFinished" and p.get("enabled")],
                "interrupted": any(p["k"] == "Interrupted" for p in ps),
                "exit": code, "requests": len(log), "escaped": list(escaped)}

    with E.Server(app) as srv:
        if job["mode"] == "collect":
            sites, lock = {}, threading.Lock()

            def collector(frame, event, arg):
                if event == "call":
                    s = site_of(frame)
                    if s is not None and not s[1].startswith("<module"):
                        with lock:
                            sites.setdefault(s, [0, threading.current_thread().name])[0] += 1
                return None

            out = run(collector)
            print(json.dumps({"clean": out, "sites": [[*k, v[0], v[1]] for k, v in sorted(sites.items())]}), flush=True)
            return
        for j in job["jobs"]:
            site, nth, state = tuple(j["site"]), j["nth"], {"n": 0, "fired": None}
            lock = threading.Lock()

            def injector(frame, event, arg, site=site, nth=nth, state=state, lock=lock, exc=j["exc"]):
                if event == "call" and state["fired"] is None and site_of(frame) == site:
                    with lock:
                        state["n"] += 1
                        fire = state["n"] == nth and state["fired"] is None
                        if fire:
                            state["fired"] = threading.current_thread().name
                    if fire:
                        raise make_exc(exc)
                return None

            out = run(injector)
            print(json.dumps({**j, "fired": state["fired"], **out}), flush=True)


if __name__ == "__main__":
    main()
