"""Common machinery of every check: build + audit of the Lean side, the line-protocol driver, verdict bookkeeping
(violations, known findings, no-failing-input-found), evidence writing.

A check module `harness/corr/cXX.py` defines `run(chk: Check)`; `./check CXX` calls it through `main`.
"""
from __future__ import annotations

import argparse
import fcntl
import hashlib
import importlib
import json
import os
import random
import re
import subprocess
import sys
import time
import traceback
from collections import Counter
from pathlib import Path

ROOT = Path(__file__).resolve().parent.parent
LEAN = ROOT / "lean"
REPO = Path(os.environ.get("VERIF_REPO", "/repo"))
ALLOWED_AXIOMS = {"propext", "Classical.choice", "Quot.sound"}
FORBIDDEN = re.compile(r"\bsorry\b|\badmit\b|^axiom |native_decide|bv_decide|implemented_by|\bunsafe |maxHeartbeats 0")

os.environ.setdefault("SCHEMATHESIS_VERIF", "1")


class InfraError(Exception):
    """Something in the machinery itself failed (exit 2, never a VIOLATION)."""


def _lock():
    (LEAN / ".lake").mkdir(exist_ok=True)
    f = open(LEAN / ".lake" / "verif.lock", "w")
    fcntl.flock(f, fcntl.LOCK_EX)
    return f


def sh(cmd, cwd=None, timeout=1800, input=None):
    return subprocess.run(cmd, cwd=cwd, stdout=subprocess.PIPE, stderr=subprocess.STDOUT, text=True, timeout=timeout,
                          input=input)


def strip_comments(src: str) -> str:
    # remove /- … -/ (nested once is enough for our files) and -- … comments
    out, depth, i = [], 0, 0
    while i < len(src):
        if src.startswith("/-", i):
            depth += 1
            i += 2
        elif src.startswith("-/", i) and depth:
            depth -= 1
            i += 2
        elif depth:
            i += 1
        elif src.startswith("--", i):
            j = src.find("\n", i)
            i = len(src) if j < 0 else j
        else:
            out.append(src[i])
            i += 1
    return "".join(out)


def import_closure(module: str) -> list[Path]:
    """SV.* files reachable from `module` (for the forbidden-token grep)."""
    seen, todo, files = set(), [module], []
    while todo:
        m = todo.pop()
        if m in seen or not (m == "SV" or m.startswith("SV.")):
            continue
        seen.add(m)
        p = LEAN / (m.replace(".", "/") + ".lean")
        if not p.exists():
            continue
        files.append(p)
        for line in p.read_text().splitlines():
            mm = re.match(r"\s*(?:public\s+)?import\s+([\w.]+)", line)
            if mm:
                todo.append(mm.group(1))
    return files


class Driver:
    """Runs `lake env lean --run Drivers/<name>.lean`, one JSON request per line."""

    def __init__(self, name: str):
        self.path = LEAN / "Drivers" / f"{name}.lean"
        if not self.path.exists():
            raise InfraError(f"no driver {self.path}")
        self.calls = 0

    def batch(self, reqs: list[tuple[str, object]], timeout=1200) -> list:
        """reqs: [(op, arg)] -> list of results; a model-side error is returned as {'__err__': msg}."""
        if not reqs:
            return []
        data = "\n".join(json.dumps({"op": op, "a": a}, ensure_ascii=False) for op, a in reqs) + "\n"
        r = subprocess.run(["lake", "env", "lean", "--run", str(self.path)], cwd=LEAN, input=data.encode("utf-8"),
                           stdout=subprocess.PIPE, stderr=subprocess.PIPE, timeout=timeout)
        lines = [ln for ln in r.stdout.decode("utf-8", "replace").split("\n") if ln.strip()]  # not splitlines(): U+2028 etc.
        if r.returncode != 0 or len(lines) != len(reqs):
            raise InfraError(f"driver {self.path.name}: rc={r.returncode} answers={len(lines)}/{len(reqs)} "
                             f"stderr={r.stderr.decode('utf-8', 'replace')[-2000:]} out={lines[-3:] if lines else ''}")
        out = []
        for ln in lines:
            j = json.loads(ln)
            out.append(j["ok"] if "ok" in j else {"__err__": j.get("err")})
        self.calls += len(reqs)
        return out

    def one(self, op, a):
        return self.batch([(op, a)])[0]


class Check:
    def __init__(self, prop: str, tier: str, seed: int, replay: str | None = None):
        self.prop, self.tier, self.seed, self.replay_file = prop, tier, seed, replay
        self.rng = random.Random(f"{prop}:{seed}")
        self.t0 = time.time()
        self.violations: list[dict] = []
        self.known_hits: list[dict] = []
        self.stats: Counter = Counter()
        self.distinct: set = set()
        self.samples: list = []
        self.mech: dict[str, dict] = {}
        self.notes: list[str] = []
        self.variants: dict[str, str] = {}
        self.assumptions: list[str] = []
        self.trusted: list[str] = []
        self.obligations: list[dict] = []
        self.broken_obligations: list[str] = []
        self.build_log = ""
        self.proved: list[str] = []
        self.partial: list[str] = []
        self.sampled_only: list[str] = []
        kf = json.loads((ROOT / "known_findings.json").read_text())
        self.known = [e for e in kf["findings"] if e["property"] == prop]

    # ---- tiers -----------------------------------------------------------------------------------------------
    @property
    def thorough(self) -> bool:
        return self.tier == "thorough"

    def budget(self, quick: int, thorough: int) -> int:
        return thorough if self.thorough else quick

    # ---- Lean side -------------------------------------------------------------------------------------------
    def write_generated(self, name: str, text: str):
        """(Re)generate SV/Generated/<name>.lean from the source tree; only touches the file if it changed."""
        p = LEAN / "SV" / "Generated" / f"{name}.lean"
        p.parent.mkdir(exist_ok=True)
        if not p.exists() or p.read_text() != text:
            p.write_text(text)

    def build(self, extra_targets: tuple[str, ...] = ()):
        """lake build SV.Props.<prop> (+ driver deps). A failure is recorded as broken obligations, not raised."""
        targets = [f"SV.Props.{self.prop}", f"SV.Model.{self.prop}", "SV.Audit", "SV.Wire", "SV.Spec.JsonSchemaWire", *extra_targets]
        # everything the drivers of this property import must be built too (a fresh checkout has no .lake)
        for drv in {self.prop, *getattr(self, "driver_names", ())}:
            dp = LEAN / "Drivers" / f"{drv}.lean"
            if dp.exists():
                for line in dp.read_text().splitlines():
                    mm = re.match(r"\s*import\s+(SV[\w.]*)", line)
                    if mm:
                        targets.append(mm.group(1))
        targets = sorted({t for t in targets if (LEAN / (t.replace(".", "/") + ".lean")).exists()})
        lock = _lock()
        try:
            r = sh(["lake", "build", *targets], cwd=LEAN, timeout=3000)
        finally:
            lock.close()
        self.build_log = r.stdout
        if r.returncode != 0:
            # find failing declarations:  error: SV/Props/C18.lean:12:8: …
            decls = []
            for m in re.finditer(r"error: (?:\./)?(\S+?\.lean):(\d+):(\d+)", r.stdout):
                f, line = LEAN / m.group(1), int(m.group(2))
                decls.append(self._decl_at(f, line))
            self.broken_obligations = sorted(set(d for d in decls if d)) or ["<build failed: see build_log>"]
            return False
        return True

    @staticmethod
    def _decl_at(f: Path, line: int) -> str | None:
        try:
            lines = f.read_text().splitlines()
        except OSError:
            return None
        for i in range(min(line, len(lines)) - 1, -1, -1):
            m = re.match(r"\s*(?:@\[[^\]]*\]\s*)?(?:private |protected )?(theorem|lemma|def|example|instance|abbrev)\s+(\S+)?",
                         lines[i])
            if m:
                return f"{f.relative_to(LEAN)}:{m.group(2) or m.group(1)}@{i + 1}"
        return f"{f.relative_to(LEAN)}:{line}"

    def audit(self):
        """Enumerate the theorems of SV.Props.<prop> with their axioms; grep the import closure for forbidden tokens."""
        ns = f"SV.Props.{self.prop}"
        d = LEAN / ".lake" / "audit"
        d.mkdir(parents=True, exist_ok=True)
        f = d / f"{self.prop}.lean"
        f.write_text(f"import SV.Audit\nimport {ns}\n#audit {ns}\n")
        r = sh(["lake", "env", "lean", str(f)], cwd=LEAN, timeout=1200)
        obligations = []
        for m in re.finditer(r"AUDIT (\S+) ::([^\n]*)", r.stdout):
            name, axs = m.group(1), m.group(2).split()
            rel = name[len(ns) + 1:]
            # theorems of nested namespaces count; auto-generated lemmas of local definitions (equation lemmas, matchers …) do not
            if re.search(r"(^|\.)(eq_\d+|eq_def|match_\d+\S*|proof_\d+|sizeOf_spec|injEq|inj|congr_simp|_\S*)$", rel):
                continue
            obligations.append({"theorem": name, "axioms": axs})
        if r.returncode != 0 or not obligations:
            raise InfraError(f"audit failed for {ns}: {r.stdout[-1500:]}")
        self.obligations = obligations
        bad = [o for o in obligations if not set(o["axioms"]) <= ALLOWED_AXIOMS]
        for o in bad:
            self.broken_obligations.append(f"{o['theorem']} uses axioms {o['axioms']}")
        hits = []
        for p in import_closure(ns):
            for n, line in enumerate(strip_comments(p.read_text()).splitlines(), 1):
                if FORBIDDEN.search(line):
                    hits.append(f"{p.relative_to(LEAN)}:{n}:{line.strip()[:80]}")
        for h in hits:
            self.broken_obligations.append(f"forbidden token {h}")
        return obligations

    def leanchecker(self):
        mods = [f"SV.Props.{self.prop}"]
        r = sh(["lake", "env", "leanchecker", *mods], cwd=LEAN, timeout=3000)
        ok = r.returncode == 0
        self.notes.append(f"leanchecker {' '.join(mods)}: {'ok' if ok else 'FAILED ' + r.stdout[-500:]}")
        if not ok:
            self.broken_obligations.append(f"leanchecker rejected {mods}")
        return ok

    def driver(self, name: str | None = None) -> Driver:
        return Driver(name or self.prop)

    # ---- bookkeeping -----------------------------------------------------------------------------------------
    def case(self, mechanism: str, key=None, nontrivial: bool = True, sample=None):
        """Count one explored case. `key` (hashable/JSON-able) identifies it for the distinct count."""
        m = self.mech.setdefault(mechanism, {"cases": 0, "disagreements": 0, "nontrivial": 0})
        m["cases"] += 1
        self.stats["evaluations"] += 1
        if nontrivial:
            m["nontrivial"] += 1
            if key is not None:
                h = hashlib.blake2b(json.dumps([mechanism, key], sort_keys=True, default=str).encode(),
                                    digest_size=8).digest()
                self.distinct.add(h)
        if sample is not None and sum(1 for s in self.samples if s.get("mechanism") == mechanism) < 3:
            self.samples.append({"mechanism": mechanism, "case": sample})

    def feature(self, name: str, n: int = 1):
        self.stats[f"feature:{name}"] += n

    def known_entry(self, signature: str):
        for e in self.known:
            if e["signature"] == signature:
                return e
        return None

    def violation(self, signature: str, what: str, replay: dict, *, found_input: bool = True):
        """A property violation observed on the implementation (found_input) or a broken obligation/correspondence
        for which no failing input was found (found_input=False)."""
        e = self.known_entry(signature)
        if e is not None and e["status"] == "known" and found_input:
            if not any(k["signature"] == signature for k in self.known_hits):
                self.known_hits.append({"signature": signature, "what": e["what_fails"], "example": replay})
            self.stats["known_finding_hits"] += 1
            return
        if any(v["signature"] == signature for v in self.violations):
            self.stats["violation_repeats"] += 1
            return
        self.violations.append({"signature": signature, "what": what, "replay": replay, "found_input": found_input})

    def disagreement(self, mechanism: str, inp, model_out, impl_out):
        """Model and implementation differ on `inp` — recorded; resolved in finish()."""
        m = self.mech.setdefault(mechanism, {"cases": 0, "disagreements": 0, "nontrivial": 0})
        m["disagreements"] += 1
        if "first_disagreement" not in m:
            m["first_disagreement"] = {"input": inp, "model": model_out, "impl": impl_out}

    # ---- verdict ---------------------------------------------------------------------------------------------
    def finish(self) -> int:
        out_dir = ROOT / "replays" / self.prop
        found_real = [v for v in self.violations if v["found_input"]]
        # broken obligations / correspondences without a concrete failing input
        # (reported even when a concrete failing input was found elsewhere: another mechanism may be broken too)
        if True:
            for b in self.broken_obligations:
                self.violations.append({"signature": f"{self.prop}:obligation:{b}", "what": f"proof obligation no longer checks: {b}",
                                        "replay": {"theorem": b, "build_log_tail": self.build_log[-3000:]}, "found_input": False})
            for name, m in self.mech.items():
                if m["disagreements"]:
                    self.violations.append({"signature": f"{self.prop}:correspondence:{name}",
                                            "what": f"model and implementation disagree in mechanism {name} "
                                                    f"({m['disagreements']} of {m['cases']} cases)",
                                            "replay": {"correspondence": name, **m.get("first_disagreement", {})},
                                            "found_input": False})
        lines = []
        for k in self.known_hits:
            lines.append(f"KNOWN-FINDING: property={self.prop} {k['signature']} — {k['what']}")
        for v in self.violations:
            out_dir.mkdir(parents=True, exist_ok=True)
            h = hashlib.blake2b(v["signature"].encode(), digest_size=6).hexdigest()
            p = out_dir / f"{h}.json"
            doc = {"property": self.prop, "signature": v["signature"], "what": v["what"],
                   "seed": self.seed, "tier": self.tier, "failing_input_found": v["found_input"],
                   "replay": v["replay"], "replay_cmd": f"./check {self.prop} --replay {p.relative_to(ROOT)}"}
            try:
                p.write_text(json.dumps(doc, indent=1, default=str, ensure_ascii=False))
            except UnicodeEncodeError:      # a lone surrogate in the failing input: keep it, as a JSON escape
                p.write_text(json.dumps(doc, indent=1, default=str, ensure_ascii=True))
            tail = "" if v["found_input"] else " no-failing-input-found"
            lines.append(f"VIOLATION property={self.prop} replay={p.relative_to(ROOT)}{tail}")
        self.write_evidence()
        for ln in lines:
            print(ln)
        for v in self.violations:
            print(f"  -> {v['signature']}: {v['what']}".encode("utf-8", "backslashreplace").decode("utf-8"))
        print(f"[{self.prop}] tier={self.tier} seed={self.seed} evaluations={self.stats['evaluations']} "
              f"distinct_nontrivial={len(self.distinct)} obligations={len(self.obligations)} "
              f"known_findings={len(self.known_hits)} violations={len(self.violations)} wall={time.time() - self.t0:.1f}s")
        return 1 if self.violations else 0

    def write_evidence(self):
        discharged = len(self.obligations) if not self.broken_obligations else max(
            0, len(self.obligations) - len(self.broken_obligations))
        cov = {
            "obligations": len(self.obligations),
            "discharged": discharged,
            "checker_cmd": f"cd lean && lake build SV.Props.{self.prop} && lake env lean .lake/audit/{self.prop}.lean"
                           + (f" && lake env leanchecker SV.Props.{self.prop}" if self.thorough else ""),
            "trusted_base": ["Lean 4.33 kernel; axioms allowed: propext, Classical.choice, Quot.sound (audited per theorem)",
                             "hand-written Lean models in lean/SV/Model tied to /repo by the correspondence run of this check",
                             "harness/core.py + harness/corr (canonicalisation, generators), lean/SV/Wire.lean JSON decoding",
                             *self.trusted],
            "theorems": [{"name": o["theorem"], "axioms": o["axioms"]} for o in self.obligations],
            "broken_obligations": self.broken_obligations,
            "evaluations": self.stats["evaluations"],
            "distinct_nontrivial": len(self.distinct),
            "rule": "; ".join(self.notes_rule) if getattr(self, "notes_rule", None) else
                    "cases are (mechanism, canonical input) pairs; distinct = distinct blake2b of the canonical input among "
                    "those the check module marks non-trivial (reaches the modelled branch logic, not rejected up front)",
            "samples": self.samples[:12] or [{"note": "no correspondence cases in this run"}],
            "mechanisms": {k: {kk: vv for kk, vv in v.items() if kk != "first_disagreement"} for k, v in self.mech.items()},
            "disagreements_checked": sum(m["disagreements"] for m in self.mech.values()),
            "input_distribution": {k[8:]: v for k, v in sorted(self.stats.items()) if k.startswith("feature:")},
            "variants_in_force": self.variants,
            "known_findings_observed": [k["signature"] for k in self.known_hits],
            "proved": self.proved, "partial": self.partial, "validated_by_sampling_only": self.sampled_only,
            "notes": self.notes,
            "exhaustive": bool(getattr(self, "exhaustive", False)),
        }
        ev = {"property_id": self.prop, "tier": self.tier, "seed": self.seed, "level": "proof", "coverage": cov,
              "assumptions": self.assumptions, "wall_s": round(time.time() - self.t0, 2),
              "violations": len(self.violations)}
        # evidence describes /repo itself: a run pointed at another tree (seeded change, scratch worktree) keeps its
        # record outside /verif
        evdir = ROOT / "evidence" if REPO == Path("/repo") else Path("/var/tmp/verif-evidence-other-tree")
        evdir.mkdir(exist_ok=True, parents=True)
        try:
            (evdir / f"{self.prop}.json").write_text(json.dumps(ev, indent=1, default=str, ensure_ascii=False))
        except UnicodeEncodeError:          # a sample holding a lone surrogate
            (evdir / f"{self.prop}.json").write_text(json.dumps(ev, indent=1, default=str, ensure_ascii=True))


def main(argv=None) -> int:
    ap = argparse.ArgumentParser()
    ap.add_argument("prop")
    ap.add_argument("--tier", default=os.environ.get("VERIF_TIER") or "quick", choices=["quick", "thorough"])
    ap.add_argument("--replay")
    a = ap.parse_args(argv)
    seed = int(os.environ.get("VERIF_SEED") or 0)
    prop = a.prop.upper()
    chk = Check(prop, a.tier, seed, a.replay)
    try:
        mod = importlib.import_module(f"harness.corr.{prop.lower()}")
        if a.replay:
            return mod.replay(chk, json.loads((ROOT / a.replay).read_text()) if not os.path.isabs(a.replay)
                              else json.loads(Path(a.replay).read_text()))
        chk.driver_names = tuple(getattr(mod, "DRIVERS", ()))
        if hasattr(mod, "prepare"):
            mod.prepare(chk)   # e.g. regenerate SV/Generated tables from /repo before the build
        ok = chk.build(getattr(mod, "EXTRA_TARGETS", ()))
        if ok:
            chk.audit()
            if chk.thorough:
                chk.leanchecker()
        mod.run(chk)
        return chk.finish()
    except subprocess.TimeoutExpired as e:
        print(f"[{prop}] INFRA timeout: {e}", file=sys.stderr)
        return 2
    except InfraError as e:
        print(f"[{prop}] INFRA error: {e}", file=sys.stderr)
        return 2
    except Exception:
        traceback.print_exc()
        print(f"[{prop}] INFRA error (unexpected exception)", file=sys.stderr)
        return 2
