"""C01 — positive-mode test data conforms to the API schema.

Correspondence: the real OpenAPI->JSON-Schema conversion (`to_json_schema_recursive`, `get_schema_for_location`,
`make_positive_strategy`'s header-format injection) and the real `patterns.update_quantifier` against the Lean models
(lean/SV/Model/C01.lean, lean/SV/Model/C01Regex.lean) on the same inputs.
Replay: the shared Lean JSON-Schema *specification* (request-side OpenAPI reading: nullable, readOnly) and an
independent Python oracle (jsonschema extended with nullable/readOnly) judge (a) every value the *converted* schema
lets through and (b) real `operation.as_strategy(POSITIVE)` draws, against the ORIGINAL OpenAPI schema.
"""
from __future__ import annotations

import copy
import json
import re
import warnings

import jsonschema
from jsonschema import validators
from jsonschema.exceptions import ValidationError

from harness.core import InfraError
from harness.gens import c01_gen as G
from harness.gens import schemas as S

EXTRA_TARGETS = ("SV.Spec.JsonSchemaWire",)

KF_F4 = "C01:rewrite_properties->forbid_properties:two-or-more-readOnly-names-forbidden-only-jointly"
KF_F4B = "C01:forbid_properties:readOnly-name-merged-into-an-existing-not-schema"
KF_F5 = "C01:update_pattern_in_schema:length-dropped-for-pattern-not-anchored-at-both-ends"
KF_F28 = "C01:update_quantifier:repeat-count-of-multi-character-item-used-as-string-length"
KF_F32 = "C01:update_quantifier:unquantified-atom-between-anchors-gets-repeated"
KF_F33 = "C01:update_pattern_in_schema:TypeError-on-properties-named-pattern-and-minLength/maxLength"
KF_F34 = "C01:transform:enum/const/example-literals-rewritten-as-if-they-were-schemas"
KF_F35 = "C01:_handle_literal_or_in_quantifier:invalid-quantifier-InternalError-when-minLength>maxLength"
KF_F36 = "C01:_distribute_length_constraints:zero-remaining-maxLength-treated-as-unbounded"
KF_F37 = "C01:to_json_schema:readOnly-ignored-when-type-object-is-not-declared"
KF_F38 = "C01:_find_quantified_end:lazy-or-possessive-suffix-cut-off-in-multi-part-pattern"
KF_F38B = "C01:_find_quantified_end:escaped-quantifier-character-taken-for-a-quantifier-in-multi-part-pattern"
KF_F38C = "C01:_handle_anchored_pattern:non-capturing-group-text-out-of-step-with-parse-tree"


# ---- canonical forms ----------------------------------------------------------------------------------------------

def canon(x, key=None):
    if isinstance(x, dict):
        return {k: canon(v, k) for k, v in sorted(x.items())}
    if isinstance(x, list):
        ys = [canon(v) for v in x]
        if key == "required":  # `list(set(…))` order is not part of the contract
            ys = sorted(ys, key=lambda v: json.dumps(v, sort_keys=True))
        return ys
    return x


def dumps(x):
    return json.dumps(canon(x), sort_keys=True, ensure_ascii=False)


def py_depth(x):
    if isinstance(x, dict):
        return 1 + max([py_depth(v) for v in x.values()], default=0)
    if isinstance(x, list):
        return 1 + max([py_depth(v) for v in x], default=0)
    return 1


def on_wire(x):
    """can this value travel to the Lean side without loss? (no NaN/inf/huge floats, no integral floats, str keys)"""
    if isinstance(x, bool) or x is None or isinstance(x, str):
        return not (isinstance(x, str) and any(0xD800 <= ord(c) <= 0xDFFF for c in x))
    if isinstance(x, int):
        return abs(x) < 10 ** 30
    if isinstance(x, float):
        return x == x and abs(x) < 1e15 and x != int(x) and len(repr(x)) < 18 and "e" not in repr(x)
    if isinstance(x, list):
        return all(on_wire(v) for v in x)
    if isinstance(x, dict):
        return all(isinstance(k, str) and on_wire(k) and on_wire(v) for k, v in x.items())
    return False


# ---- independent Python oracle: JSON Schema draft 4 + OpenAPI nullable / readOnly (request side) ------------------

def _forbidden(sub, mode):
    if not isinstance(sub, dict):
        return False
    if mode == "request":
        return sub.get("readOnly") is True
    return sub.get("writeOnly") is True or sub.get("x-writeOnly") is True


_OAS_CACHE: dict = {}


def make_oas_validator(nn: str, mode: str = "request", draft4: bool = True):
    key = (nn, mode, draft4)
    if key not in _OAS_CACHE:
        _OAS_CACHE[key] = _make_oas_validator(nn, mode, draft4)
    return _OAS_CACHE[key]


def _make_oas_validator(nn: str, mode: str = "request", draft4: bool = True):
    base = jsonschema.Draft4Validator if draft4 else jsonschema.Draft202012Validator

    def properties(validator, props, instance, schema):
        if not validator.is_type(instance, "object") or not isinstance(props, dict):
            return
        for k, sub in props.items():
            if k in instance:
                if _forbidden(sub, mode):
                    yield ValidationError(f"{k!r} must not be sent")
                else:
                    yield from validator.descend(instance[k], sub, path=k, schema_path=k)

    def required(validator, req, instance, schema):
        if not validator.is_type(instance, "object") or not isinstance(req, list):
            return
        props = schema.get("properties") if isinstance(schema.get("properties"), dict) else {}
        for k in req:
            if isinstance(k, str) and k not in instance and not _forbidden(props.get(k), mode):
                yield ValidationError(f"{k!r} is required")

    cls = validators.extend(base, {"properties": properties, "required": required})

    class OAS(cls):  # type: ignore[misc,valid-type]
        def iter_errors(self, instance, _schema=None):
            sch = self.schema if _schema is None else _schema
            if instance is None and isinstance(sch, dict) and "$ref" not in sch and sch.get(nn) is True:
                return
            yield from super().iter_errors(instance, _schema)

        def descend(self, instance, schema, path=None, schema_path=None, resolver=None):
            if instance is None and isinstance(schema, dict) and "$ref" not in schema and schema.get(nn) is True:
                return
            yield from super().descend(instance, schema, path=path, schema_path=schema_path, resolver=resolver)

    return OAS


def oas_valid(schema, instance, nn, root=None, mode="request", draft4=True):
    cls = make_oas_validator(nn, mode, draft4)
    with warnings.catch_warnings():
        warnings.simplefilter("ignore")
        if root is not None:
            return cls(schema, resolver=jsonschema.RefResolver.from_schema(root)).is_valid(instance)
        return cls(schema).is_valid(instance)


def js_valid(schema, instance, root=None):
    with warnings.catch_warnings():
        warnings.simplefilter("ignore")
        if root is not None:
            return jsonschema.Draft4Validator(schema, resolver=jsonschema.RefResolver.from_schema(root)).is_valid(instance)
        return jsonschema.Draft4Validator(schema).is_valid(instance)


# ---- the real code --------------------------------------------------------------------------------------------------

def impl_conv(schema, nn, resp=False, updq=True):
    from schemathesis.specs.openapi.converter import to_json_schema_recursive
    try:
        return {"ok": to_json_schema_recursive(copy.deepcopy(schema), nn, is_response_schema=resp, update_quantifiers=updq)}
    except Exception as e:  # noqa: BLE001 - the class is the observable
        return {"error": type(e).__name__}


def impl_upd(p, lo, hi):
    from schemathesis.specs.openapi.patterns import update_quantifier
    try:
        return update_quantifier(p, lo, hi)
    except Exception as e:  # noqa: BLE001
        return {"error": type(e).__name__}


def both_anchored(p):
    """what the repaired variant of F5 consults: pattern parses and starts/ends with a begin/end anchor"""
    try:
        import re._constants as sre
        import re._parser as sre_parse
        parsed = list(sre_parse.parse(p))
    except Exception:  # noqa: BLE001
        return False
    return (len(parsed) >= 2 and parsed[0][0] == sre.AT and parsed[0][1] in (sre.AT_BEGINNING, sre.AT_BEGINNING_STRING)
            and parsed[-1][0] == sre.AT and parsed[-1][1] in (sre.AT_END, sre.AT_END_STRING))


def cfg_for(chk, schema, nn, resp=False, updq=True, **over):
    upd, anch, seen = [], [], set()
    for p, lo, hi in G.pattern_requests(schema):
        out = impl_upd(p, lo, hi)
        if isinstance(out, str):
            upd.append([p, lo, hi, out])
        if p not in seen:
            seen.add(p)
            anch.append([p, both_anchored(p)])
    cfg = {"vForbid": chk.variants.get("forbid_properties", "asFound"), "vLen": chk.variants.get("length_drop", "asFound"),
           "nn": nn, "resp": resp, "updQ": updq, "upd": upd, "anch": anch}
    cfg.update(over)
    return cfg


# ---- witnesses (decide the variants the tree exhibits) ----------------------------------------------------------------

W_F4 = {"type": "object", "properties": {"a": {"type": "integer", "readOnly": True}, "b": {"type": "integer", "readOnly": True}}}
W_F4_INSTANCE = {"a": 1}
W_F5 = {"type": "string", "pattern": "[a-z]", "maxLength": 3}
W_F5_INSTANCE = "aaaaaaa"
W_F28 = {"type": "string", "pattern": "^(ab)+$", "maxLength": 3}
W_F28_INSTANCE = "ababab"
W_F32 = {"type": "string", "pattern": "^a$", "maxLength": 3}
W_F32_INSTANCE = "aaa"
W_F33 = {"type": "object", "properties": {"pattern": {"type": "string"}, "minLength": {"type": "integer"}}}


def detect_variants(chk):
    r = impl_conv(W_F4, "nullable")
    v = "asFound"
    if "ok" in r and not js_valid(r["ok"], W_F4_INSTANCE):
        v = "repaired"
    chk.variants["forbid_properties"] = v
    r = impl_conv(W_F5, "nullable")
    v = "asFound"
    if "ok" in r and "maxLength" in r["ok"]:
        v = "repaired"
    chk.variants["length_drop"] = v
    chk.variants["distribute_zero_max"] = "asFound" if impl_upd("^a[0-9]*$", None, 1) == "^a([0-9]){0,}$" else "repaired"


# ---- mechanism 1: conversion -----------------------------------------------------------------------------------------

def classify_pattern(schema, nn, v):
    """(1) pattern x length merging: does the conversion without quantifier rewriting reject v?"""
    np_ = impl_conv(schema, nn, updq=False)
    if "ok" in np_ and not js_valid(np_["ok"], v):
        strings = []
        S._walk(v, lambda n: strings.append(n) if isinstance(n, str) else None)
        for p, lo, hi in G.pattern_requests(schema):
            new = impl_upd(p, lo, hi)
            if not isinstance(new, str) or new == p:
                continue
            for t in strings:
                try:
                    bad = re.search(new, t) and not (re.search(p, t) and (lo or 0) <= len(t) and (hi is None or len(t) <= hi))
                except re.error:
                    bad = False
                if bad:
                    return pattern_signature(p, lo, hi), {"pattern": p, "minLength": lo, "maxLength": hi, "rewritten": new, "string": t}
        return "C01:update_pattern_in_schema:converted-schema-accepts-nonconforming-string", {}
    return None


def classify_rest(schema, nn, v, repaired_conv):
    """(2) readOnly handling: does the repaired forbid site reject v?  (3) literals rewritten by transform"""
    if isinstance(repaired_conv, dict) and "__err__" not in repaired_conv and not js_valid(repaired_conv, v):
        shapes = []

        def fn(d):
            if d.get("type") == "object" and isinstance(d.get("properties"), dict):
                ro = [k for k, s in d["properties"].items() if isinstance(s, dict) and s.get("readOnly")]
                if ro and "not" in d:
                    shapes.append("prior-not")
                elif len(ro) >= 2:
                    shapes.append("two")

        G.walk_dicts(schema, fn)
        if "two" in shapes:
            return KF_F4, {}
        if "prior-not" in shapes:
            return KF_F4B, {}
    lit, untyped = [], []

    def fn2(d):
        for k in ("enum", "const", "example", "examples", "default"):
            if k in d and any(isinstance(x, dict) for x in (d[k] if isinstance(d[k], list) else [d[k]])):
                lit.append(k)
        if d.get("type") != "object" and isinstance(d.get("properties"), dict) and \
                any(isinstance(x, dict) and x.get("readOnly") is True for x in d["properties"].values()):
            untyped.append(1)

    G.walk_dicts(schema, fn2)
    if untyped:
        return KF_F37, {}
    if lit:
        return KF_F34, {"keywords": sorted(set(lit))}
    return "C01:to_json_schema:converted-schema-accepts-value-the-openapi-schema-rejects", {}


def pattern_signature(p, lo=None, hi=None):
    """class of the pattern whose merge with the length keywords lost a constraint"""
    try:
        import re._constants as sre
        import re._parser as sre_parse
        parsed = list(sre_parse.parse(p))
    except Exception:  # noqa: BLE001
        return "C01:update_quantifier:invalid-pattern-rewritten"
    cause = text_divergence(p)
    if cause:
        return cause
    if not both_anchored(p):
        return KF_F5
    body = parsed[1:-1]
    fixed = sum(1 for op, _ in body if op == sre.LITERAL)
    if len(parsed) > 3 and hi is not None and hi - fixed == 0 and lo != hi:
        return KF_F36
    reps = [(op, val) for op, val in body if op in (sre.MAX_REPEAT, sre.MIN_REPEAT, getattr(sre, "POSSESSIVE_REPEAT", None))]
    if len(body) == 1 and not reps:
        return KF_F32
    for _op, (_lo, _hi, sub) in reps:
        if not (len(sub) == 1 and sub[0][0] in (sre.LITERAL, sre.NOT_LITERAL, sre.IN, sre.ANY, sre.CATEGORY)):
            return KF_F28
    return "C01:update_quantifier:anchored-width-1-pattern-merge-unsound"


def text_divergence(p):
    """multi-part anchored patterns whose *text* `_handle_anchored_pattern` scans out of step with the parse tree
    (outside the tree model; each cause is a recorded finding with its own witness): a lazy/possessive suffix, an
    escaped quantifier character that is itself quantified, a non-capturing group"""
    try:
        sre, sre_parse = _sre()
        parsed = list(sre_parse.parse(p))
    except Exception:  # noqa: BLE001
        return None
    if len(parsed) <= 3:
        return None
    if any(op in (sre.MIN_REPEAT, getattr(sre, "POSSESSIVE_REPEAT", object())) for op, _ in parsed):
        return KF_F38
    if re.search(r"\\[+*?{}()\[\]][+*?{]", p):
        return KF_F38B
    if "(?:" in p:
        return KF_F38C
    return None


def conv_round(chk, drv, items, mechanism):
    """items: [(schema, nn, resp, updq, instances)]"""
    reqs = [("conv", {"cfg": cfg_for(chk, s, nn, resp, updq), "schema": s, "fuel": 2 * py_depth(s) + 8})
            for s, nn, resp, updq, _ in items]
    models = drv.batch(reqs)
    spec_reqs, spec_cases = [], []
    for (s, nn, resp, updq, insts), m in zip(items, models):
        impl = impl_conv(s, nn, resp, updq)
        changed = "ok" in impl and dumps(impl["ok"]) != dumps(s)
        chk.case(mechanism, key=[dumps(s), nn, resp, updq], nontrivial=changed,
                 sample={"schema": s, "nullable_name": nn, "impl": impl})
        feats = schema_features(s, nn)
        for f in feats:
            chk.feature(f"{mechanism}:{f}")
        if "error" in impl:
            chk.feature(f"{mechanism}:impl-error:{impl['error']}")
            if impl["error"] == "TypeError" and crash_shape(s):
                chk.violation(KF_F33, "to_json_schema_recursive raises TypeError (unhashable dict passed to the lru_cache'd "
                              "update_quantifier) for an object schema with properties named 'pattern' and 'minLength'/"
                              "'maxLength': the operation cannot be generated at all", {"schema": s, "nullable_name": nn})
            elif impl["error"] == "InternalError" and any(
                    isinstance(lo, int) and isinstance(hi, int) and lo > hi for _, lo, hi in G.pattern_requests(s)):
                chk.violation(KF_F35, "update_quantifier builds the invalid quantifier {lo,hi} with lo > hi for a single atom and "
                              "raises InternalError: the whole schema cannot be converted although the contradictory "
                              "sub-schema may sit under not/anyOf", {"schema": s, "nullable_name": nn})
            else:
                chk.violation(f"C01:to_json_schema:raises-{impl['error']}", f"conversion raises {impl['error']}",
                              {"schema": s, "nullable_name": nn})
            continue
        if isinstance(m, dict) and "__err__" in m:
            raise InfraError(f"model error {m} on {s}")
        if dumps(m) != dumps(impl["ok"]):
            chk.disagreement(mechanism, {"schema": s, "nullable_name": nn, "resp": resp, "update_quantifiers": updq},
                             canon(m), canon(impl["ok"]))
        if resp or not updq or not in_spec(s):
            continue
        # replay: what the converted schema lets through must conform to the OpenAPI schema (request side)
        conv = impl["ok"]
        for v in insts:
            if not on_wire(v):
                continue
            spec_reqs.append(("valid", {"env": S.lean_env(s, v, oas="request", nullable=nn), "schema": s, "instance": v,
                                        "fuel": 2 * py_depth(s) + 8}))
            spec_cases.append((s, nn, conv, v))
    specs = drv.batch(spec_reqs)
    pending = []
    for (s, nn, conv, v), spec in zip(spec_cases, specs):
        if isinstance(spec, dict):
            raise InfraError(f"spec error {spec}")
        try:
            ref = oas_valid(s, v, nn)
            acc = js_valid(conv, v)
        except Exception:  # noqa: BLE001 - ill-formed for the library: outside the comparison
            chk.feature("conv-replay:oracle-rejects-schema")
            continue
        if ref != spec:
            raise InfraError(f"Lean request-side validF != extended jsonschema: schema={json.dumps(s)} instance={json.dumps(v)} "
                             f"nullable={nn} lean={spec} python={ref}")
        chk.case("conv-replay", key=[dumps(s), dumps(v)], nontrivial=acc or spec)
        chk.feature(f"conv-replay:converted={'accepts' if acc else 'rejects'},openapi={'accepts' if spec else 'rejects'}")
        if acc and not spec:
            pending.append((s, nn, conv, v))
    what = ("the converted JSON Schema accepts a value that the OpenAPI schema rejects (request side): positive "
            "generation may emit it")
    rest = []
    for s, nn, conv, v in pending:
        r = classify_pattern(s, nn, v)
        if r is not None:
            chk.violation(r[0], what, {"schema": s, "nullable_name": nn, "converted": conv, "instance": v, **r[1]})
        else:
            rest.append((s, nn, conv, v))
    reps = drv.batch([("conv", {"cfg": cfg_for(chk, s, nn, vForbid="repaired"), "schema": s, "fuel": 2 * py_depth(s) + 8})
                      for s, nn, _, _ in rest])
    for (s, nn, conv, v), rep in zip(rest, reps):
        sig, extra = classify_rest(s, nn, v, rep)
        chk.violation(sig, what, {"schema": s, "nullable_name": nn, "converted": conv, "instance": v, **extra})


def in_spec(s):
    """the shared reference semantics covers this schema (no tuple-form `items`)"""
    bad = []
    G.walk_dicts(s, lambda d: bad.append(1) if isinstance(d.get("items"), list) else None)
    return not bad


# ---- mechanism 2: update_quantifier on the parse tree ----------------------------------------------------------------

def _sre():
    import re._constants as sre
    import re._parser as sre_parse
    return sre, sre_parse


def _atom_id(op, av):
    return f"{op}:{av!r}"


def re_tree(seq):
    """sre sub-pattern -> Re JSON (groups erased, right-nested cat)"""
    sre, _ = _sre()
    nodes = [re_node(op, av) for op, av in seq]
    if not nodes:
        return ["eps"]
    out = nodes[-1]
    for n in reversed(nodes[:-1]):
        out = ["cat", n, out]
    return out


def re_node(op, av):
    sre, _ = _sre()
    if op in (sre.LITERAL, sre.NOT_LITERAL, sre.IN, sre.ANY, sre.CATEGORY):
        return ["atom", _atom_id(op, av)]
    if op == sre.SUBPATTERN:
        return re_tree(av[3])
    if op == sre.BRANCH:
        alts = [re_tree(a) for a in av[1]]
        out = alts[-1]
        for a in reversed(alts[:-1]):
            out = ["alt", a, out]
        return out
    if op in (sre.MAX_REPEAT, sre.MIN_REPEAT, getattr(sre, "POSSESSIVE_REPEAT", object())):
        return ["rep", re_tree(av[2]), int(av[0]), int(av[1])]
    return ["opaque", _atom_id(op, av)]


AT_KINDS = None


def sre_items(pattern):
    """pattern text -> top-level Item JSON, as `_handle_parsed_pattern` sees it"""
    sre, sre_parse = _sre()
    kinds = {sre.AT_BEGINNING: "bos", sre.AT_BEGINNING_STRING: "bosA", sre.AT_END: "eos", sre.AT_END_STRING: "eosZ"}
    items = []
    for op, av in sre_parse.parse(pattern):
        if op == sre.AT:
            items.append(["at", kinds.get(av, "other")])
        elif op == sre.LITERAL:
            items.append(["lit", _atom_id(op, av)])
        elif op == sre.IN:
            items.append(["cls", _atom_id(op, av)])
        elif op in (sre.MAX_REPEAT, sre.MIN_REPEAT, getattr(sre, "POSSESSIVE_REPEAT", object())):
            items.append(["rep", int(av[0]), int(av[1]), re_tree(av[2])])
        else:
            items.append(["other", re_node(op, av)])
    return items


RX_STRINGS = None


def rx_strings():
    global RX_STRINGS
    if RX_STRINGS is None:
        import itertools
        alpha = "ab1-"
        RX_STRINGS = [""] + ["".join(t) for n in range(1, 6) for t in itertools.product(alpha, repeat=n)] + \
                     ["aaaaaaa", "ababab", "abababab", "a123", "zzzzzzzz", "a+b", "a.b", "x", "xx", "é", "a b"]
    return RX_STRINGS


def regex_round(chk, drv, cases, mechanism):
    """cases: [(pattern, lo, hi)]"""
    v = chk.variants.get("distribute_zero_max", "asFound")
    todo = []
    for p, lo, hi in cases:
        try:
            re.compile(p)
            items = sre_items(p)
        except Exception:  # noqa: BLE001 - invalid pattern: update_quantifier returns it unchanged, nothing to model
            chk.feature(f"{mechanism}:invalid-pattern")
            continue
        todo.append((p, lo, hi, items))
    models = drv.batch([("regex", {"v": v, "items": items, "lo": lo, "hi": hi}) for _, lo, hi, items in todo])
    for (p, lo, hi, items), m in zip(todo, models):
        impl = impl_upd(p, lo, hi)
        if isinstance(m, dict) and "__err__" in m:
            raise InfraError(f"regex model error {m} on {p!r}")
        if isinstance(impl, dict):
            impl_tree = impl["error"]
        else:
            try:
                impl_tree = {"ok": sre_items(impl)}
            except Exception:  # noqa: BLE001
                impl_tree = "unparsable-output"
        changed = isinstance(impl, str) and impl != p
        chk.case(mechanism, key=[p, lo, hi], nontrivial=changed or isinstance(impl, dict),
                 sample={"pattern": p, "minLength": lo, "maxLength": hi, "impl": impl})
        chk.feature(f"{mechanism}:{'rewritten' if changed else ('error' if isinstance(impl, dict) else 'unchanged')}")
        if text_divergence(p):
            chk.feature(f"{mechanism}:text-divergent-multi-part(outside-the-tree-model)")
        elif ({"ok": m["ok"]} if isinstance(m, dict) and "ok" in m else m) != impl_tree or \
                (changed and not (isinstance(m, dict) and m.get("rewrote"))):
            chk.disagreement(mechanism, {"pattern": p, "minLength": lo, "maxLength": hi}, m, {"text": impl, "tree": impl_tree})
        # replay: the rewritten pattern (which replaces pattern + length keywords) must not admit a string the original
        # constraints reject; judged by Python's `re` on a fixed string pool
        if isinstance(impl, dict):
            if impl["error"] == "InternalError":
                chk.violation(text_divergence(p) or (KF_F35 if (lo is not None and hi is not None and lo > hi) else
                                                       "C01:update_quantifier:raises-InternalError"),
                              "update_quantifier raises InternalError", {"pattern": p, "minLength": lo, "maxLength": hi})
            else:
                chk.violation(f"C01:update_quantifier:raises-{impl['error']}", f"update_quantifier raises {impl['error']}",
                              {"pattern": p, "minLength": lo, "maxLength": hi})
            continue
        if not changed:
            continue
        try:
            old_c, new_c = re.compile(p), re.compile(impl)
        except re.error:
            continue
        for t in rx_strings():
            if new_c.search(t) and not (old_c.search(t) and (lo or 0) <= len(t) and (hi is None or len(t) <= hi)):
                chk.violation(pattern_signature(p, lo, hi),
                              "the rewritten pattern, which replaces pattern + minLength/maxLength, matches a string that the "
                              "original constraints reject", {"pattern": p, "minLength": lo, "maxLength": hi,
                                                              "rewritten": impl, "string": t})
                break


def gen_regex_cases(chk, n):
    rng = chk.rng
    return [(G.gen_pattern(rng), rng.choice(G.LENS), rng.choice(G.LENS)) for _ in range(n)]


def exhaustive_regex_cases(chk):
    pats = G.exhaustive_patterns(chk.thorough)
    lens = [None, 0, 1, 2, 3] if not chk.thorough else [None, 0, 1, 2, 3, 4, 6]
    return [(p, lo, hi) for p in pats for lo in lens for hi in lens]


def crash_shape(s):
    hit = []

    def fn(d):
        p = d.get("properties")
        if isinstance(p, dict) and isinstance(p.get("pattern"), dict) and p["pattern"] and \
                any(isinstance(p.get(k), dict) and p[k] for k in ("minLength", "maxLength")):
            hit.append(1)

    G.walk_dicts(s, fn)
    return bool(hit)


def schema_features(s, nn):
    f = set()

    def fn(d):
        if d.get(nn) is True:
            f.add("nullable")
        if d.get("type") == "object" and isinstance(d.get("properties"), dict):
            ro = sum(1 for x in d["properties"].values() if isinstance(x, dict) and x.get("readOnly") is True)
            f.add(f"readOnly={min(ro, 3)}")
            if ro and "not" in d:
                f.add("readOnly+prior-not")
        if isinstance(d.get("pattern"), str) and (d.get("minLength") or d.get("maxLength")):
            f.add("pattern+length")
        for k in ("allOf", "anyOf", "oneOf", "not", "items", "additionalProperties", "enum"):
            if k in d:
                f.add(k)

    G.walk_dicts(s, fn)
    return sorted(f)


def gen_conv_items(chk, n, spice=0.0):
    rng = chk.rng
    items = []
    for _ in range(n):
        nn = "nullable" if rng.random() < 0.7 else "x-nullable"
        s = G.gen_oas_schema(rng, rng.randint(1, 3), nn, spice)
        r = rng.random()
        resp, updq = (True, rng.random() < 0.5) if r < 0.12 else (False, r > 0.2)
        insts = G.instances_for(rng, s, nn, 4)
        impl = impl_conv(s, nn)
        if "ok" in impl:  # values the generator would be allowed to produce
            insts += G.instances_for(rng, impl["ok"], "\0none", 3)
        items.append((s, nn, resp, updq, insts))
    return items


def run(chk):
    drv = chk.driver()
    S.selfcheck(chk, chk.budget(150, 1500))
    detect_variants(chk)
    chk.assumptions += [
        "hypothesis-jsonschema's from_schema(s) yields only instances valid for s (third-party contract, sampled by the draw replay)",
        "the meaning of `pattern` is Python `re.search` (what jsonschema and the generator use); `$` is read as end of input "
        "(hypothesis-jsonschema generates no trailing newline); strings ending in a newline are not generated by this check",
    ]
    chk.trusted += ["harness/gens/schemas.py + lean/SV/Spec/JsonSchema.lean (shared reference semantics, self-checked against "
                    "jsonschema on every run)"]
    # witnesses first
    wit = [(W_F4, "nullable", False, True, [W_F4_INSTANCE, {}, {"a": 1, "b": 2}]),
           (W_F5, "nullable", False, True, [W_F5_INSTANCE, "abc"]),
           (W_F28, "nullable", False, True, [W_F28_INSTANCE, "ab"]),
           (W_F32, "nullable", False, True, [W_F32_INSTANCE, "a"]),
           (W_F33, "nullable", False, True, [{}])]
    conv_round(chk, drv, wit, "witness")
    conv_round(chk, drv, gen_conv_items(chk, chk.budget(1200, 12000)), "conv")
    conv_round(chk, drv, gen_conv_items(chk, chk.budget(150, 1500), spice=0.5), "conv-spiced")
    regex_round(chk, drv, [("^[0-9]{1,3}?a{1,3}\\+{1,3}?\\Z", 3, 3), ("^\\+?b+(?:ab)\\Z", 2, None), ("^(?:ab)[0-9]+$", None, 4), ("^a[0-9]*$", None, 1), ("^(ab)+$", None, 3),
                           ("[a-z]", None, 3), ("^a$", None, 3), ("[ab]", 3, 1)], "regex-witness")
    ex = exhaustive_regex_cases(chk)
    regex_round(chk, drv, ex, "regex-exhaustive")
    regex_round(chk, drv, gen_regex_cases(chk, chk.budget(1500, 15000)), "regex-random")
    chk.notes.append(f"regex-exhaustive: {len(ex)} (pattern, minLength, maxLength) triples: every lead x atom x quantifier x trail "
                     "single-part pattern and all 2/3-part anchored sequences over a small alphabet, lengths in a grid")
    chk.exhaustive = False


def replay(chk, data):
    print(data.get("what"))
    r = data["replay"]
    print("recorded:", json.dumps(r, ensure_ascii=False)[:2000])
    drv = chk.driver()
    detect_variants(chk)
    if "schema" in r:
        s, nn = r["schema"], r.get("nullable_name", "nullable")
        impl = impl_conv(s, nn)
        print("impl now :", json.dumps(impl, ensure_ascii=False))
        print("model    :", json.dumps(drv.one("conv", {"cfg": cfg_for(chk, s, nn), "schema": s, "fuel": 2 * py_depth(s) + 8}),
                                       ensure_ascii=False))
        if "instance" in r and "ok" in impl:
            v = r["instance"]
            print("converted schema accepts instance:", js_valid(impl["ok"], v))
            print("OpenAPI schema accepts instance (python oracle):", oas_valid(s, v, nn))
            print("OpenAPI schema accepts instance (Lean spec):",
                  drv.one("valid", {"env": S.lean_env(s, v, oas="request", nullable=nn), "schema": s, "instance": v}))
    return 0
