"""C01 — positive-mode test data conforms to the API schema.

Correspondence: the real OpenAPI->JSON-Schema conversion (`to_json_schema_recursive`, `get_schema_for_location`,
`make_positive_strategy`'s header-format injection) and the real `patterns.update_quantifier` against the Lean models
(lean/SV/Model/C01.lean, lean/SV/Model/C01Regex.lean) on the same inputs.
Replay: the shared Lean JSON-Schema *specification* (request-side OpenAPI reading: nullable, readOnly) and an
independent Python oracle (jsonschema extended with nullable/readOnly) judge (a) every value the *converted* schema
lets through and (b) real `operation.as_strategy(POSITIVE)` draws, against the ORIGINAL OpenAPI schema.
"""
from __future__ import annotations

import copy
import json
import re
import warnings

import jsonschema
from jsonschema import validators
from jsonschema.exceptions import ValidationError

from harness.core import InfraError
from harness.gens import c01_gen as G
from harness.gens import schemas as S

EXTRA_TARGETS = ("SV.Spec.JsonSchemaWire",)

KF_F4 = "C01:rewrite_properties->forbid_properties:two-or-more-readOnly-names-forbidden-only-jointly"
KF_F4B = "C01:forbid_properties:readOnly-name-merged-into-an-existing-not-schema"
KF_F5 = "C01:update_pattern_in_schema:length-dropped-for-pattern-not-anchored-at-both-ends"
KF_F28 = "C01:update_quantifier:repeat-count-of-multi-character-item-used-as-string-length"
KF_F32 = "C01:update_quantifier:unquantified-atom-between-anchors-gets-repeated"
KF_F33 = "C01:update_pattern_in_schema:TypeError-on-properties-named-pattern-and-minLength/maxLength"
KF_F34 = "C01:transform:enum/const/example-literals-rewritten-as-if-they-were-schemas"
KF_F35 = "C01:_handle_literal_or_in_quantifier:invalid-quantifier-InternalError-when-minLength>maxLength"
KF_F36 = "C01:_distribute_length_constraints:zero-remaining-maxLength-treated-as-unbounded"
KF_F37 = "C01:to_json_schema:readOnly-ignored-when-type-object-is-not-declared"
KF_F39 = "C01:draw:NUL-character-although-allow_x00-is-off:in-unconstrained-json-value"
KF_F39B = "C01:draw:string-not-encodable-in-the-configured-codec:in-unconstrained-json-value"
KF_F40 = "C01:draw:header-or-cookie-value-not-encodable-in-the-configured-codec"
KF_FC01A = "C01:draw:NUL-character-although-allow_x00-is-off:in-http-bearer-Authorization-header-of-a-security-scheme"
KF_F38 = "C01:_find_quantified_end:lazy-or-possessive-suffix-cut-off-in-multi-part-pattern"
KF_F38B = "C01:_find_quantified_end:escaped-quantifier-character-taken-for-a-quantifier-in-multi-part-pattern"
KF_F38C = "C01:_handle_anchored_pattern:non-capturing-group-text-out-of-step-with-parse-tree"


# ---- canonical forms ----------------------------------------------------------------------------------------------

def canon(x, key=None):
    if isinstance(x, dict):
        return {k: canon(v, k) for k, v in sorted(x.items())}
    if isinstance(x, list):
        ys = [canon(v) for v in x]
        if key in ("required", "anyOf", "allOf", "oneOf"):  # set-like: order is not part of the contract
            ys = sorted(ys, key=lambda v: json.dumps(v, sort_keys=True))
        return ys
    return x


def dumps(x):
    return json.dumps(canon(x), sort_keys=True, ensure_ascii=False)


def py_depth(x):
    if isinstance(x, dict):
        return 1 + max([py_depth(v) for v in x.values()], default=0)
    if isinstance(x, list):
        return 1 + max([py_depth(v) for v in x], default=0)
    return 1


def on_wire(x):
    """can this value travel to the Lean side without loss? (no NaN/inf/huge floats, no integral floats, str keys)"""
    if isinstance(x, bool) or x is None or isinstance(x, str):
        return not (isinstance(x, str) and any(0xD800 <= ord(c) <= 0xDFFF for c in x))
    if isinstance(x, int):
        return abs(x) < 10 ** 30
    if isinstance(x, float):
        return x == x and abs(x) < 1e15 and x != int(x) and len(repr(x)) < 18 and "e" not in repr(x)
    if isinstance(x, list):
        return all(on_wire(v) for v in x)
    if isinstance(x, dict):
        return all(isinstance(k, str) and on_wire(k) and on_wire(v) for k, v in x.items())
    return False


# ---- independent Python oracle: JSON Schema draft 4 + OpenAPI nullable / readOnly (request side) ------------------

def _forbidden(sub, mode):
    if not isinstance(sub, dict):
        return False
    if mode == "request":
        return sub.get("readOnly") is True
    return sub.get("writeOnly") is True or sub.get("x-writeOnly") is True


_OAS_CACHE: dict = {}


def make_oas_validator(nn: str, mode: str = "request", draft4: bool = True, intfloat: bool = False):
    key = (nn, mode, draft4, intfloat)
    if key not in _OAS_CACHE:
        _OAS_CACHE[key] = _make_oas_validator(nn, mode, draft4, intfloat)
    return _OAS_CACHE[key]


def _int_or_integral_float(checker, inst):
    return (isinstance(inst, int) and not isinstance(inst, bool)) or (isinstance(inst, float) and inst.is_integer())


def has_integral_float(x):
    if isinstance(x, float):
        return x.is_integer()
    if isinstance(x, dict):
        return any(has_integral_float(v) for v in x.values())
    if isinstance(x, (list, tuple)):
        return any(has_integral_float(v) for v in x)
    return False


def _make_oas_validator(nn: str, mode: str = "request", draft4: bool = True, intfloat: bool = False):
    """`intfloat`: read a float without fractional part (1.0, 2e61) as an integer — the reading of JSON Schema draft 6+ and of
    hypothesis-jsonschema; draft 4 proper reads it as a non-integer number. Both are defensible for an OpenAPI document."""
    base = jsonschema.Draft4Validator if draft4 else jsonschema.Draft202012Validator

    def properties(validator, props, instance, schema):
        if not validator.is_type(instance, "object") or not isinstance(props, dict):
            return
        for k, sub in props.items():
            if k in instance:
                if _forbidden(sub, mode):
                    yield ValidationError(f"{k!r} must not be sent")
                else:
                    yield from validator.descend(instance[k], sub, path=k, schema_path=k)

    def required(validator, req, instance, schema):
        if not validator.is_type(instance, "object") or not isinstance(req, list):
            return
        props = schema.get("properties") if isinstance(schema.get("properties"), dict) else {}
        for k in req:
            if isinstance(k, str) and k not in instance and not _forbidden(props.get(k), mode):
                yield ValidationError(f"{k!r} is required")

    cls = validators.extend(base, {"properties": properties, "required": required},
                            type_checker=base.TYPE_CHECKER.redefine("integer", _int_or_integral_float) if intfloat else None)

    class OAS(cls):  # type: ignore[misc,valid-type]
        def iter_errors(self, instance, _schema=None):
            sch = self.schema if _schema is None else _schema
            if instance is None and isinstance(sch, dict) and "$ref" not in sch and sch.get(nn) is True:
                return
            yield from super().iter_errors(instance, _schema)

        def descend(self, instance, schema, path=None, schema_path=None, resolver=None):
            if instance is None and isinstance(schema, dict) and "$ref" not in schema and schema.get(nn) is True:
                return
            yield from super().descend(instance, schema, path=path, schema_path=schema_path, resolver=resolver)

    return OAS


def oas_valid(schema, instance, nn, root=None, mode="request", draft4=True, intfloat=False):
    cls = make_oas_validator(nn, mode, draft4, intfloat)
    with warnings.catch_warnings():
        warnings.simplefilter("ignore")
        if root is not None:
            return cls(schema, resolver=jsonschema.RefResolver.from_schema(root)).is_valid(instance)
        return cls(schema).is_valid(instance)


def js_valid(schema, instance, root=None):
    with warnings.catch_warnings():
        warnings.simplefilter("ignore")
        if root is not None:
            return jsonschema.Draft4Validator(schema, resolver=jsonschema.RefResolver.from_schema(root)).is_valid(instance)
        return jsonschema.Draft4Validator(schema).is_valid(instance)


def js_valid_lenient(schema, instance):
    """plain JSON Schema validity under either reading of integral floats"""
    if js_valid(schema, instance):
        return True
    return has_integral_float(instance) and oas_valid(schema, instance, "\0none", intfloat=True)


# ---- the real code --------------------------------------------------------------------------------------------------

def impl_conv(schema, nn, resp=False, updq=True):
    from schemathesis.specs.openapi.converter import to_json_schema_recursive
    try:
        return {"ok": to_json_schema_recursive(copy.deepcopy(schema), nn, is_response_schema=resp, update_quantifiers=updq)}
    except Exception as e:  # noqa: BLE001 - the class is the observable
        return {"error": type(e).__name__}


def impl_conv_history(schema, nn, resp=False, updq=True):
    """the same raw schema object converted for the OTHER direction first (a response is validated, then a request body is
    generated for an operation that shares the component): -> (result of the second conversion, the object afterwards)"""
    from schemathesis.specs.openapi.converter import to_json_schema_recursive
    shared = copy.deepcopy(schema)
    try:
        to_json_schema_recursive(shared, nn, is_response_schema=not resp, update_quantifiers=updq)
        return {"ok": to_json_schema_recursive(shared, nn, is_response_schema=resp, update_quantifiers=updq), "after": shared}
    except Exception as e:  # noqa: BLE001
        return {"error": type(e).__name__}


def impl_upd(p, lo, hi):
    from schemathesis.specs.openapi.patterns import update_quantifier
    try:
        return update_quantifier(p, lo, hi)
    except Exception as e:  # noqa: BLE001
        return {"error": type(e).__name__}


def both_anchored(p):
    """what the repaired variant of F5 consults: pattern parses and starts/ends with a begin/end anchor"""
    try:
        import re._constants as sre
        import re._parser as sre_parse
        parsed = list(sre_parse.parse(p))
    except Exception:  # noqa: BLE001
        return False
    return (len(parsed) >= 2 and parsed[0][0] == sre.AT and parsed[0][1] in (sre.AT_BEGINNING, sre.AT_BEGINNING_STRING)
            and parsed[-1][0] == sre.AT and parsed[-1][1] in (sre.AT_END, sre.AT_END_STRING))


def cfg_for(chk, schema, nn, resp=False, updq=True, **over):
    # `upd`: the text the real update_quantifier returns (its tree-level model is compared in the regex mechanisms);
    # `anchItems`: the parse tree of each pattern, on which the model itself decides `is_anchored`
    upd, anch, seen = [], [], set()
    for p, lo, hi in G.pattern_requests(schema):
        out = impl_upd(p, lo, hi)
        if isinstance(out, str):
            upd.append([p, lo, hi, out])
        if p not in seen:
            seen.add(p)
            try:
                re.compile(p)
                anch.append([p, sre_items(p)])
            except Exception:  # noqa: BLE001 - invalid pattern: is_anchored answers False, as the model's default does
                pass
    cfg = {"vForbid": chk.variants.get("forbid_properties", "asFound"), "vLen": chk.variants.get("length_drop", "asFound"),
           "nn": nn, "resp": resp, "updQ": updq, "upd": upd, "anchItems": anch}
    cfg.update(over)
    return cfg


# ---- witnesses (decide the variants the tree exhibits) ----------------------------------------------------------------

W_F4 = {"type": "object", "properties": {"a": {"type": "integer", "readOnly": True}, "b": {"type": "integer", "readOnly": True}}}
W_F4_INSTANCE = {"a": 1}
W_F5 = {"type": "string", "pattern": "[a-z]", "maxLength": 3}
W_F5_INSTANCE = "aaaaaaa"
W_F28 = {"type": "string", "pattern": "^(ab)+$", "maxLength": 3}
W_F28_INSTANCE = "ababab"
W_F32 = {"type": "string", "pattern": "^a$", "maxLength": 3}
W_F32_INSTANCE = "aaa"
W_F33 = {"type": "object", "properties": {"pattern": {"type": "string"}, "minLength": {"type": "integer"}}}


def detect_variants(chk):
    r = impl_conv(W_F4, "nullable")
    v = "asFound"
    if "ok" in r and not js_valid(r["ok"], W_F4_INSTANCE):
        v = "repaired"
    chk.variants["forbid_properties"] = v
    r = impl_conv(W_F5, "nullable")
    v = "asFound"
    if "ok" in r and "maxLength" in r["ok"]:
        v = "repaired"
    chk.variants["length_drop"] = v
    chk.variants["distribute_zero_max"] = "asFound" if impl_upd("^a[0-9]*$", None, 1) == "^a([0-9]){0,}$" else "repaired"
    chk.variants["atom_min_gt_max"] = "asFound" if isinstance(impl_upd("[ab]", 3, 1), dict) else "repaired"


# ---- mechanism 1: conversion -----------------------------------------------------------------------------------------

def classify_pattern(schema, nn, v):
    """(1) pattern x length merging: does the conversion without quantifier rewriting reject v?"""
    np_ = impl_conv(schema, nn, updq=False)
    if "ok" in np_ and not js_valid(np_["ok"], v):
        strings = []
        S._walk(v, lambda n: strings.append(n) if isinstance(n, str) else None)
        for p, lo, hi in G.pattern_requests(schema):
            new = impl_upd(p, lo, hi)
            if not isinstance(new, str) or new == p:
                continue
            for t in strings:
                try:
                    bad = re.search(new, t) and not (re.search(p, t) and (lo or 0) <= len(t) and (hi is None or len(t) <= hi))
                except re.error:
                    bad = False
                if bad:
                    return pattern_signature(p, lo, hi), {"pattern": p, "minLength": lo, "maxLength": hi, "rewritten": new, "string": t}
        # the other direction: the rewritten pattern is *stricter* than pattern + lengths (it demands consecutive
        # matches); that is harmless for positive generation but flips under `not` (and oneOf)
        for p, lo, hi in G.pattern_requests(schema):
            new = impl_upd(p, lo, hi)
            if not isinstance(new, str) or new == p:
                continue
            for t in strings:
                try:
                    stricter = (re.search(p, t) and (lo or 0) <= len(t) and (hi is None or len(t) <= hi)) and not re.search(new, t)
                except re.error:
                    stricter = False
                if stricter and ('"not"' in json.dumps(schema) or '"oneOf"' in json.dumps(schema)):
                    return ("C01:update_pattern_in_schema:rewritten-pattern-stricter-than-original:flips-under-not-or-oneOf",
                            {"pattern": p, "minLength": lo, "maxLength": hi, "rewritten": new, "string": t})
        return "C01:update_pattern_in_schema:converted-schema-accepts-nonconforming-string", {}
    return None


def classify_rest(schema, nn, v, repaired_conv):
    """(2) readOnly handling: does the repaired forbid site reject v?  (3) literals rewritten by transform"""
    if isinstance(repaired_conv, dict) and "__err__" not in repaired_conv and not js_valid(repaired_conv, v):
        shapes = []

        def fn(d):
            if d.get("type") == "object" and isinstance(d.get("properties"), dict):
                ro = [k for k, s in d["properties"].items() if isinstance(s, dict) and s.get("readOnly")]
                if ro and "not" in d:
                    shapes.append("prior-not")
                elif len(ro) >= 2:
                    shapes.append("two")

        G.walk_dicts(schema, fn)
        if "two" in shapes:
            return KF_F4, {}
        if "prior-not" in shapes:
            return KF_F4B, {}
    lit, untyped = [], []

    def fn2(d):
        for k in ("enum", "const", "example", "examples", "default"):
            if k in d and any(isinstance(x, dict) for x in (d[k] if isinstance(d[k], list) else [d[k]])):
                lit.append(k)
        if d.get("type") != "object" and isinstance(d.get("properties"), dict) and \
                any(isinstance(x, dict) and x.get("readOnly") is True for x in d["properties"].values()):
            untyped.append(1)

    G.walk_dicts(schema, fn2)
    if untyped:
        return KF_F37, {}
    if lit:
        return KF_F34, {"keywords": sorted(set(lit))}
    return "C01:to_json_schema:converted-schema-accepts-value-the-openapi-schema-rejects", {}


def pattern_signature(p, lo=None, hi=None):
    """class of the pattern whose merge with the length keywords lost a constraint"""
    try:
        import re._constants as sre
        import re._parser as sre_parse
        parsed = list(sre_parse.parse(p))
    except Exception:  # noqa: BLE001
        return "C01:update_quantifier:invalid-pattern-rewritten"
    cause = text_divergence(p)
    if cause:
        return cause
    if len(parsed) == 3 and parsed[0][0] == sre.AT and parsed[2][0] == sre.AT and parsed[1][0] in (sre.LITERAL, sre.IN):
        return KF_F32  # (also with \b / \B on either side, which the code counts as anchors)
    if not both_anchored(p):
        return KF_F5
    body = parsed[1:-1]
    fixed = sum(1 for op, _ in body if op == sre.LITERAL)
    if len(parsed) > 3 and hi is not None and hi - fixed == 0 and lo != hi:
        return KF_F36
    reps = [(op, val) for op, val in body if op in (sre.MAX_REPEAT, sre.MIN_REPEAT, getattr(sre, "POSSESSIVE_REPEAT", None))]
    if len(body) == 1 and not reps:
        return KF_F32
    for _op, (_lo, _hi, sub) in reps:
        if not (len(sub) == 1 and sub[0][0] in (sre.LITERAL, sre.NOT_LITERAL, sre.IN, sre.ANY, sre.CATEGORY)):
            return KF_F28
    return "C01:update_quantifier:anchored-width-1-pattern-merge-unsound"


def text_divergence(p):
    """multi-part anchored patterns whose *text* `_handle_anchored_pattern` scans out of step with the parse tree
    (outside the tree model; each cause is a recorded finding with its own witness): a lazy/possessive suffix, an
    escaped quantifier character that is itself quantified, a non-capturing group"""
    try:
        sre, sre_parse = _sre()
        parsed = list(sre_parse.parse(p))
    except Exception:  # noqa: BLE001
        return None
    if len(parsed) <= 3:
        return None
    if any(op in (sre.MIN_REPEAT, getattr(sre, "POSSESSIVE_REPEAT", object())) for op, _ in parsed):
        return KF_F38
    if re.search(r"\\[+*?{}()\[\]][+*?{]", p):
        return KF_F38B
    if "(?:" in p:
        return KF_F38C
    return None


def conv_round(chk, drv, items, mechanism):
    """items: [(schema, nn, resp, updq, instances)]"""
    reqs = [("conv", {"cfg": cfg_for(chk, s, nn, resp, updq), "schema": s, "fuel": 2 * py_depth(s) + 8})
            for s, nn, resp, updq, _ in items]
    models = drv.batch(reqs)
    frags = drv.batch([("frag", {"nn": nn, "schema": s, "f": py_depth(s) + 2, "c": 3 * py_depth(s) + 8}) for s, nn, _, _, _ in items])
    spec_reqs, spec_cases = [], []
    for (s, nn, resp, updq, insts), m, fr in zip(items, models, frags):
        impl = impl_conv(s, nn, resp, updq)
        changed = "ok" in impl and dumps(impl["ok"]) != dumps(s)
        chk.case(mechanism, key=[dumps(s), nn, resp, updq], nontrivial=changed,
                 sample={"schema": s, "nullable_name": nn, "impl": impl})
        feats = schema_features(s, nn)
        for f in feats:
            chk.feature(f"{mechanism}:{f}")
        if "error" in impl:
            chk.feature(f"{mechanism}:impl-error:{impl['error']}")
            if impl["error"] == "TypeError" and crash_shape(s):
                chk.violation(KF_F33, "to_json_schema_recursive raises TypeError (unhashable dict passed to the lru_cache'd "
                              "update_quantifier) for an object schema with properties named 'pattern' and 'minLength'/"
                              "'maxLength': the operation cannot be generated at all", {"schema": s, "nullable_name": nn})
            elif impl["error"] == "InternalError" and any(
                    isinstance(lo, int) and isinstance(hi, int) and lo > hi for _, lo, hi in G.pattern_requests(s)):
                chk.violation(KF_F35, "update_quantifier builds the invalid quantifier {lo,hi} with lo > hi for a single atom and "
                              "raises InternalError: the whole schema cannot be converted although the contradictory "
                              "sub-schema may sit under not/anyOf", {"schema": s, "nullable_name": nn})
            else:
                chk.violation(f"C01:to_json_schema:raises-{impl['error']}", f"conversion raises {impl['error']}",
                              {"schema": s, "nullable_name": nn})
            continue
        if isinstance(m, dict) and "__err__" in m:
            raise InfraError(f"model error {m} on {s}")
        agree = dumps(m) == dumps(impl["ok"])
        if not agree:
            chk.disagreement(mechanism, {"schema": s, "nullable_name": nn, "resp": resp, "update_quantifiers": updq},
                             canon(m), canon(impl["ok"]))
        # a raw component is shared by every operation that refers to it: what a conversion yields must not depend on the
        # conversions made before (for the other direction), and the raw schema is left as it was
        hist = impl_conv_history(s, nn, resp, updq)
        if "ok" in hist and (dumps(hist["ok"]) != dumps(impl["ok"]) or dumps(hist["after"]) != dumps(s)):
            what = "the raw schema object is modified" if dumps(hist["after"]) != dumps(s) else "the result differs"
            chk.violation("C01:to_json_schema:conversion-depends-on-an-earlier-conversion-of-the-same-schema-object",
                          f"converting for the {'request' if resp else 'response'} direction first and then for the "
                          f"{'response' if resp else 'request'} direction: {what} (second result {canon(hist['ok'])!r:.200}, on a "
                          f"fresh copy {canon(impl['ok'])!r:.200})",
                          {"schema": s, "nullable_name": nn, "resp": resp, "update_quantifiers": updq, "history": "other direction first"})
        if resp or not updq or not in_spec(s):
            continue
        # replay: what the converted schema lets through must conform to the OpenAPI schema (request side)
        conv = impl["ok"]
        rewrites = any(isinstance(impl_upd(p, lo, hi), str) and impl_upd(p, lo, hi) != p for p, lo, hi in G.pattern_requests(s))
        exact = fr is True and not rewrites and agree  # hypotheses of C01_nullable_exact hold outright (PatExact trivially)
        if fr is True:
            chk.feature(f"{mechanism}:in-fragment-of-C01_nullable_exact" + ("" if not rewrites else "(with pattern rewrite)"))
        for v in insts:
            if not on_wire(v):
                continue
            spec_reqs.append(("valid", {"env": S.lean_env(s, v, oas="request", nullable=nn), "schema": s, "instance": v,
                                        "fuel": 2 * py_depth(s) + 8}))
            spec_cases.append((s, nn, conv, v, exact))
    specs = drv.batch(spec_reqs)
    pending = []
    for (s, nn, conv, v, exact), spec in zip(spec_cases, specs):
        if isinstance(spec, dict):
            raise InfraError(f"spec error {spec}")
        try:
            ref = oas_valid(s, v, nn)
            acc = js_valid(conv, v)
        except Exception:  # noqa: BLE001 - ill-formed for the library: outside the comparison
            chk.feature("conv-replay:oracle-rejects-schema")
            continue
        if ref != spec:
            raise InfraError(f"Lean request-side validF != extended jsonschema: schema={json.dumps(s)} instance={json.dumps(v)} "
                             f"nullable={nn} lean={spec} python={ref}")
        chk.case("conv-replay", key=[dumps(s), dumps(v)], nontrivial=acc or spec)
        chk.feature(f"conv-replay:converted={'accepts' if acc else 'rejects'},openapi={'accepts' if spec else 'rejects'}")
        if exact and acc != spec:
            raise InfraError(f"C01_nullable_exact is contradicted by the run (model/spec/oracle inconsistency): schema={json.dumps(s)} "
                             f"instance={json.dumps(v)} converted-accepts={acc} openapi-accepts={spec}")
        if acc and not spec:
            pending.append((s, nn, conv, v))
    what = ("the converted JSON Schema accepts a value that the OpenAPI schema rejects (request side): positive "
            "generation may emit it")
    rest = []
    for s, nn, conv, v in pending:
        r = classify_pattern(s, nn, v)
        if r is not None:
            chk.violation(r[0], what, {"schema": s, "nullable_name": nn, "converted": conv, "instance": v, **r[1]})
        else:
            rest.append((s, nn, conv, v))
    reps = drv.batch([("conv", {"cfg": cfg_for(chk, s, nn, vForbid="repaired"), "schema": s, "fuel": 2 * py_depth(s) + 8})
                      for s, nn, _, _ in rest])
    for (s, nn, conv, v), rep in zip(rest, reps):
        sig, extra = classify_rest(s, nn, v, rep)
        chk.violation(sig, what, {"schema": s, "nullable_name": nn, "converted": conv, "instance": v, **extra})


def in_spec(s):
    """the shared reference semantics covers this schema (no tuple-form `items`)"""
    bad = []

    def fn(d):
        if isinstance(d.get("items"), list):
            bad.append(1)
        # OpenAPI flags must be booleans: Python truthiness ("yes", 1) and the specification's reading differ on anything else
        if any(k in d and not isinstance(d[k], bool) for k in ("readOnly", "writeOnly", "x-writeOnly")):
            bad.append(1)

    G.walk_dicts(s, fn)
    return not bad


# ---- mechanism 2: update_quantifier on the parse tree ----------------------------------------------------------------

def _sre():
    import re._constants as sre
    import re._parser as sre_parse
    return sre, sre_parse


def _atom_id(op, av):
    return f"{op}:{av!r}"


def re_tree(seq):
    """sre sub-pattern -> Re JSON (groups erased, right-nested cat)"""
    sre, _ = _sre()
    nodes = [re_node(op, av) for op, av in seq]
    if not nodes:
        return ["eps"]
    out = nodes[-1]
    for n in reversed(nodes[:-1]):
        out = ["cat", n, out]
    return out


def re_node(op, av):
    sre, _ = _sre()
    if op in (sre.LITERAL, sre.NOT_LITERAL, sre.IN, sre.ANY, sre.CATEGORY):
        return ["atom", _atom_id(op, av)]
    if op == sre.SUBPATTERN:
        return re_tree(av[3])
    if op == sre.BRANCH:
        alts = [re_tree(a) for a in av[1]]
        out = alts[-1]
        for a in reversed(alts[:-1]):
            out = ["alt", a, out]
        return out
    if op in (sre.MAX_REPEAT, sre.MIN_REPEAT, getattr(sre, "POSSESSIVE_REPEAT", object())):
        return ["rep", re_tree(av[2]), int(av[0]), int(av[1])]
    return ["opaque", _atom_id(op, av)]


AT_KINDS = None


_ITEMS_CACHE: dict = {}


def sre_items(pattern):
    """pattern text -> top-level Item JSON, as `_handle_parsed_pattern` sees it (memoised; raises on an invalid pattern)"""
    hit = _ITEMS_CACHE.get(pattern)
    if hit is None:
        try:
            hit = _sre_items(pattern)
        except Exception as e:  # noqa: BLE001
            hit = e
        if len(_ITEMS_CACHE) < 200000:
            _ITEMS_CACHE[pattern] = hit
    if isinstance(hit, Exception):
        raise hit
    return hit


def _sre_items(pattern):
    sre, sre_parse = _sre()
    kinds = {sre.AT_BEGINNING: "bos", sre.AT_BEGINNING_STRING: "bosA", sre.AT_END: "eos", sre.AT_END_STRING: "eosZ",
             sre.AT_BOUNDARY: "wordB", sre.AT_NON_BOUNDARY: "nonWordB"}
    items = []
    for op, av in sre_parse.parse(pattern):
        if op == sre.AT:
            items.append(["at", kinds.get(av, "other")])
        elif op == sre.LITERAL:
            items.append(["lit", _atom_id(op, av)])
        elif op == sre.IN:
            items.append(["cls", _atom_id(op, av)])
        elif op in (sre.MAX_REPEAT, sre.MIN_REPEAT, getattr(sre, "POSSESSIVE_REPEAT", object())):
            items.append(["rep", int(av[0]), int(av[1]), re_tree(av[2])])
        else:
            items.append(["other", re_node(op, av)])
    return items


RX_POOLS: dict = {}


def rx_strings(thorough=False):
    """the fixed string pool of the replay: every string over a 4-letter alphabet up to length 4 (quick) / 5 (thorough),
    longer ones built from repeated blocks, and a few hand-picked ones"""
    if thorough not in RX_POOLS:
        import itertools
        alpha = "ab1-"
        pool = [""] + ["".join(t) for n in range(1, 6 if thorough else 5) for t in itertools.product(alpha, repeat=n)]
        pool += [c * 5 for c in alpha] + [(a + b) * 3 for a in alpha for b in alpha] + [c * 7 for c in "ab"]
        pool += ["ab-ab", "ab ab", "a-ab1", "aaaaaaa", "ababab", "abababab", "a123", "zzzzzzzz", "a+b", "a.b", "x", "xx", "é", "a b",
                 "ab 1-", "b-a-b", "1ab1ab"]
        seen, out = set(), []
        for t in pool:
            if t not in seen:
                seen.add(t)
                out.append(t)
        RX_POOLS[thorough] = out
    return RX_POOLS[thorough]


_MATCH_MASKS: dict = {}
_LEN_MASKS: dict = {}


def match_mask(text, pool, key):
    """bit i set <=> re.search(text, pool[i]) (Python `re` is the trusted regex oracle of the replay); None if invalid"""
    k = (key, text)
    m = _MATCH_MASKS.get(k)
    if m is None:
        try:
            srch = re.compile(text).search
        except re.error:
            m = -1
        else:
            m, bit = 0, 1
            for t in pool:
                if srch(t):
                    m |= bit
                bit <<= 1
        if len(_MATCH_MASKS) < 300000:
            _MATCH_MASKS[k] = m
    return None if m == -1 else m


def len_mask(lo, hi, pool, key):
    k = (key, lo, hi)
    m = _LEN_MASKS.get(k)
    if m is None:
        m, bit = 0, 1
        for t in pool:
            if (lo is None or lo <= len(t)) and (hi is None or len(t) <= hi):
                m |= bit
            bit <<= 1
        _LEN_MASKS[k] = m
    return m


def impl_merge(p, lo, hi):
    """the real `update_pattern_in_schema` (reached through `to_json_schema`) on the string schema with these keywords:
    the pattern it leaves and the length keywords that are still there"""
    from schemathesis.specs.openapi.converter import to_json_schema
    s = {"type": "string", "pattern": p}
    if lo is not None:
        s["minLength"] = lo
    if hi is not None:
        s["maxLength"] = hi
    try:
        out = to_json_schema(s, nullable_name="nullable")
    except Exception as e:  # noqa: BLE001
        return {"error": type(e).__name__}
    return {"pattern": out.get("pattern"), "minLength": out.get("minLength"), "maxLength": out.get("maxLength")}


def impl_anchored(p):
    """the real `patterns.is_anchored` (None when the tree has no such function: the as-found variant of F5)"""
    from schemathesis.specs.openapi import patterns
    f = getattr(patterns, "is_anchored", None)
    if f is None:
        return None
    try:
        return bool(f(p))
    except Exception as e:  # noqa: BLE001
        return {"error": type(e).__name__}


def regex_round(chk, drv, cases, mechanism):
    """cases: [(pattern, lo, hi)] — `update_quantifier`, `is_anchored` and `update_pattern_in_schema` against the tree
    model; replay: what the resulting string schema accepts must be accepted by the original one"""
    v = {"zeroMax": chk.variants.get("distribute_zero_max", "asFound"), "atom": chk.variants.get("atom_min_gt_max", "asFound")}
    vlen = chk.variants.get("length_drop", "asFound")
    pool = rx_strings(chk.thorough)
    todo = []
    for p, lo, hi in cases:
        try:
            re.compile(p)
            items = sre_items(p)
        except Exception:  # noqa: BLE001 - invalid pattern: update_quantifier returns it unchanged, nothing to model
            chk.feature(f"{mechanism}:invalid-pattern")
            continue
        todo.append((p, lo, hi, items))
    # sameText: the re-rendered text coincides with the original (the tree cannot tell `(ab){2}` from a re-rendered `(ab){2}`)
    models = drv.batch([("merge", {"v": v, "vLen": vlen, "sameText": impl_upd(p, lo, hi) == p, "items": items, "lo": lo, "hi": hi})
                        for p, lo, hi, items in todo])
    anchored_seen = set()
    for (p, lo, hi, items), mm in zip(todo, models):
        if isinstance(mm, dict) and "__err__" in mm:
            raise InfraError(f"regex model error {mm} on {p!r}")
        m = mm["uq"]
        impl = impl_upd(p, lo, hi)
        if isinstance(impl, dict):
            impl_tree = impl["error"]
        else:
            try:
                impl_tree = {"ok": sre_items(impl)}
            except Exception:  # noqa: BLE001
                impl_tree = "unparsable-output"
        changed = isinstance(impl, str) and impl != p
        chk.case(mechanism, key=[p, lo, hi], nontrivial=changed or isinstance(impl, dict),
                 sample={"pattern": p, "minLength": lo, "maxLength": hi, "impl": impl})
        chk.feature(f"{mechanism}:{'rewritten' if changed else ('error' if isinstance(impl, dict) else 'unchanged')}")
        divergent = text_divergence(p)
        if divergent:
            chk.feature(f"{mechanism}:text-divergent-multi-part(outside-the-tree-model)")
        elif ({"ok": m["ok"]} if isinstance(m, dict) and "ok" in m else m) != impl_tree or \
                (changed and not (isinstance(m, dict) and m.get("rewrote"))):
            chk.disagreement(mechanism, {"pattern": p, "minLength": lo, "maxLength": hi}, m, {"text": impl, "tree": impl_tree})
        # is_anchored (decides whether the length keywords may go)
        if p not in anchored_seen:
            anchored_seen.add(p)
            ia = impl_anchored(p)
            if ia is not None:
                chk.case(mechanism + ":is_anchored", key=[p], nontrivial=True)
                chk.feature(f"{mechanism}:is_anchored={ia}:first={items[0][1] if items and items[0][0] == 'at' else '-'}"
                            f",last={items[-1][1] if items and items[-1][0] == 'at' else '-'}")
                # one-sided: answering False where the model says True only keeps length keywords that could have gone
                if ia is True and not mm["anchored"]:
                    chk.disagreement(mechanism + ":is_anchored", {"pattern": p}, mm["anchored"], ia)
                elif ia != mm["anchored"]:
                    chk.feature(f"{mechanism}:is_anchored-more-conservative-than-the-model" if ia is False else
                                f"{mechanism}:is_anchored-raises")
        # update_pattern_in_schema on {type: string, pattern, minLength, maxLength}
        out = impl_merge(p, lo, hi)
        given = [k for k, x in (("minLength", lo), ("maxLength", hi)) if x is not None]
        chk.case(mechanism + ":update_pattern_in_schema", key=[p, lo, hi], nontrivial=bool(given) and "error" not in out and out.get("pattern") != p)
        if "error" not in out and isinstance(out["pattern"], str):
            left = [k for k in given if out[k] is not None]
            kept = "kept" if left == given else ("dropped" if not left else "mixed")
            if given:
                chk.feature(f"{mechanism}:lengths-{kept}-after-{'rewrite' if out['pattern'] != p else 'no-change'}")
            if not divergent:
                mg = mm["merge"]
                try:
                    out_tree = sre_items(out["pattern"])
                except Exception:  # noqa: BLE001
                    out_tree = "unparsable-output"
                want = None if not isinstance(mg, dict) else ("kept" if mg["keep"] else "dropped")
                if out["pattern"] == p and kept == "kept":
                    # the schema was left alone: always sound, whatever the model would have rewritten
                    if isinstance(mg, dict) and mg["ok"] != out_tree:
                        chk.feature(f"{mechanism}:schema-left-alone-where-the-model-rewrites")
                elif not isinstance(mg, dict) or mg["ok"] != out_tree or (given and kept != want and not (kept == "kept" and want == "dropped")):
                    chk.disagreement(mechanism + ":update_pattern_in_schema", {"pattern": p, "minLength": lo, "maxLength": hi},
                                     mg, {"schema": out, "tree": out_tree, "lengths": kept})
                elif given and kept != want:
                    chk.feature(f"{mechanism}:lengths-kept-where-the-model-drops-them")
        elif "error" in out and not divergent and mm["merge"] != out["error"]:
            chk.disagreement(mechanism + ":update_pattern_in_schema", {"pattern": p, "minLength": lo, "maxLength": hi},
                             mm["merge"], out)
        # replay: the rewritten schema (which replaces pattern + length keywords) must not admit a string the original
        # constraints reject; judged by Python's `re` on a fixed string pool
        if isinstance(impl, dict):
            if impl["error"] == "InternalError":
                chk.violation(text_divergence(p) or (KF_F35 if (lo is not None and hi is not None and lo > hi) else
                                                       "C01:update_quantifier:raises-InternalError"),
                              "update_quantifier raises InternalError", {"pattern": p, "minLength": lo, "maxLength": hi})
            else:
                chk.violation(f"C01:update_quantifier:raises-{impl['error']}", f"update_quantifier raises {impl['error']}",
                              {"pattern": p, "minLength": lo, "maxLength": hi})
            continue
        if "error" in out:
            chk.violation(text_divergence(p) or (KF_F35 if (lo is not None and hi is not None and lo > hi) else
                                                   f"C01:update_pattern_in_schema:raises-{out['error']}"),
                          f"to_json_schema raises {out['error']} on a string schema with pattern and length keywords",
                          {"pattern": p, "minLength": lo, "maxLength": hi})
            continue
        if out["pattern"] == p and [k for k in given if out[k] is not None] == given:
            continue
        key = chk.thorough
        old_m, new_m = match_mask(p, pool, key), match_mask(out["pattern"], pool, key)
        if old_m is None or new_m is None:
            continue
        accepted_orig = old_m & len_mask(lo, hi, pool, key)
        accepted_out = new_m & len_mask(out["minLength"], out["maxLength"], pool, key)
        bad = accepted_out & ~accepted_orig
        if bad:
            t = pool[(bad & -bad).bit_length() - 1]
            chk.violation(pattern_signature(p, lo, hi),
                          "the string schema left by update_pattern_in_schema (rewritten pattern, remaining length keywords) "
                          "accepts a string that the original pattern + minLength/maxLength reject",
                          {"pattern": p, "minLength": lo, "maxLength": hi, "rewritten": out["pattern"],
                           "left": {k: out[k] for k in ("minLength", "maxLength") if out[k] is not None}, "string": t})


def gen_regex_cases(chk, n):
    rng = chk.rng
    return [(G.gen_pattern(rng), rng.choice(G.LENS), rng.choice(G.LENS)) for _ in range(n)]


def exhaustive_regex_cases(chk):
    pats = G.exhaustive_patterns(chk.thorough)
    lens = [None, 0, 1, 3] if not chk.thorough else [None, 0, 1, 2, 3, 4, 6]
    return [(p, lo, hi) for p in pats for lo in lens for hi in lens]


def crash_shape(s):
    hit = []

    def fn(d):
        p = d.get("properties")
        if isinstance(p, dict) and isinstance(p.get("pattern"), dict) and p["pattern"] and \
                any(isinstance(p.get(k), dict) and p[k] for k in ("minLength", "maxLength")):
            hit.append(1)

    G.walk_dicts(s, fn)
    return bool(hit)


def schema_features(s, nn):
    f = set()

    def fn(d):
        if d.get(nn) is True:
            f.add("nullable")
        if d.get("type") == "object" and isinstance(d.get("properties"), dict):
            ro = sum(1 for x in d["properties"].values() if isinstance(x, dict) and x.get("readOnly") is True)
            f.add(f"readOnly={min(ro, 3)}")
            if ro and "not" in d:
                f.add("readOnly+prior-not")
        if isinstance(d.get("pattern"), str) and (d.get("minLength") or d.get("maxLength")):
            f.add("pattern+length")
        for k in ("allOf", "anyOf", "oneOf", "not", "items", "additionalProperties", "enum"):
            if k in d:
                f.add(k)

    G.walk_dicts(s, fn)
    return sorted(f)


# ---- mechanism 3: per-location parameter schemas ----------------------------------------------------------------------

LOCATIONS = ("path", "query", "header", "cookie")


def load_operation(doc, with_security=None):
    """`with_security`: the schema-level `with_security_parameters` setting (read when the operation is built)"""
    import schemathesis
    schema = schemathesis.openapi.from_dict(copy.deepcopy(doc["raw"]))
    if with_security is not None:
        from schemathesis.generation import GenerationConfig
        schema.generation_config = GenerationConfig(with_security_parameters=with_security)
    return schema, schema[doc["path"]][doc["method"]]


def impl_location(op, loc):
    from schemathesis.generation import GenerationConfig
    from schemathesis.specs.openapi._hypothesis import get_schema_for_location, make_positive_strategy
    from schemathesis.specs.openapi.constants import LOCATION_TO_CONTAINER
    params = getattr(op, LOCATION_TO_CONTAINER[loc])
    if not params:
        return None
    try:
        s = get_schema_for_location(op, loc, params)
        s2 = copy.deepcopy(s)
        make_positive_strategy(s2, op.label, loc, None, GenerationConfig())
    except Exception as e:  # noqa: BLE001
        return {"error": type(e).__name__}
    plist = list(params)
    return {"schema": s, "strategy_schema": s2, "supported": list(plist[0].supported_jsonschema_keywords),
            "nn": plist[0].nullable_field,
            "params": [{"name": p.name, "required": bool(p.is_required),
                        "schema": (p.definition.get("schema", {}) if "schema" in p.definition or doc_is_v3(op) else p.definition)}
                       for p in plist]}


def doc_is_v3(op):
    return op.schema.nullable_name == "nullable"


def location_round(chk, drv, docs, mechanism):
    reqs, cases = [], []
    for doc in docs:
        try:
            _, op = load_operation(doc)
        except Exception as e:  # noqa: BLE001
            raise InfraError(f"generated document does not load: {type(e).__name__}: {e}") from e
        for loc in LOCATIONS:
            impl = impl_location(op, loc)
            if impl is None:
                continue
            if "error" in impl:
                chk.case(mechanism, key=[dumps(doc["raw"]), loc], nontrivial=True)
                chk.feature(f"{mechanism}:impl-error:{impl['error']}")
                defs = [d for l, d in doc["params"] if l == loc]
                if impl["error"] == "InternalError":
                    sig = None
                    for p, lo, hi in G.pattern_requests(defs):
                        if isinstance(impl_upd(p, lo, hi), dict):
                            sig = text_divergence(p) or (KF_F35 if (lo is not None and hi is not None and lo > hi) else None)
                    chk.violation(sig or "C01:get_schema_for_location:raises-InternalError",
                                  "the schema for a parameter location cannot be built (InternalError from the pattern rewriter)",
                                  {"document": doc["raw"], "location": loc})
                else:
                    chk.violation(f"C01:get_schema_for_location:raises-{impl['error']}", f"raises {impl['error']}",
                                  {"document": doc["raw"], "location": loc})
                continue
            cfg = cfg_for(chk, impl["params"], impl["nn"])
            reqs.append(("location", {"cfg": cfg, "location": loc, "params": impl["params"], "supported": impl["supported"],
                                      "fuel": 2 * py_depth(impl["params"]) + 8}))
            cases.append((doc, loc, impl))
    models = drv.batch(reqs)
    for (doc, loc, impl), m in zip(cases, models):
        if isinstance(m, dict) and "__err__" in m:
            raise InfraError(f"location model error {m}")
        chk.case(mechanism, key=[dumps(impl["params"]), loc], nontrivial=True,
                 sample={"location": loc, "params": impl["params"], "impl": impl["schema"]})
        chk.feature(f"{mechanism}:{loc}:{doc['version']}")
        if dumps(m["schema"]) != dumps(impl["schema"]) or dumps(m["strategy_schema"]) != dumps(impl["strategy_schema"]):
            chk.disagreement(mechanism, {"location": loc, "params": impl["params"], "supported": impl["supported"]},
                             canon(m), {"schema": canon(impl["schema"]), "strategy_schema": canon(impl["strategy_schema"])})
        # replay (structure of the object schema, checked directly against the declarations):
        names = [p["name"] for p in impl["params"]]
        props = impl["schema"].get("properties", {})
        req = set(impl["schema"].get("required", []))
        want_req = set(names) if loc == "path" else {p["name"] for p in impl["params"] if p["required"]}
        if set(props) != set(names) or impl["schema"].get("additionalProperties") is not False or req != want_req:
            chk.violation("C01:parameters_to_json_schema:object-schema-does-not-mirror-the-declared-parameters",
                          "properties / required / additionalProperties of the location schema differ from the declarations",
                          {"location": loc, "params": impl["params"], "schema": impl["schema"]})


# ---- mechanism 4: real draws from operation.as_strategy(POSITIVE) ----------------------------------------------------------

def coercions(loc, v):
    """the JSON values a sent parameter value may stand for (string coercion inherent to the location)"""
    from urllib.parse import unquote_plus
    out = [v]
    if isinstance(v, str):
        if loc == "path":
            v = unquote_plus(v)
            out = [v]
        out += {"true": [True], "false": [False], "null": [None]}.get(v, [])
        if loc in ("header", "cookie"):  # str() spelling of the generated Python value (how it is put on the wire is C06's concern)
            out += {"True": [True], "False": [False], "None": [None]}.get(v, [])
        if re.fullmatch(r"-?(0|[1-9][0-9]*)", v):
            out.append(int(v))
        elif re.fullmatch(r"-?[0-9]+\.[0-9]+([eE][-+]?[0-9]+)?|-?[0-9]+[eE][-+]?[0-9]+", v):
            out.append(float(v))
    return out


def governed_strings(schema, value, acc, depth=6):
    """strings sitting at positions that a `type: string` schema governs (declared properties / items only)"""
    if not isinstance(schema, dict) or depth <= 0:
        return acc
    t = schema.get("type")
    if isinstance(value, str) and t == "string":
        acc.append(value)
    elif isinstance(value, dict) and isinstance(schema.get("properties"), dict):
        for k, sub in schema["properties"].items():
            if k in value:
                governed_strings(sub, value[k], acc, depth - 1)
    elif isinstance(value, list) and isinstance(schema.get("items"), dict):
        for x in value:
            governed_strings(schema["items"], x, acc, depth - 1)
    return acc


def strings_in(x, acc):
    if isinstance(x, str):
        acc.append(x)
    elif isinstance(x, dict):
        for k, v in x.items():
            acc.append(k)
            strings_in(v, acc)
    elif isinstance(x, (list, tuple)):
        for v in x:
            strings_in(v, acc)
    return acc


def param_schema(doc, d):
    if doc["version"] == "2.0":
        from schemathesis.specs.openapi.parameters import OpenAPI20Parameter
        keep = set(OpenAPI20Parameter.supported_jsonschema_keywords) - {"example", "examples"} | {doc["nn"]}
        return {k: v for k, v in d.items() if k in keep}
    return d.get("schema", {})


def inline_refs(schema, root, depth=6):
    """replace local `$ref`s by their targets (for classifying a violation; the judgement itself resolves references)"""
    if depth <= 0:
        return schema
    if isinstance(schema, dict):
        ref = schema.get("$ref")
        if isinstance(ref, str) and ref.startswith("#/"):
            node = root
            try:
                for tok in ref[2:].split("/"):
                    node = node[tok.replace("~1", "/").replace("~0", "~")]
            except (KeyError, TypeError):
                return schema
            return inline_refs(copy.deepcopy(node), root, depth - 1)
        return {k: inline_refs(v, root, depth) for k, v in schema.items()}
    if isinstance(schema, list):
        return [inline_refs(v, root, depth) for v in schema]
    return schema


def ref_fuel(schema, root):
    """extra fuel for the Lean evaluator when the schema reaches components through local references: every component may
    be entered once per nesting level of the instance; bounded"""
    if root is None or "$ref" not in json.dumps(schema):
        return 0
    comps = ((root.get("components") or {}).get("schemas") or {}) if isinstance(root, dict) else {}
    comps = comps or (root.get("definitions") or {} if isinstance(root, dict) else {})
    return min(200, 3 * sum(py_depth(c) + 2 for c in comps.values()))


class Judge:
    """judges a value against an OpenAPI schema (request side) with the Python oracle at once and with the Lean
    specification in one batch at the end (`settle`); the two must agree"""

    def __init__(self, cap=4000):
        self.reqs, self.expect, self.cap = [], [], cap

    def __call__(self, schema, v, nn, root=None):
        ok = oas_valid(schema, v, nn, root=root)
        if not ok and has_integral_float(v):
            # a float without fractional part: also conforming if it conforms when read as an integer (the generator's reading);
            # such values never travel to the Lean side (see on_wire)
            ok = oas_valid(schema, v, nn, root=root, intfloat=True)
        if on_wire(v) and on_wire(schema) and in_spec(schema) and len(self.reqs) < self.cap:
            self.reqs.append(("valid", {"env": S.lean_env(schema, v, oas="request", nullable=nn, root=root), "schema": schema,
                                        "instance": v, "fuel": 2 * py_depth(schema) + 12 + ref_fuel(schema, root)}))
            self.expect.append((schema, v, ok))
        return ok

    def settle(self, chk, drv, mechanism):
        outs = drv.batch(self.reqs)
        for (schema, v, ok), o in zip(self.expect, outs):
            if isinstance(o, dict):
                raise InfraError(f"spec error {o}")
            if o != ok:
                raise InfraError(f"Lean request-side validF != extended jsonschema on a drawn value: schema={json.dumps(schema)} "
                                 f"instance={json.dumps(v)} lean={o} python={ok}")
        chk.notes.append(f"{mechanism}: {len(self.reqs)} drawn values judged by the Lean specification and the Python oracle alike; "
                         "values that cannot travel on the wire (huge/inexact floats, surrogates) by the Python oracle only")


def draw_values(strat, n, seed):
    from hypothesis import HealthCheck, Phase, given, settings
    from hypothesis import seed as hseed
    out = []

    @hseed(seed)
    @settings(max_examples=n, database=None, deadline=None, phases=[Phase.generate], suppress_health_check=list(HealthCheck))
    @given(strat)
    def t(v):
        out.append(v)

    t()
    return out


def same_media_type(a, b):
    """media types compared without parameters and case"""
    norm = lambda x: x.split(";")[0].strip().lower() if isinstance(x, str) else x  # noqa: E731
    return norm(a) == norm(b)


def body_alternatives(doc):
    """[(media type, declared schema)] of the operation's request payload"""
    if "bodies" in doc:
        return list(doc["bodies"])
    return [] if doc["body"] is None else [("application/json", doc["body"])]


def converted_accepts(schema, nn, raw, v):
    """does the *converted* schema (what the generator is given) accept v?  None when that cannot be decided"""
    flat = inline_refs(schema, raw)
    if "$ref" in json.dumps(flat):
        return None
    conv = impl_conv(flat, nn)
    if "ok" not in conv:
        return None
    try:
        return js_valid_lenient(conv["ok"], v)
    except Exception:  # noqa: BLE001
        return None


def classify_body(chk, drv, doc, schema, media_type, body):
    """signature of a generated body that does not conform to the schema declared for its media type.
    A value the converted schema accepts is a conversion defect (classified by shape as before); a value the converted
    schema of its own media type rejects was not generated from that schema at all."""
    nn, raw = doc["nn"], doc["raw"]
    acc = converted_accepts(schema, nn, raw, body)
    if acc is False:
        others = [mt for mt, sch in body_alternatives(doc) if not same_media_type(mt, media_type) and converted_accepts(sch, nn, raw, body)]
        if others:
            return ("C01:draw:body-is-an-instance-of-the-schema-of-another-media-type-of-the-operation",
                    {"conforms_to_the_schema_of": others})
        return "C01:draw:body-is-not-an-instance-of-the-converted-schema-of-its-media-type", {}
    sig, extra = None, {}
    flat = inline_refs(schema, raw)
    if "$ref" not in json.dumps(flat):
        r = classify_pattern(flat, nn, body)
        if r is None:
            repc = drv.one("conv", {"cfg": cfg_for(chk, flat, nn, vForbid="repaired"), "schema": flat,
                                    "fuel": 2 * py_depth(flat) + 8})
            r = classify_rest(flat, nn, body, repc)
        sig, extra = r
        if sig.startswith("C01:to_json_schema:converted-schema-accepts"):
            sig = None
    return sig or "C01:draw:body-violates-its-schema", extra


def explicit_prelude(rng, doc):
    """(as_strategy keyword, parameter name) of a required query/header parameter that has a sibling, if there is one"""
    kw = {"query": "query", "header": "headers"}
    cands = []
    for loc in kw:
        decl = [d for l, d in doc["params"] if l == loc]
        if len(decl) >= 2:
            cands += [(kw[loc], d["name"]) for d in decl if d.get("required")]
    return rng.choice(cands) if cands else None


def draw_cases(op, gc, n, seed, negative=False, explicit=None):
    from hypothesis import HealthCheck, Phase, given, settings
    from hypothesis import seed as hseed
    from schemathesis.generation import GenerationMode
    out = []
    strat = op.as_strategy(generation_mode=GenerationMode.NEGATIVE if negative else GenerationMode.POSITIVE, generation_config=gc,
                           **(explicit or {}))

    @hseed(seed)
    @settings(max_examples=n, database=None, deadline=None, phases=[Phase.generate], suppress_health_check=list(HealthCheck))
    @given(strat)
    def t(case):
        out.append(case)

    t()
    return out


def draws_round(chk, drv, docs, n_draws, mechanism="draws"):
    from schemathesis.core import NOT_SET
    from schemathesis.generation import GenerationConfig
    rng = chk.rng
    judge = Judge()

    for i, doc in enumerate(docs):
        gc = GenerationConfig(allow_x00=rng.random() < 0.5, codec=rng.choice(["utf-8", "utf-8", "ascii"]),
                              with_security_parameters=rng.random() < 0.5)
        if "gc" in doc:
            gc = GenerationConfig(**doc["gc"])
        nn, raw = doc["nn"], doc["raw"]
        history = "positive"
        if doc.get("satisfiable") is not None and not oas_valid(doc["body"], doc["satisfiable"], nn, root=raw):
            raise InfraError(f"the instance shipped with a designed document does not conform to it: {doc['satisfiable']}")
        sec = doc.get("security", [])
        if sec:
            chk.feature(f"{mechanism}:security-schemes:with_security_parameters={gc.with_security_parameters}")
        try:
            _, op = load_operation(doc, gc.with_security_parameters if sec else None)
            if doc.get("negative_first") or ("gc" not in doc and rng.random() < 0.3):
                # a history: the same loaded operation serves negative generation first (the strategy caches are shared)
                history = "negative-then-positive"
                try:
                    draw_cases(op, gc, 3, chk.seed * 100003 + i + 7, negative=True)
                except Exception as e:  # noqa: BLE001 - negative generation is C02's concern; only its side effects matter here
                    chk.feature(f"{mechanism}:negative-prelude:{type(e).__name__}")
            if history == "positive" and not doc.get("deep_chain") and (i % 4 == 1 or doc.get("settings_prelude")):
                # yet another history: the same loaded operation first serves a request under OTHER generation settings (the
                # permissive ones); the strategies it hands out afterwards must be built under the settings asked for
                history = "other-generation-settings-then-positive"
                try:
                    draw_cases(op, GenerationConfig(allow_x00=True, codec="utf-8", with_security_parameters=gc.with_security_parameters),
                               2, chk.seed * 100003 + i + 13)
                except Exception as e:  # noqa: BLE001 - only the side effects on the caches matter
                    chk.feature(f"{mechanism}:settings-prelude:{type(e).__name__}")
            explicit = explicit_prelude(rng, doc) if "gc" not in doc and history == "positive" and rng.random() < 0.3 else None
            if explicit is not None:
                # another history: the operation first serves a request with an explicitly given parameter (examples do that;
                # the rest of that location is generated with the name excluded and cached under its own key)
                history = f"explicit-{explicit[0]}-parameter-then-positive"
                try:
                    draw_cases(op, gc, 2, chk.seed * 100003 + i + 11, explicit={explicit[0]: {explicit[1]: "explicit-value"}})
                except Exception as e:  # noqa: BLE001 - only the side effects on the caches matter
                    chk.feature(f"{mechanism}:explicit-prelude:{type(e).__name__}")
            cases = draw_cases(op, gc, doc.get("draws", n_draws), chk.seed * 100003 + i)
        except Exception as e:  # noqa: BLE001
            name = type(e).__name__
            chk.case(mechanism, key=[dumps(raw), "error"], nontrivial=True)
            chk.feature(f"{mechanism}:no-cases:{name}")
            if name in ("Unsatisfiable", "FailedHealthCheck") and doc.get("satisfiable"):
                # the converse clause: the document was built together with a conforming instance
                chk.violation("C01:as_strategy:satisfiable-operation-reported-as-impossible",
                              f"no positive case is generated ({name}) although the declared inputs admit a conforming value "
                              f"({json.dumps(doc['satisfiable'])[:200]})", {"document": raw, "conforming_body": doc["satisfiable"]})
                continue
            if name in ("Unsatisfiable", "FailedHealthCheck", "Flaky", "SkipTest", "InvalidArgument"):
                continue  # the generator gave up / contradictory schema: counted, not judged (third-party search limits)
            schemas = [param_schema(doc, d) for _, d in doc["params"]] + [inline_refs(sch, raw) for _, sch in body_alternatives(doc)]
            sig = None
            if name == "TypeError" and any(crash_shape(s) for s in schemas):
                sig = KF_F33
            elif name == "InternalError":
                for p, lo, hi in G.pattern_requests(schemas):
                    if isinstance(impl_upd(p, lo, hi), dict):
                        sig = text_divergence(p) or (KF_F35 if (lo is not None and hi is not None and lo > hi) else None)
            chk.violation(sig or f"C01:as_strategy:raises-{name}", f"no positive case can be generated: {name}: {e}"[:300],
                          {"document": raw, "generation": {"allow_x00": gc.allow_x00, "codec": gc.codec}})
            continue
        chk.feature(f"{mechanism}:operations")
        chk.feature(f"{mechanism}:history={history}")
        alts = body_alternatives(doc)
        if len(alts) > 1:
            chk.feature(f"{mechanism}:operations-with-{len(alts)}-payload-alternatives")
        for case in cases:
            parts = {"path": case.path_parameters, "query": case.query, "header": case.headers, "cookie": case.cookies}
            rep = {"document": raw, "generation": {"allow_x00": gc.allow_x00, "codec": gc.codec,
                                                   **({"with_security_parameters": gc.with_security_parameters} if sec else {})},
                   "seed": chk.seed * 100003 + i,
                   "history": history, "case": {k: (v if on_wire(v) else repr(v)) for k, v in parts.items()}}
            chk.case(mechanism, key=[dumps(raw), repr(parts), repr(case.body)], nontrivial=True,
                     sample={"parts": {k: repr(v)[:200] for k, v in parts.items()}, "body": repr(case.body)[:300]})
            for loc in LOCATIONS:
                vals = parts[loc] or {}
                decl = {d["name"]: d for l, d in doc["params"] if l == loc}
                for name, d in decl.items():
                    if (loc == "path" or d.get("required")) and name not in vals:
                        chk.violation(f"C01:draw:required-{loc}-parameter-missing", f"required {loc} parameter {name!r} is absent",
                                      {**rep, "location": loc, "parameter": name})
                if gc.with_security_parameters:
                    for sloc, sname in sec:
                        if sloc == loc and sname not in decl and not isinstance(vals.get(sname), str):
                            chk.violation(f"C01:draw:security-{loc}-parameter-missing-although-with_security_parameters-is-on",
                                          f"the {loc} parameter {sname!r} of a required security scheme is absent or not a string",
                                          {**rep, "location": loc, "parameter": sname})
                for name, v in vals.items():
                    if name not in decl:
                        if gc.with_security_parameters and (loc, name) in sec:
                            chk.feature(f"{mechanism}:security-{loc}-values")
                            continue
                        chk.violation(f"C01:draw:undeclared-{loc}-parameter" + (":security-parameter-although-with_security_parameters-is-off"
                                                                                if (loc, name) in sec else ""),
                                      f"{loc} parameter {name!r} is not declared", {**rep, "location": loc, "parameter": name})
                        continue
                    sch = param_schema(doc, decl[name])
                    chk.feature(f"{mechanism}:{loc}-values")
                    try:
                        ok = any(judge(sch, c, nn, None) for c in coercions(loc, v))
                    except Exception:  # noqa: BLE001 - schema the library refuses
                        chk.feature(f"{mechanism}:oracle-rejects-schema")
                        continue
                    if not ok:
                        sig = None
                        p, lo, hi = sch.get("pattern"), sch.get("minLength"), sch.get("maxLength")
                        if isinstance(p, str) and isinstance(impl_upd(p, lo, hi), str) and impl_upd(p, lo, hi) != p:
                            # a pattern-merge finding explains the value only if the converted schema lets it through
                            conv = impl_conv(sch, nn)
                            try:
                                explained = "ok" in conv and any(js_valid_lenient(conv["ok"], c) for c in coercions(loc, v))
                            except Exception:  # noqa: BLE001
                                explained = False
                            if explained:
                                sig = pattern_signature(p, lo, hi)
                        chk.violation(sig or f"C01:draw:{loc}-parameter-value-violates-its-schema",
                                      f"generated {loc} parameter {name!r} = {v!r} does not conform to its declared schema",
                                      {**rep, "location": loc, "parameter": name, "value": v if on_wire(v) else repr(v), "schema": sch})
            body_schema = None
            if alts:
                body = case.body
                required = doc["body_required"] if "body_required" in doc else (
                    doc["raw"]["paths"][doc["path"]]["post"].get("requestBody", {}).get("required", False)
                    if doc["version"] != "2.0" else
                    any(p.get("in") == "body" and p.get("required") for p in doc["raw"]["paths"][doc["path"]]["post"]["parameters"]))
                if body is NOT_SET:
                    chk.feature(f"{mechanism}:body-absent")
                    if required:
                        chk.violation("C01:draw:required-body-missing", "required request body is absent", rep)
                else:
                    mine = [sch for mt, sch in alts if same_media_type(mt, case.media_type)]
                    if not mine:
                        chk.violation("C01:draw:body-media-type-not-declared-by-the-operation",
                                      f"the case carries media type {case.media_type!r}, which the operation does not declare",
                                      {**rep, "media_type": case.media_type})
                        continue
                    body_schema = mine[0]
                    chk.feature(f"{mechanism}:body-values" + (f":{case.media_type}" if len(alts) > 1 else ""))
                    try:
                        ok = judge(body_schema, body, nn, raw)
                    except Exception:  # noqa: BLE001
                        chk.feature(f"{mechanism}:oracle-rejects-schema")
                        ok = True
                    if not ok:
                        sig, extra = classify_body(chk, drv, doc, body_schema, case.media_type, body)
                        if doc.get("deep_chain") and sig == "C01:draw:body-violates-its-schema":
                            sig = doc["deep_chain"] if isinstance(doc["deep_chain"], str) else \
                                "C01:remove_optional_references:body-below-the-reference-depth-limit-violates-its-schema"
                        chk.violation(sig, f"generated request body does not conform to the schema declared for its media type "
                                           f"({case.media_type})",
                                      {**rep, "media_type": case.media_type, "body": body if on_wire(body) else repr(body),
                                       "schema": body_schema, **extra})
            # configured string restrictions
            gov, gov_hdr, gov_bearer = [], [], []      # gov_hdr: plain `{type: string}` header/cookie values only (F40's site)
            for loc in LOCATIONS:
                for name, v in (parts[loc] or {}).items():
                    d = {dd["name"]: dd for l, dd in doc["params"] if l == loc}.get(name)
                    if d is None and (loc, name) in sec and isinstance(v, str):
                        # the string parameter a security scheme adds (same generators as a declared plain string parameter)
                        if name == "Authorization" and v.startswith("Bearer "):
                            gov_bearer.append(v)
                        else:
                            (gov_hdr if loc in ("header", "cookie") else gov).append(v)
                    if d is not None and isinstance(v, str):
                        sch = param_schema(doc, d)
                        if sch.get("type", "string" if loc in ("header", "cookie") else None) == "string":
                            # F40 is the `_header_value` format strategy, which make_positive_strategy injects for bare
                            # `{type: string}` header/cookie parameters only; a constrained string (minLength, pattern, enum ...)
                            # goes through from_schema(codec=...) like every other string and must honour the codec
                            plain = loc in ("header", "cookie") and set(sch) <= {"type"}
                            (gov_hdr if plain else gov).append(v)
            if body_schema is not None and case.body is not NOT_SET and "$ref" not in json.dumps(body_schema):
                governed_strings(body_schema, case.body, gov)
            allstr = strings_in([parts, None if case.body is NOT_SET else case.body], [])

            def bad_codec(t):
                try:
                    t.encode(gc.codec)
                    return False
                except UnicodeEncodeError:
                    return True

            after_other = ":strategy-built-under-the-settings-of-an-earlier-request" if history.startswith("other-generation") else ""
            if not gc.allow_x00:
                if any("\x00" in t for t in gov + gov_hdr):
                    chk.violation("C01:draw:NUL-character-although-allow_x00-is-off" + after_other, "a generated string value contains \\x00", rep)
                elif any("\x00" in t for t in gov_bearer):
                    chk.violation(KF_FC01A, "the Authorization header generated for an http bearer security scheme contains \\x00", rep)
                elif any("\x00" in t for t in allstr):
                    chk.violation(KF_F39, "a generated string outside any string-typed schema position contains \\x00", rep)
            if gc.codec:
                if any(bad_codec(t) for t in gov):
                    chk.violation("C01:draw:string-not-encodable-in-the-configured-codec" + after_other,
                                  f"a generated string value cannot be encoded as {gc.codec}", rep)
                elif any(bad_codec(t) for t in gov_hdr + gov_bearer):
                    chk.violation(KF_F40, f"a generated header/cookie value cannot be encoded as {gc.codec}", rep)
                elif any(bad_codec(t) for t in allstr):
                    chk.violation(KF_F39B, f"a generated string outside any string-typed schema position cannot be encoded as {gc.codec}", rep)
    judge.settle(chk, drv, mechanism)


# ---- mechanism: remove_optional_references.clean_properties, one object level (SV/Model/C01Prune.lean) -----------------

PRUNE_SHAPES = {
    # shape -> (definition, contains_ref, single-member combinator over a reference)
    "plain": ({"type": "string", "maxLength": 3}, False, False),
    "ref": ({"$ref": "#/components/schemas/Owner"}, True, False),
    "array-of-ref": ({"type": "array", "items": {"$ref": "#/components/schemas/Owner"}}, True, False),
    "tuple-with-ref": ({"type": "array", "items": [{"type": "integer"}, {"$ref": "#/components/schemas/Owner"}]}, True, False),
    "allOf-ref": ({"allOf": [{"$ref": "#/components/schemas/Owner"}]}, False, True),
    "anyOf-ref-and-elidable": ({"anyOf": [{"$ref": "#/components/schemas/Owner"}, {"type": "object"}]}, False, True),
    "allOf-two-refs": ({"allOf": [{"$ref": "#/components/schemas/Owner"}, {"$ref": "#/components/schemas/Owner"}]}, False, False),
    "object-with-plain-members": ({"type": "object", "properties": {"n": {"type": "integer"}}}, False, False),
}


def detect_prune_variant(chk):
    from schemathesis.specs.openapi.references import remove_optional_references
    s = {"type": "object", "properties": {"a": {"$ref": "#/components/schemas/Owner"}}}
    remove_optional_references(s)
    v = "repaired" if s["properties"].get("a") == {"not": {}} else "asFound"
    chk.variants["remove_optional_references:optional-reference-property"] = v
    return v


def corr_prune(chk, drv, n):
    from schemathesis.specs.openapi.references import remove_optional_references
    rng = chk.rng
    variant = detect_prune_variant(chk)
    names = ["a", "b", "c", "", "0"]
    work = []
    # every shape alone, required and optional; then random objects
    for shape in PRUNE_SHAPES:
        for req in (False, True):
            work.append(([("a", shape)], ["a"] if req else [], rng.choice([None, True, False])))
    for _ in range(n):
        props = [(nm, rng.choice(list(PRUNE_SHAPES))) for nm in rng.sample(names, rng.randint(1, 4))]
        required = [nm for nm, _ in props if rng.random() < 0.4] + (["zz"] if rng.random() < 0.1 else [])
        work.append((props, required, rng.choice([None, True, False])))
    outs = drv.batch([("prune", {"variant": variant, "required": req,
                                 "props": [{"name": nm, "hasRef": PRUNE_SHAPES[sh][1], "singleComb": PRUNE_SHAPES[sh][2]} for nm, sh in props]})
                      for props, req, _ in work])
    for (props, required, addl), m in zip(work, outs):
        if isinstance(m, dict):
            raise InfraError(f"model error {m}")
        schema = {"type": "object", "properties": {nm: copy.deepcopy(PRUNE_SHAPES[sh][0]) for nm, sh in props}}
        if required:
            schema["required"] = list(required)
        if addl is not None:
            schema["additionalProperties"] = addl
        before = copy.deepcopy(schema)
        remove_optional_references(schema)
        impl = []
        for nm, sh in props:
            now = schema["properties"].get(nm, "absent")
            if now == "absent":
                impl.append("absent")
            elif now == {"not": {}}:
                impl.append("never")
            else:
                # a kept definition may itself have been pruned one level down (single-member combinators are deleted when
                # the definition is visited): compared on this level only
                impl.append("keep")
        inp = {"properties": props, "required": required, "additionalProperties": addl}
        chk.case("prune:clean_properties", key=inp, nontrivial=True, sample={"in": inp, "impl": impl})
        for _, sh in props:
            chk.feature(f"prune:{sh}")
        if impl != m:
            chk.disagreement("prune:clean_properties", inp, m, impl)
        if schema.get("required", []) != before.get("required", []) or schema.get("additionalProperties") != before.get("additionalProperties"):
            chk.disagreement("prune:clean_properties", inp, "required / additionalProperties unchanged", {"after": schema})


# ---- mechanism 5: which strategy a body alternative gets, over histories of requests (_get_body_strategy + its cache) ----

class Token:
    """what the recording strategy factory returns inside `st.just`: the schema the strategy was asked to be built from"""

    def __init__(self, schema, location):
        self.schema, self.location = schema, location

    def __repr__(self):
        return f"Token({self.location}, {json.dumps(self.schema, sort_keys=True, default=str)[:120]})"


def recording_factory(schema, operation_name, location, media_type, generation_config, custom_formats=None):
    from hypothesis import strategies as st
    return st.just(Token(copy.deepcopy(schema), location))


def observe_strategy(strat, seed):
    """{"schema": the schema the strategy was built from, "orNotSet": does it also yield NOT_SET} for a strategy made of the
    recording factory's `just(Token)` — read structurally, by drawing if the structure is not the expected one"""
    from schemathesis.core import NOT_SET
    vals = None
    try:
        from hypothesis.strategies._internal.strategies import OneOfStrategy, SampledFromStrategy
        parts = list(strat.original_strategies) if isinstance(strat, OneOfStrategy) else [strat]
        if all(isinstance(p, SampledFromStrategy) and len(p.elements) == 1 for p in parts):
            vals = [p.elements[0] for p in parts]
    except Exception:  # noqa: BLE001 - other Hypothesis internals: fall back to drawing
        vals = None
    if vals is None:
        vals = draw_values(strat, 24, seed)
    toks = {id(v): v for v in vals if isinstance(v, Token)}
    rest = [v for v in vals if not isinstance(v, Token) and v is not NOT_SET]
    if len(toks) != 1 or rest:
        return {"unrecognised": repr(vals)[:300]}
    return {"schema": next(iter(toks.values())).schema, "orNotSet": any(v is NOT_SET for v in vals)}


def alt_wire(item):
    """one element of `operation.body.items` as the model reads it from the *declaration*"""
    from schemathesis.specs.openapi.parameters import OpenAPI20Body, OpenAPI20CompositeBody, OpenAPI20Parameter
    if isinstance(item, OpenAPI20CompositeBody):
        return {"kind": "v2form", "mediaType": item.media_type, "required": True,
                "formParams": [{"name": p.definition["name"], "required": bool(p.definition.get("required", False)),
                                "schema": p.definition} for p in item.definition],
                "supported": list(OpenAPI20Parameter.supported_jsonschema_keywords)}
    if isinstance(item, OpenAPI20Body):
        return {"kind": "v2body", "mediaType": item.media_type, "required": bool(item.definition.get("required", False)),
                "schema": item.definition["schema"]}
    return {"kind": "v3", "mediaType": item.media_type, "required": bool(item.required), "schema": item.definition.get("schema", {})}


def gen_history(rng, n_alts):
    """requests one loaded operation receives: every alternative at least once with the positive factory, in random order,
    interleaved with repeats and with requests of the negative factory"""
    hist = [(i, "positive") for i in range(n_alts)]
    rng.shuffle(hist)
    for _ in range(rng.randint(1, 3)):
        hist.insert(rng.randint(0, len(hist)), (rng.randrange(n_alts), rng.choice(["positive", "negative", "negative"])))
    return hist


def run_history(doc, hist, factory_for_positive, custom=(), on_positive=None):
    """load the operation afresh and send it the requests of `hist` through the real `_get_body_strategy`"""
    from hypothesis import strategies as st
    from schemathesis.generation import GenerationConfig
    from schemathesis.specs.openapi import _hypothesis as H
    get_body_strategy = getattr(H, "_get_body_strategy", None)
    if get_body_strategy is None:
        raise InfraError("schemathesis.specs.openapi._hypothesis._get_body_strategy (anchor of the body mechanism) is gone")
    _, op = load_operation(doc)
    items = list(op.body.items)
    sentinels = {mt: st.just(("custom-strategy", mt)) for mt in custom}
    before = {mt: H.MEDIA_TYPES.get(mt) for mt in custom}
    H.MEDIA_TYPES.update(sentinels)
    out = []
    try:
        for step, (idx, f) in enumerate(hist):
            factory = factory_for_positive if f == "positive" else H.make_negative_strategy
            try:
                strat = get_body_strategy(items[idx], factory, op, GenerationConfig())
            except Exception as e:  # noqa: BLE001
                out.append({"error": type(e).__name__})
                continue
            if f != "positive":
                out.append(None)  # negative generation is another property's concern; the request only perturbs the cache
            elif any(strat is x for x in sentinels.values()):
                out.append({"custom": items[idx].media_type})
            else:
                out.append(on_positive(step, items[idx], strat))
    finally:
        for mt, old in before.items():
            if old is None:
                H.MEDIA_TYPES.pop(mt, None)
            else:
                H.MEDIA_TYPES[mt] = old
    return items, out


def body_round(chk, drv, docs, n_draws, mechanism="body-alternatives"):
    from schemathesis.core import NOT_SET
    from schemathesis.specs.openapi import _hypothesis as H
    rng = chk.rng
    judge = Judge()
    reqs, cases = [], []
    for i, doc in enumerate(docs):
        seed = chk.seed * 100003 + 50000 + i
        try:
            _, op0 = load_operation(doc)
            wires = [alt_wire(it) for it in op0.body.items]
        except Exception as e:  # noqa: BLE001
            raise InfraError(f"generated document does not load: {type(e).__name__}: {e}") from e
        hist = doc.get("history") or gen_history(rng, len(wires))
        custom = doc.get("custom", [])
        if not custom and "history" not in doc and rng.random() < 0.12:
            custom = [rng.choice(wires)["mediaType"]]
        _, seen = run_history(doc, hist, recording_factory, custom, lambda step, item, strat: observe_strategy(strat, seed + step))
        reqs.append(("body", {"cfg": cfg_for(chk, [w.get("schema") for w in wires] + [w.get("formParams") for w in wires], doc["nn"]),
                              "fuel": 2 * py_depth(wires) + 8, "custom": custom, "alts": wires,
                              "history": [[idx, f] for idx, f in hist]}))
        cases.append((doc, hist, custom, wires, seen, seed))
    models = drv.batch(reqs)
    for (doc, hist, custom, wires, seen, seed), model in zip(cases, models):
        if isinstance(model, dict) and "__err__" in model:
            raise InfraError(f"body model error {model}")
        nn, raw = doc["nn"], doc["raw"]
        rep0 = {"document": raw, "history": [[idx, f] for idx, f in hist], "custom_media_types": custom}
        chk.feature(f"{mechanism}:alternatives={len(wires)}:{wires[0]['kind']}")
        diff = None
        for step, ((idx, f), m, o) in enumerate(zip(hist, model, seen)):
            chk.case(mechanism, key=[dumps(raw), step, hist[: step + 1]], nontrivial=f == "positive",
                     sample={"alternatives": [w["mediaType"] for w in wires], "history": hist, "step": step, "impl": o if f == "positive" else None})
            chk.feature(f"{mechanism}:request:{f}" + (":again" if (idx, f) in hist[:step] else ":first"))
            if f != "positive":
                continue
            if o is not None and "error" in o:
                chk.feature(f"{mechanism}:impl-error:{o['error']}")
                sig = None
                for p, lo, hi in G.pattern_requests([wires[idx].get("schema"), wires[idx].get("formParams")]):
                    if isinstance(impl_upd(p, lo, hi), dict):
                        sig = text_divergence(p) or (KF_F35 if (lo is not None and hi is not None and lo > hi) else None)
                if o["error"] == "TypeError" and crash_shape(wires[idx].get("schema")):
                    sig = KF_F33
                chk.violation(sig or f"C01:_get_body_strategy:raises-{o['error']}", f"no strategy for a declared payload alternative: {o['error']}",
                              {**rep0, "step": step})
                continue
            if o is not None and "unrecognised" in o:
                chk.feature(f"{mechanism}:strategy-structure-not-recognised(left-to-the-replay)")
                continue
            if "custom" in m:
                same = o == {"custom": m["custom"]}
            elif o is None or "schema" not in o:
                same = False
            else:
                same = dumps(o["schema"]) == dumps(m["schema"]) and o["orNotSet"] == m["orNotSet"]
            if not same and diff is None:
                diff = step
                chk.disagreement(mechanism, {**rep0, "step": step, "alternative": wires[idx]["mediaType"]},
                                 {k: (canon(v) if k == "schema" else v) for k, v in m.items() if k != "factory"},
                                 o if o is None or "schema" not in o else {"schema": canon(o["schema"]), "orNotSet": o["orNotSet"]})
        # replay: the same history with the real positive factory; what the strategy of each request yields must conform to the
        # schema declared for the requested alternative (spec + oracle judge the values the real code produced)
        declared = dict(body_alternatives(doc))

        def on_positive(step, item, strat, _doc=doc, _seed=seed):
            try:
                return {"values": draw_values(strat, n_draws, _seed + step)}
            except Exception as e:  # noqa: BLE001
                return {"error": type(e).__name__}

        try:
            items, outs = run_history(doc, hist, H.make_positive_strategy, custom, on_positive)
        except Exception as e:  # noqa: BLE001
            raise InfraError(f"replaying a body history failed: {type(e).__name__}: {e}") from e
        for step, ((idx, f), o) in enumerate(zip(hist, outs)):
            if f != "positive" or o is None or "custom" in o:
                continue
            mt = items[idx].media_type
            rep = {**rep0, "step": step, "media_type": mt}
            if "error" in o:
                chk.feature(f"{mechanism}:replay:no-values:{o['error']}")
                continue
            sch = next(sc for m2, sc in declared.items() if same_media_type(m2, mt))
            for v in o["values"]:
                if v is NOT_SET:
                    chk.feature(f"{mechanism}:replay:body-absent")
                    if doc.get("body_required", True):
                        chk.violation("C01:draw:required-body-missing", "the strategy of a required request body yields NOT_SET", rep)
                    continue
                chk.feature(f"{mechanism}:replay:body-values:{mt}")
                try:
                    ok = judge(sch, v, nn, raw)
                except Exception:  # noqa: BLE001
                    chk.feature(f"{mechanism}:oracle-rejects-schema")
                    continue
                if not ok:
                    sig, extra = classify_body(chk, drv, doc, sch, mt, v)
                    chk.violation(sig, f"the strategy answered for the {mt} alternative yields a body that does not conform to the "
                                       f"schema declared for {mt}",
                                  {**rep, "body": v if on_wire(v) else repr(v), "schema": sch, **extra})
    judge.settle(chk, drv, mechanism)


W_BODY_ALTERNATIVES = {
    "raw": {"openapi": "3.0.2", "info": {"title": "t", "version": "1"}, "paths": {"/r": {"post": {
        "requestBody": {"required": True, "content": {
            "application/json": {"schema": {"type": "object", "properties": {"id": {"type": "integer", "minimum": 1, "maximum": 1000}},
                                            "required": ["id"], "additionalProperties": False}},
            "text/plain": {"schema": {"type": "string", "pattern": "^[a-z]{3}$"}},
            "multipart/form-data": {"schema": {"properties": {"n": {"type": "integer"}}, "required": ["n"]}}}},
        "responses": {"200": {"description": "OK"}}}}}},
    "path": "/r", "method": "POST", "params": [], "nn": "nullable", "version": "3.0", "body_required": True,
}
W_BODY_ALTERNATIVES["bodies"] = [(mt, d["schema"]) for mt, d in
                                 W_BODY_ALTERNATIVES["raw"]["paths"]["/r"]["post"]["requestBody"]["content"].items()]
W_BODY_ALTERNATIVES["body"] = W_BODY_ALTERNATIVES["bodies"][0][1]


def gen_conv_items(chk, n, spice=0.0):
    rng = chk.rng
    items = []
    for _ in range(n):
        nn = "nullable" if rng.random() < 0.7 else "x-nullable"
        s = G.gen_oas_schema(rng, rng.randint(1, 3), nn, spice)
        r = rng.random()
        resp, updq = (True, rng.random() < 0.5) if r < 0.12 else (False, r > 0.2)
        insts = G.instances_for(rng, s, nn, 4)
        impl = impl_conv(s, nn)
        if "ok" in impl:  # values the generator would be allowed to produce
            insts += G.instances_for(rng, impl["ok"], "\0none", 3)
        items.append((s, nn, resp, updq, insts))
    return items


def _doc30(params, body=None, required=True):
    path = "/r" + "".join("/{" + d["name"] + "}" for d in params if d["in"] == "path")
    op = {"parameters": params, "responses": {"200": {"description": "OK"}}}
    if body is not None:
        op["requestBody"] = {"required": required, "content": {"application/json": {"schema": body}}}
    raw = {"openapi": "3.0.2", "info": {"title": "t", "version": "1"}, "paths": {path: {"post": op}}}
    return {"raw": raw, "path": path, "method": "POST", "params": [(d["in"], d) for d in params], "body": body, "nn": "nullable",
            "version": "3.0"}


def _deep_chain_doc(leaf, depth=8, draws=60):
    """a body schema reached through `depth + 1` nested *required* local references: the innermost component is handed to
    `remove_optional_references` (the pruning applied at the reference-depth limit of resolve_all); `leaf` is that
    component, `Owner` a component it may refer to"""
    comps = {}
    for i in range(depth):
        comps[f"L{i}"] = {"type": "object", "properties": {"next": {"$ref": f"#/components/schemas/L{i + 1}"}}, "required": ["next"],
                          "additionalProperties": False}
    comps[f"L{depth}"] = leaf
    comps["Owner"] = {"type": "object", "properties": {"id": {"type": "integer", "minimum": 1}}, "required": ["id"],
                      "additionalProperties": False}
    d = _doc30([], {"$ref": "#/components/schemas/L0"})
    d["raw"]["components"] = {"schemas": comps}
    body = {"title": "a", "meta": {"owner": {"id": 1}}} if "title" in leaf.get("required", []) else \
        {"meta": {}} if "meta" in leaf.get("required", []) else {}
    for _ in range(depth):
        body = {"next": body}
    return {**d, "draws": draws, "gc": {}, "deep_chain": True, "satisfiable": body}


_OWNER = {"$ref": "#/components/schemas/Owner"}
DEEP_CHAIN_LEAVES = [
    # an optional property holding a reference, additional properties allowed: pruning must not turn it into "anything"
    {"type": "object", "properties": {"": _OWNER, "t": {"type": "string", "maxLength": 3}}},
    {"type": "object", "properties": {"0": _OWNER}},
    # the same one level down, inside an inline object: `required` is the inline object's own
    {"type": "object", "properties": {"title": {"type": "string", "maxLength": 3},
                                      "meta": {"type": "object", "properties": {"owner": _OWNER, "note": {"type": "string", "maxLength": 3}},
                                               "required": ["owner"]}},
     "required": ["title", "meta"], "additionalProperties": False},
    {"type": "object", "properties": {"meta": {"type": "object", "properties": {"": _OWNER}, "required": []}}, "required": ["meta"],
     "additionalProperties": False},
    # optional arrays of references, optional single-item combinators over a reference
    {"type": "object", "properties": {"xs": {"type": "array", "items": _OWNER}, "": {"allOf": [_OWNER]}}, "additionalProperties": False},
    {"type": "object", "properties": {"": {"anyOf": [_OWNER]}}},
    # additionalProperties given as a reference
    {"type": "object", "properties": {"a": {"type": "integer"}}, "additionalProperties": _OWNER},
]
# FC01c (recorded, not repaired): a single-member combinator over a reference is deleted at the depth limit also where it is
# mandatory - under a required property, or on the component itself
KF_FC01C = "C01:remove_optional_references:mandatory-single-member-combinator-over-a-reference-deleted-at-depth-limit"
DEEP_CHAIN_LEAVES_FC01C = [
    {"type": "object", "properties": {"x": {"allOf": [_OWNER]}}, "required": ["x"]},
    {"allOf": [_OWNER], "type": "object"},
]

DRAW_WITNESSES = [
    # FC01d: strict settings asked for after the same loaded operation served a request under permissive ones
    {**_doc30([{"name": "q", "in": "query", "required": True, "schema": {"type": "string", "minLength": 1}},
               {"name": "id", "in": "path", "required": True, "schema": {"type": "string", "minLength": 2, "maxLength": 6}}],
              {"type": "object", "properties": {"s": {"type": "string", "minLength": 1}}, "required": ["s"], "additionalProperties": False}),
     "gc": {"allow_x00": False, "codec": "ascii"}, "draws": 60, "settings_prelude": True},
    *[_deep_chain_doc(leaf) for leaf in DEEP_CHAIN_LEAVES],
    *[{**_deep_chain_doc(leaf, draws=20), "satisfiable": None, "deep_chain": KF_FC01C} for leaf in DEEP_CHAIN_LEAVES_FC01C],
    _doc30([{"name": "q", "in": "query", "required": True, "schema": W_F5}]),
    _doc30([], W_F4),
    _doc30([{"name": "id", "in": "path", "required": True, "schema": W_F28}]),
    # plain string header / cookie / query values under allow_x00=False and codec=ascii (F40 is the header codec gap)
    {**_doc30([{"name": "X-H", "in": "header", "required": True, "schema": {"type": "string"}},
               {"name": "c", "in": "cookie", "required": True, "schema": {"type": "string"}},
               {"name": "q", "in": "query", "required": True, "schema": {"type": "string"}}],
              {"type": "object", "properties": {"s": {"type": "string"}}, "required": ["s"], "additionalProperties": False}),
     "gc": {"allow_x00": False, "codec": "ascii"}, "draws": 80},
    # constrained string header / cookie values (minLength, maxLength) under
    # codec=ascii: these do not go through the `_header_value` format (F40's site) but through from_schema(codec=...) like
    # every other string, and must honour the configured codec
    {**_doc30([{"name": "X-Tag", "in": "header", "required": True, "schema": {"type": "string", "minLength": 3, "maxLength": 12}},
               {"name": "sid", "in": "cookie", "required": True, "schema": {"type": "string", "minLength": 4}}]),
     "gc": {"allow_x00": False, "codec": "ascii"}, "draws": 80},
    # an operation with three payload alternatives (own schema each), served negative generation first
    {**W_BODY_ALTERNATIVES, "draws": 16, "negative_first": True, "gc": {}},
    # FC01a: the Authorization header of an http bearer security scheme under allow_x00=False
    {"raw": {"openapi": "3.0.2", "info": {"title": "t", "version": "1"},
             "components": {"securitySchemes": {"b": {"type": "http", "scheme": "bearer"}}}, "security": [{"b": []}],
             "paths": {"/r": {"post": {"parameters": [], "responses": {"200": {"description": "OK"}}}}}},
     "path": "/r", "method": "POST", "params": [], "body": None, "nn": "nullable", "version": "3.0",
     "security": [("header", "Authorization")], "gc": {"allow_x00": False, "with_security_parameters": True}, "draws": 100},
    # word-boundary assertions are not whole-string anchors: the length keywords must survive
    _doc30([{"name": "tag", "in": "query", "required": True, "schema": {"type": "string", "pattern": "\\b[a-z]+\\b", "maxLength": 5}}],
           {"type": "object", "properties": {"code": {"type": "string", "pattern": "^[A-Z]+\\b", "minLength": 2, "maxLength": 4}},
            "required": ["code"], "additionalProperties": False}),
]


def run(chk):
    drv = chk.driver()
    S.selfcheck(chk, chk.budget(150, 1500))
    detect_variants(chk)
    chk.assumptions += [
        "hypothesis-jsonschema's from_schema(s) yields only instances valid for s (third-party contract; sampled by the draw replay)",
        "the meaning of `pattern` is Python `re.search` (what jsonschema and the generator use); `$` is read as end of input "
        "(hypothesis-jsonschema generates no trailing newline); strings ending in a newline are not generated by this check",
        "C01_nullable_exact is relative to PatExact (the pattern rewriter is exact where it rewrites); C01_pattern_merge_sound "
        "proves the inclusion half of it on the regex tree for anchored width-1 shapes; the tie between pattern text and tree is "
        "the correspondence run (sre_parse on both sides)",
        "values compared through the string coercion of their location: a header/cookie/path/query value may stand for the JSON "
        "number / true / false / null it spells",
        "a drawn float without fractional part (1.0, 2e61) conforms if it conforms under either reading of `type: integer` "
        "(draft 4: not an integer; draft 6+ and hypothesis-jsonschema: an integer); such values are judged by the Python oracle only",
    ]
    chk.trusted += ["harness/gens/schemas.py + lean/SV/Spec/JsonSchema.lean (shared reference semantics, self-checked against "
                    "jsonschema on every run)",
                    "Python `re` as the oracle for regular-expression matching in the replay of rewritten patterns",
                    "jsonschema Draft4Validator extended with nullable/readOnly (harness/corr/c01.py) as the independent oracle; "
                    "it must agree with the Lean specification on every judged value (else exit 2)"]
    chk.proved += [
        "C01_nullable_exact: converted schema == OpenAPI request-side reading on the fragment (any nesting of nullable, scalars "
        "keywords, pattern/length, items, properties, additionalProperties, patternProperties, allOf/anyOf/oneOf/not)",
        "C01_readonly_never_sent (repaired forbid site, any number of readOnly names, earlier `not` allowed); "
        "C01_readonly_never_sent_partial (as found: one readOnly name, no earlier `not`); witnesses F4, F4b",
        "C01_params_object: the per-location object schema accepts exactly {all required present, only declared names, each "
        "value valid}",
        "C01_pattern_merge_sound: anchored, width-1 repeats, single repeat or multi-part distribution (exact search + range), "
        "new pattern implies old pattern and length within bounds; C01_pattern_merge_keeps_some: the re-rendered pattern stays "
        "satisfiable; witnesses F5, F28, F32, F35, F36",
        "C01_pattern_schema_merge_sound: the string schema update_pattern_in_schema leaves (rewritten pattern + the length "
        "keywords that stay) accepts only what pattern + minLength/maxLength accept, under re.search with arbitrary positional "
        "assertions (^ $ \\A \\Z \\b \\B, one side, none), repaired length-drop site; C01_pattern_merge_search_monotone (any "
        "anchoring, any repeat width, F32's shape excluded); C01_length_keywords_dropped_only_if_anchored; witness "
        "C01_pattern_merge_word_boundary_full_false (\\b[a-z]+\\b + maxLength 3 with the length dropped accepts 'ab-ab')",
        "C01_body_strategy_is_for_own_alternative: over every history of body-strategy requests of one operation (any "
        "interleaving of alternatives, repeats, positive/negative factories, user-registered media types) each request is "
        "answered with the strategy built from the requested alternative's own converted schema, NOT_SET branch iff optional; "
        "C01_body_conforms_to_own_alternative / _to_declared_schema (draw level, relative to the from_schema contract, composed "
        "with C01_nullable_exact); C01_strategy_cache_transparent + C01_strategy_cache_key_must_separate (a memo table is "
        "invisible iff its key separates requests that build different things) with the witness "
        "C01_body_cache_keyed_by_operation_full_false; C01_param_cache_key_determines_schema (factory, location, sorted exclude)",
    ]
    chk.partial += [
        "readOnly inside the equivalence theorem: the fragment of C01_nullable_exact excludes readOnly properties (they have "
        "their own one-level theorems); `$ref`, `type: file`, tuple `items`, dict literals in enum/const are outside the fragment",
        "pattern merging: only the inclusion direction is proved, and only for patterns anchored at both ends whose repeats are "
        "one character wide; the text-level scanning of _handle_anchored_pattern/_find_quantified_end is not modelled "
        "(F38/F38b/F38c are found by the correspondence run, not by proof)",
        "the post-generation pipeline (serialize, is_valid_* filters, quote_all, jsonify) and prepare_schema's $ref inlining are "
        "not modelled: covered by the draw replay only",
        "the converse direction (an operation with conforming inputs does get cases) is only checked for crashes "
        "(TypeError/InternalError) of the conversion; Unsatisfiable/health-check outcomes are counted, not judged",
        "body alternatives: form payloads (`type: object` default of OpenAPI 3 forms, the composite Swagger formData object) "
        "are in the model and in the correspondence but outside C01_body_conforms_to_declared_schema (non-form alternatives "
        "in the fragment only); prepare_schema is taken as the identity on reference-free schemas there; wildcard media "
        "types (`*/*`, `application/*`) and the urlencoded post-map are not generated",
    ]
    chk.sampled_only += [
        "instances drawn by hypothesis-jsonschema satisfy the converted schema; allow_x00 / codec restrictions (F39, F39b, F40 found)",
        "get_schema_for_location / make_positive_strategy header-format injection (correspondence on generated documents, "
        "OpenAPI 2.0 / 3.0 / 3.1)",
        "$ref'd components, required body / parameters presence, undeclared names: judged on real as_strategy(POSITIVE) draws",
        "operations with 2-3 payload alternatives (OpenAPI 3 media types with their own schemas incl. forms, text/plain, xml, "
        "yaml; Swagger consumes lists and formData): every drawn body is judged against the schema declared for the media type "
        "of its case; positive draws after negative draws on the same loaded operation (shared strategy caches)",
    ]
    # witnesses first
    wit = [(W_F4, "nullable", False, True, [W_F4_INSTANCE, {}, {"a": 1, "b": 2}]),
           (W_F5, "nullable", False, True, [W_F5_INSTANCE, "abc"]),
           (W_F28, "nullable", False, True, [W_F28_INSTANCE, "ab"]),
           (W_F32, "nullable", False, True, [W_F32_INSTANCE, "a"]),
           (W_F33, "nullable", False, True, [{}]),
           ({"not": {"type": "string", "pattern": "a|b", "minLength": 3, "maxLength": 4}}, "nullable", False, True, ["a b", "aab"])]
    conv_round(chk, drv, wit, "witness")
    conv_round(chk, drv, gen_conv_items(chk, chk.budget(1000, 20000)), "conv")
    conv_round(chk, drv, gen_conv_items(chk, chk.budget(150, 1500), spice=0.5), "conv-spiced")
    docs = [G.gen_document(chk.rng, chk.rng.choice(["3.0", "3.0", "2.0", "3.1"])) for _ in range(chk.budget(150, 1500))]
    location_round(chk, drv, docs, "location")
    ddocs = [G.gen_document(chk.rng, chk.rng.choice(["3.0", "3.0", "2.0", "3.1"]), body_depth=chk.rng.choice([1, 2]), multi=0.35,
                            security=0.25) for _ in range(chk.budget(20, 400))]
    corr_prune(chk, drv, chk.budget(300, 4000))
    draws_round(chk, drv, DRAW_WITNESSES + ddocs, chk.budget(10, 25))
    bdocs = [G.gen_document(chk.rng, chk.rng.choice(["3.0", "3.0", "3.1", "2.0"]), body_depth=chk.rng.choice([1, 2]), with_ref=False,
                            multi=1.0) for _ in range(chk.budget(40, 600))]
    body_round(chk, drv, [{**W_BODY_ALTERNATIVES, "history": [[0, "positive"], [1, "negative"], [1, "positive"], [2, "positive"],
                                                              [0, "positive"]]}] + bdocs, chk.budget(3, 6))
    regex_round(chk, drv, REGEX_WITNESSES, "regex-witness")
    ex = exhaustive_regex_cases(chk)
    regex_round(chk, drv, ex, "regex-exhaustive")
    regex_round(chk, drv, gen_regex_cases(chk, chk.budget(1500, 15000)), "regex-random")
    chk.notes.append(f"regex-exhaustive: {len(ex)} (pattern, minLength, maxLength) triples: every lead x atom x quantifier x trail "
                     "single-part pattern and all 2/3-part anchored sequences over a small alphabet, lengths in a grid; multi-part "
                     "patterns with lazy/possessive suffixes, quantified escaped metacharacters or (?:...) are outside the tree model "
                     "(text-level defects F38*, witnesses only)")
    chk.exhaustive = False


REGEX_WITNESSES = [("^[0-9]{1,3}?a{1,3}\\+{1,3}?\\Z", 3, 3), ("^\\+?b+(?:ab)\\Z", 2, None), ("^(?:ab)[0-9]+$", None, 4),
                   ("^a[0-9]*$", None, 1), ("^(ab)+$", None, 3), ("[a-z]", None, 3), ("^a$", None, 3), ("[ab]", 3, 1)]


def replay(chk, data):
    print(data.get("what"))
    r = data["replay"]
    print("recorded:", json.dumps(r, ensure_ascii=False, default=str)[:3000])
    drv = chk.driver()
    detect_variants(chk)
    print("variants exhibited by the tree:", chk.variants)
    if "correspondence" in r and isinstance(r.get("input"), dict):
        r = {**r, **r["input"]}
    if "schema" in r and "location" not in r and "document" not in r:
        s, nn = r["schema"], r.get("nullable_name", "nullable")
        impl = impl_conv(s, nn, r.get("resp", False), r.get("update_quantifiers", True))
        print("impl now :", json.dumps(impl, ensure_ascii=False))
        print("model    :", json.dumps(drv.one("conv", {"cfg": cfg_for(chk, s, nn, r.get("resp", False), r.get("update_quantifiers", True)),
                                                         "schema": s, "fuel": 2 * py_depth(s) + 8}), ensure_ascii=False))
        if "instance" in r and "ok" in impl:
            v = r["instance"]
            print("converted schema accepts instance:", js_valid(impl["ok"], v))
            print("OpenAPI schema accepts instance (python oracle):", oas_valid(s, v, nn))
            print("OpenAPI schema accepts instance (Lean spec):",
                  drv.one("valid", {"env": S.lean_env(s, v, oas="request", nullable=nn), "schema": s, "instance": v}))
    elif "pattern" in r and "document" not in r:
        p, lo, hi = r["pattern"], r.get("minLength"), r.get("maxLength")
        impl = impl_upd(p, lo, hi)
        print("update_quantifier now:", impl)
        print("is_anchored now:", impl_anchored(p), " update_pattern_in_schema leaves:", impl_merge(p, lo, hi))
        try:
            items = sre_items(p)
            v = {"zeroMax": chk.variants.get("distribute_zero_max"), "atom": chk.variants.get("atom_min_gt_max")}
            print("model      :", json.dumps(drv.one("merge", {"v": v, "vLen": chk.variants.get("length_drop"), "sameText": impl == p,
                                                                "items": items, "lo": lo, "hi": hi})))
            if isinstance(impl, str):
                print("impl tree  :", json.dumps(sre_items(impl)))
        except Exception as e:  # noqa: BLE001
            print("pattern does not parse:", e)
        if "string" in r and isinstance(impl, str):
            t = r["string"]
            print(f"string {t!r}: matches rewritten={bool(re.search(impl, t))} matches original={bool(re.search(p, t))} length={len(t)}")
            out = impl_merge(p, lo, hi)
            if "error" not in out:
                acc = bool(re.search(out["pattern"], t)) and (out["minLength"] is None or out["minLength"] <= len(t)) and \
                      (out["maxLength"] is None or len(t) <= out["maxLength"])
                orig = bool(re.search(p, t)) and (lo is None or lo <= len(t)) and (hi is None or len(t) <= hi)
                print(f"  accepted by the schema update_pattern_in_schema leaves: {acc}; accepted by the original schema: {orig}")
    elif "document" in r:
        from schemathesis.generation import GenerationConfig
        doc = {"raw": r["document"]}
        doc["path"] = next(iter(doc["raw"]["paths"]))
        doc["method"] = "POST"
        _, op = load_operation(doc, r.get("generation", {}).get("with_security_parameters"))
        if "history" in r and isinstance(r["history"], list):
            # a history of body-strategy requests: which schema each positive request's strategy was built from, and draws
            from schemathesis.specs.openapi import _hypothesis as H
            hist = [(i, f) for i, f in r["history"]]
            custom = r.get("custom_media_types", [])
            items, seen = run_history(doc, hist, recording_factory, custom, lambda step, item, strat: observe_strategy(strat, step))
            wires = [alt_wire(it) for it in items]
            nn = "x-nullable" if "swagger" in doc["raw"] else "nullable"
            model = drv.one("body", {"cfg": cfg_for(chk, [w.get("schema") for w in wires] + [w.get("formParams") for w in wires], nn),
                                     "fuel": 2 * py_depth(wires) + 8, "custom": custom, "alts": wires, "history": [[i, f] for i, f in hist]})
            _, drawn = run_history(doc, hist, H.make_positive_strategy, custom,
                                   lambda step, item, strat: {"values": [repr(v)[:200] for v in draw_values(strat, 5, step)]})
            for step, ((i, f), o, m, d) in enumerate(zip(hist, seen, model, drawn)):
                print(f"step {step}: alternative {i} ({items[i].media_type}) factory={f}")
                if f == "positive":
                    print("   impl strategy built from:", json.dumps(o, default=str, ensure_ascii=False)[:600])
                    print("   model                   :", json.dumps(m, ensure_ascii=False)[:600])
                    print("   real draws              :", d)
            return 0
        if "location" in r and "case" not in r:
            print("impl now :", json.dumps(impl_location(op, r["location"]), ensure_ascii=False, default=str)[:3000])
        else:
            gen = r.get("generation", {})
            try:
                gcfg = GenerationConfig(allow_x00=gen.get("allow_x00", True), codec=gen.get("codec", "utf-8"))
                if r.get("history") == "negative-then-positive":
                    try:
                        draw_cases(op, gcfg, 3, r.get("seed", 0) + 7, negative=True)
                    except Exception as e:  # noqa: BLE001
                        print("negative prelude raises:", type(e).__name__)
                cases = draw_cases(op, gcfg, 80 if "seed" not in r else 25, r.get("seed", 0))
                for c in cases[:25]:
                    print("case:", {"media_type": c.media_type, "path": c.path_parameters, "query": c.query, "headers": c.headers,
                                    "cookies": c.cookies, "body": c.body})
            except Exception as e:  # noqa: BLE001
                print("as_strategy / draw raises:", type(e).__name__, str(e)[:500])
    return 0
