"""C02 — negative-mode test data really violates the schema and is labelled so.

Correspondence
  labels:scripted   the real `openapi_cases` body (the function under `st.composite`) driven by a scripted `draw`
                    over every choice sequence, with the two strategy factories replaced by `st.just(<known value>)`,
                    against the Lean `openapiCases` on the operation description read back from the real operation
                    (`parameters_to_json_schema`, real `can_negate`).
  labels:real       real Hypothesis draws from `operation.as_strategy(NEGATIVE)` (pinned seed) — labels vs the model.
  labels:explicit   the real `openapi_cases` with explicit `path_parameters=/headers=/cookies=/query=/body=` arguments
                    under scripted draws (every choice sequence, known-value factories that may also draw `{}`)
                    against the Lean `openapiCasesX`: outcome, labels, the value and the
                    generator of every location, and the strategy `get_parameters_strategy` handed out (observed through
                    its cache: the explicit choices of a parameter shape run on one operation object).
  explicit:real     real Hypothesis draws from `as_strategy(NEGATIVE, headers=…, …)`; every execution that reached the
                    labelling step against `openapiCasesX` (values replaced by digests).
  mutation:*        the real mutation functions of negative/mutations.py driven by a scripted `draw` (sampled_from,
                    feature flags, orderings chosen by the harness rng and recorded) against the Lean functions.
Replay
  every labelled part of every real draw is judged by the Lean reference semantics (`validF`, request mode), non-body
  parts additionally through their wire spelling (`partConforms`); `jsonschema` is the cross-oracle (shared selfcheck).
  An operation that ends without a single case (SkipTest / Unsatisfiable) although the reference semantics finds an
  input, left to generate, whose declared schema rejects some wire spelling (parameters) or instance (body) is a
  violation; its signature names the location whose strategy starved and the shape of what the caller supplied.
"""
from __future__ import annotations

import copy
import json
import time
from collections import Counter
import urllib.parse
import warnings

import hypothesis
from hypothesis import HealthCheck, Phase, given, settings
from hypothesis import strategies as st
from hypothesis.errors import UnsatisfiedAssumption, Unsatisfiable
from hypothesis.strategies._internal.collections import ListStrategy
from hypothesis.strategies._internal.featureflags import FeatureStrategy
from hypothesis.strategies._internal.lazy import LazyStrategy
from hypothesis.strategies._internal.misc import BooleansStrategy, JustStrategy
from hypothesis.strategies._internal.shared import SharedStrategy
from hypothesis.strategies._internal.strategies import (FilteredStrategy, MappedStrategy, OneOfStrategy,
                                                        SampledFromStrategy)

import schemathesis
from schemathesis.core import NOT_SET
from schemathesis.core.control import SkipTest
from schemathesis.generation import GenerationConfig, GenerationMode
from schemathesis.specs.openapi import _hypothesis as H
from schemathesis.specs.openapi.negative import mutations as M
from schemathesis.specs.openapi.negative.utils import can_negate
from schemathesis.specs.openapi.parameters import parameters_to_json_schema

from harness.core import InfraError
from harness.gens import schemas as G

KF_NONE_LOCATION = "C02:openapi_cases:location-without-parameters-labelled-negative"
KF_ABSENT_BODY = "C02:openapi_cases:absent-optional-body-labelled-negative"
KF_WIRE = "C02:negative_schema:filter-judges-unserialised-value:wire-spelling-conforms"

KINDS = ["query", "path_parameters", "headers", "cookies", "body"]
LOC_OF_KIND = {"query": "query", "path_parameters": "path", "headers": "header", "cookies": "cookie", "body": "body"}


# ---- scripted draw ---------------------------------------------------------------------------------------------------

class FakeFlags:
    """Stand-in for hypothesis' FeatureFlags: every name is decided once by the chooser and remembered."""

    def __init__(self, chooser, key):
        self.chooser, self.key, self.decided = chooser, key, {}

    def is_enabled(self, name):
        if name not in self.decided:
            self.decided[name] = bool(self.chooser.choose(2, f"flag:{self.key}:{name}"))
        self.chooser.events.append(("flag", self.key, name, self.decided[name]))
        return self.decided[name]


class Chooser:
    """Source of choices: a fixed prefix (systematic enumeration) followed by rng (or 0)."""

    def __init__(self, prefix=(), rng=None):
        self.prefix, self.rng, self.taken, self.arity = list(prefix), rng, [], []
        self.events = []  # ("sampled", value) | ("bool", b) | ("flag", key, name, b) | ("ordered", [...])

    def choose(self, n, what=""):
        i = len(self.taken)
        if i < len(self.prefix):
            c = self.prefix[i]
        elif self.rng is not None:
            c = self.rng.randrange(n)
        else:
            c = 0
        if c >= n:
            raise InfraError(f"scripted choice {c} out of range {n} at {what}")
        self.taken.append(c)
        self.arity.append(n)
        return c


def next_prefix(taken, arity):
    """Next choice sequence in depth-first order, or None."""
    t = list(taken)
    while t:
        if t[-1] + 1 < arity[len(t) - 1]:
            t[-1] += 1
            return t
        t.pop()
    return None


class FakeDraw:
    def __init__(self, chooser):
        self.chooser = chooser
        self.flags = {}
        self.body_idx = 0

    def _note_body(self, elems, idx):
        from schemathesis.specs.openapi.parameters import OpenAPIBody
        if elems and isinstance(elems[0], OpenAPIBody):
            self.body_idx = idx

    def __call__(self, strategy, label=None):
        s = strategy
        while isinstance(s, LazyStrategy):
            s = s.wrapped_strategy
        if isinstance(s, JustStrategy):
            self.chooser.events.append(("sampled", s.value))
            return s.value
        if isinstance(s, SampledFromStrategy):
            elems = list(s.elements)
            idx = self.chooser.choose(len(elems), "sampled_from")
            self._note_body(elems, idx)
            self.chooser.events.append(("sampled", elems[idx]))
            value = elems[idx]
            transformations = getattr(s, "_transformations", ())
            if transformations:  # `.map(f)` / `.filter(f)` fused into the sampled_from strategy
                value = copy.deepcopy(value)
                for name, f, *_ in transformations:
                    if name == "map":
                        value = f(value)
                    elif not f(value):
                        raise UnsatisfiedAssumption()
            return value
        if isinstance(s, BooleansStrategy):
            b = bool(self.chooser.choose(2, "booleans"))
            self.chooser.events.append(("bool", b))
            return b
        if isinstance(s, SharedStrategy):
            if not isinstance(s.base, FeatureStrategy):
                raise InfraError("scripted draw: shared(non-feature)")
            if s.key not in self.flags:
                self.flags[s.key] = FakeFlags(self.chooser, s.key)
            return self.flags[s.key]
        if isinstance(s, ListStrategy):  # `ordered(items)`: a permutation of the sampled_from elements
            e = s.element_strategy
            while isinstance(e, LazyStrategy):
                e = e.wrapped_strategy
            if not isinstance(e, SampledFromStrategy) or s.min_size != len(list(e.elements)):
                raise InfraError("scripted draw: list strategy that is not `ordered(...)`")
            rest, out = list(e.elements), []
            while rest:
                out.append(rest.pop(self.chooser.choose(len(rest), "ordered")))
            self.chooser.events.append(("ordered", out))
            return out
        if isinstance(s, OneOfStrategy):
            branches = list(s.original_strategies)
            return self(branches[self.chooser.choose(len(branches), "one_of")])
        if isinstance(s, MappedStrategy):
            return s.pack(self(s.mapped_strategy))
        if isinstance(s, FilteredStrategy):
            v = self(s.filtered_strategy)
            for cond in s.flat_conditions:
                if not cond(v):
                    raise UnsatisfiedAssumption()
            return v
        raise InfraError(f"scripted draw: unsupported strategy {type(s).__name__}")


# ---- operations ------------------------------------------------------------------------------------------------------

# parameter shapes per location: list of (name, schema); "neg" can be negated, "pos" cannot
PARAM_SHAPES = {
    "path": {"none": [], "neg": [("p", {"type": "integer"})], "unneg": [("p", {})],
             "mixed": [("p", {}), ("p2", {"type": "integer"})]},
    "header": {"none": [], "neg": [("X-A", {"type": "integer"})], "unneg": [("X-A", {"type": "string"})],
               "mixed": [("X-A", {"type": "string"}), ("X-B", {"type": "boolean"})]},
    "cookie": {"none": [], "neg": [("c", {"type": "integer"})], "unneg": [("c", {"type": "string"})],
               "mixed": [("c", {"type": "string"}), ("c2", {"type": "boolean"})]},
    "query": {"none": [], "neg": [("q", {"type": "integer"})], "str": [("q", {"type": "string"})]},
}
MEDIA = ["application/json", "text/plain"]
# body item shapes: (negatable?, required?)
BODY_ITEM = {(True,): {"type": "integer"}, (False,): {}}


def make_operation_def(shape):
    """shape: {path, header, cookie, query: shape-name, body: [(negatable, )...], body_required: bool}"""
    params = []
    for loc in ("path", "header", "cookie", "query"):
        for name, schema in PARAM_SHAPES[loc][shape[loc]]:
            p = {"name": name, "in": loc, "schema": copy.deepcopy(schema)}
            if loc == "path" or shape.get("required"):
                p["required"] = True
            params.append(p)
    d = {"parameters": params, "responses": {"200": {"description": "OK"}}}
    if shape["body"]:
        d["requestBody"] = {"required": bool(shape["body_required"]),
                            "content": {MEDIA[i]: {"schema": ({"type": "integer"} if neg else {})}
                                        for i, neg in enumerate(shape["body"])}}
    return d


def path_template(shape, i):
    names = [n for n, _ in PARAM_SHAPES["path"][shape["path"]]]
    return f"/op{i}" + "".join(f"/{{{n}}}" for n in names)


def build(shapes):
    paths = {}
    for i, sh in enumerate(shapes):
        paths[path_template(sh, i)] = {"post": make_operation_def(sh)}
    raw = {"openapi": "3.0.2", "info": {"title": "t", "version": "1"}, "paths": paths}
    schema = schemathesis.openapi.from_dict(raw)
    return [schema[path_template(sh, i)]["POST"] for i, sh in enumerate(shapes)]


PATH_VARIANT = ["asFound"]


def detect_path_variant(chk):
    """Witness of FC02c: is a plain string path parameter considered negatable?"""
    raw = {"openapi": "3.0.2", "info": {"title": "t", "version": "1"}, "paths": {"/u/{id}": {"get": {
        "parameters": [{"name": "id", "in": "path", "required": True, "schema": {"type": "string"}},
                       {"name": "q", "in": "query", "schema": {"type": "integer"}}],
        "responses": {"200": {"description": "OK"}}}}}}
    op = schemathesis.openapi.from_dict(raw)["/u/{id}"]["GET"]
    PATH_VARIANT[0] = "asFound" if H.can_negate_path_parameters(op) else "repaired"
    chk.variants["can_negate_path_parameters"] = PATH_VARIANT[0]
    if PATH_VARIANT[0] == "asFound":
        cfg = GenerationConfig(modes=[GenerationMode.NEGATIVE])
        cases, stop = draw_real(op.as_strategy(generation_mode=GenerationMode.NEGATIVE, generation_config=cfg), 5, 1)
        chk.case("witness:string-path", key="GET /u/{id}", nontrivial=True, sample={"outcome": stop or "cases"})
        if not cases and stop == "reject":
            diagnose_unsatisfiable(chk, op, {"operation": raw["paths"]["/u/{id}"]["get"], "modes": ["negative"],
                                             "hypothesis_seed": 1}, stop)


def describe(operation):
    """The operation as the Lean model sees it, read back from the real objects (oracle: real `can_negate`)."""
    out = {}
    for loc, container in (("path", "path_parameters"), ("header", "headers"), ("cookie", "cookies"), ("query", "query")):
        props = parameters_to_json_schema(operation, getattr(operation, container))["properties"]
        out[loc] = [[name, s, bool(can_negate(s)) and not (loc == "path" and PATH_VARIANT[0] == "repaired"
                                                            and s == {"type": "string"})] for name, s in props.items()]
    out["body"] = [[bool(can_negate(item.as_json_schema(operation))) and
                    not (BODY_VARIANT[0] == "repaired" and item.media_type in H.MEDIA_TYPES), bool(item.is_required)]
                   for item in (operation.body.items if operation.body else [])]
    return out


def location_schema(operation, loc):
    container = {"path": "path_parameters", "header": "headers", "cookie": "cookies", "query": "query"}[loc]
    params = getattr(operation, container)
    return H.get_schema_for_location(operation, loc, params) if params else None


def _plain(x):
    from collections.abc import Mapping
    if isinstance(x, Mapping):
        return {str(k): _plain(v) for k, v in x.items()}
    if isinstance(x, (list, tuple)):
        return [_plain(v) for v in x]
    if isinstance(x, float) and x == int(x) and abs(x) < 1e15:
        return int(x)
    if isinstance(x, (bytes, bytearray)):
        return x.decode("latin-1")
    return x


def canon(x):
    return json.loads(json.dumps(_plain(x), sort_keys=True, default=str))


# ---- labels: scripted ------------------------------------------------------------------------------------------------

def known_value(schema, location, positive):
    """A value of known validity for the schemas of PARAM_SHAPES / BODY_ITEM."""
    if location == "body":
        return (1 if positive else "x") if schema.get("type") == "integer" else 1
    out = {}
    for name, s in schema.get("properties", {}).items():
        t = s.get("type")
        if "enum" in s:
            # not a member as a Python value; `jsonify_python_specific_types` may spell it like one afterwards
            out[name] = s["enum"][0] if positive else (True if "true" in s["enum"] else None)
        elif t == "integer":
            out[name] = 1 if positive else "x"
        elif t == "boolean":
            out[name] = True if positive else "x"
        else:
            out[name] = "a"
    if not positive and all(s.get("type") not in ("integer", "boolean") and "enum" not in s
                            for s in schema.get("properties", {}).values()):
        out["extra"] = "1"
    return out


class patched_factories:
    """Replace make_positive_strategy / make_negative_strategy by `just(<known value>)`, recording their use."""

    def __enter__(self):
        self.saved = (H.make_positive_strategy, H.make_negative_strategy, dict(H.GENERATOR_MODE_TO_STRATEGY_FACTORY))
        self.used = []
        outer = self

        def pos(schema, operation_name, location, media_type, generation_config, custom_formats=None):
            outer.used.append((location, "positive"))
            return st.just(known_value(schema, location, True))

        def neg(schema, operation_name, location, media_type, generation_config, custom_formats=None):
            outer.used.append((location, "negative"))
            return st.just(known_value(schema, location, False))

        H.make_positive_strategy, H.make_negative_strategy = pos, neg
        H.GENERATOR_MODE_TO_STRATEGY_FACTORY[GenerationMode.POSITIVE] = pos
        H.GENERATOR_MODE_TO_STRATEGY_FACTORY[GenerationMode.NEGATIVE] = neg
        return self

    def __exit__(self, *exc):
        H.make_positive_strategy, H.make_negative_strategy, table = self.saved
        H.GENERATOR_MODE_TO_STRATEGY_FACTORY.clear()
        H.GENERATOR_MODE_TO_STRATEGY_FACTORY.update(table)
        return False


class _RecordingContainer(H.ValueContainer):
    """ValueContainer that remembers every instance (to observe the draws of skipped / rejected executions)."""
    __slots__ = ()
    made: list = []

    def __init__(self, *a, **k):
        super().__init__(*a, **k)
        _RecordingContainer.made.append(self)


def run_openapi_cases(operation, modes, mode, chooser):
    """One execution of the real `openapi_cases` body under a scripted draw → (kind, case, containers by location)."""
    draw = FakeDraw(chooser)
    cfg = GenerationConfig(modes=list(modes))
    saved = H.ValueContainer
    H.ValueContainer = _RecordingContainer
    _RecordingContainer.made = []
    try:
        comp = H.openapi_cases(operation=operation, generation_mode=mode, generation_config=cfg)
        while isinstance(comp, LazyStrategy):
            comp = comp.wrapped_strategy
        case = comp.definition(draw, *comp.args, **comp.kwargs)
        kind = "case"
    except SkipTest:
        kind, case = "skip", None
    except UnsatisfiedAssumption:
        kind, case = "reject", None
    finally:
        H.ValueContainer = saved
    return kind, case, {c.location: c for c in _RecordingContainer.made}, draw.body_idx


def observed(case):
    meta = case.meta
    comps = sorted([k.value, v.mode.value] for k, v in meta.components.items())
    return {"mode": meta.generation.mode.value, "components": comps}


def draws_of(containers, body_idx):
    d = {}
    for loc in ("path", "header", "cookie", "query"):
        v = containers[loc].value if loc in containers else None
        d[loc] = None if v is None else {str(k): canon(x) for k, x in dict(v).items()}
    b = containers["body"].value if "body" in containers else NOT_SET
    d["bodyIdx"] = body_idx
    d["body"] = {"set": not isinstance(b, type(NOT_SET)), "value": None if isinstance(b, type(NOT_SET)) else canon(b)}
    return d


def generators_of(containers):
    return {c.location: (c.generator.value if c.generator is not None else None) for c in containers.values()}


def model_outcome(m):
    o = m["outcome"]
    if isinstance(o, str):
        return o
    return {"mode": o["mode"], "components": sorted(o["components"])}


def all_shapes():
    for p in PARAM_SHAPES["path"]:
        for h in PARAM_SHAPES["header"]:
            for c in PARAM_SHAPES["cookie"]:
                for q in PARAM_SHAPES["query"]:
                    for body in ([], [True], [False], [True, False], [False, True], [False, False], [True, True]):
                        for req in ((False, True) if body else (False,)):
                            yield {"path": p, "header": h, "cookie": c, "query": q, "body": body, "body_required": req}


def detect_variants(chk):
    """Witnesses of F10 on the real code: which variant does the tree exhibit?"""
    w1 = {"path": "none", "header": "none", "cookie": "none", "query": "neg", "body": [], "body_required": False}
    w2 = {"path": "none", "header": "none", "cookie": "none", "query": "none", "body": [True], "body_required": False}
    op1, op2 = build([w1, w2])
    with patched_factories():
        _, case, _, _ = run_openapi_cases(op1, [GenerationMode.NEGATIVE], GenerationMode.NEGATIVE, Chooser())
        none_labelled = case is not None and any(k.value != "query" for k in case.meta.components)
        # all choice sequences of the optional-body witness: is NOT_SET ever produced and labelled negative?
        absent_negative, prefix = False, []
        while prefix is not None:
            ch = Chooser(prefix)
            kind, case, _, _ = run_openapi_cases(op2, [GenerationMode.NEGATIVE], GenerationMode.NEGATIVE, ch)
            if kind == "case" and isinstance(case.body, type(NOT_SET)):
                info = {k.value: v.mode.value for k, v in case.meta.components.items()}
                if info.get("body") == "negative":
                    absent_negative = True
            prefix = next_prefix(ch.taken, ch.arity)
    chk.variants["components-map"] = "asFound" if none_labelled else "repaired"
    chk.variants["optional-body-NOT_SET"] = "asFound" if absent_negative else "repaired"
    if none_labelled != absent_negative:
        chk.notes.append("the two F10 sites are in different variants; the model is compared in the asFound variant "
                         "and the repaired site shows up as a disagreement")
    return "asFound" if (none_labelled or absent_negative) else "repaired"


def labels_scripted(chk, variant):
    rng = chk.rng
    shapes = list(all_shapes())
    if not chk.thorough:
        shapes = rng.sample(shapes, 220)
    ops = build(shapes)
    reqs, cases = [], []
    with patched_factories():
        for sh, op in zip(shapes, ops):
            desc = describe(op)
            for modes in ([GenerationMode.NEGATIVE], [GenerationMode.POSITIVE, GenerationMode.NEGATIVE]):
                prefix = []
                while prefix is not None:
                    ch = Chooser(prefix)
                    kind, case, conts, body_idx = run_openapi_cases(op, modes, GenerationMode.NEGATIVE, ch)
                    impl = kind if case is None else observed(case)
                    a = {"variant": variant, "op": desc, "only": len(modes) == 1, "mode": "negative",
                         "draws": draws_of(conts, body_idx)}
                    reqs.append(("labels", a))
                    cases.append((sh, modes, list(ch.taken), impl, case, a, op, generators_of(conts)))
                    prefix = next_prefix(ch.taken, ch.arity)
    outs = chk.driver().batch(reqs)
    judge = []
    for (sh, modes, taken, impl, case, a, op, gens), m in zip(cases, outs):
        if "__err__" in m:
            raise InfraError(f"model error {m} on {a}")
        mo = model_outcome(m)
        mgens = {LOC_OF_KIND[k]: g for k, g in m["generators"]}
        mgens["body"] = m["bodyGenerator"]
        if mgens != gens:
            chk.disagreement("labels:scripted:generators", {"shape": sh, "lean": a}, mgens, gens)
        key = {"shape": sh, "only": len(modes) == 1, "choices": taken}
        chk.case("labels:scripted", key=key, nontrivial=True, sample={"shape": sh, "impl": impl})
        chk.feature(f"labels:scripted:{impl if isinstance(impl, str) else 'case'}")
        if mo != impl:
            chk.disagreement("labels:scripted", {"shape": sh, "only": len(modes) == 1, "choices": taken, "lean": a}, mo, impl)
        # the operation-level claim: negatable ⇔ produces cases; nothing negatable ⇒ skip (only negative) / reject
        if not m["negatable"] and case is not None:
            chk.violation("C02:openapi_cases:case-produced-although-nothing-negatable",
                          "an operation without any negatable input produced a case in negative mode",
                          {"kind": "scripted", "shape": sh, "modes": [x.value for x in modes], "choices": taken, "impl": impl})
        if m["negatable"] is False and impl != ("skip" if len(modes) == 1 else "reject"):
            chk.violation("C02:openapi_cases:not-skipped-although-nothing-negatable",
                          "nothing negatable but the outcome is neither SkipTest (modes=[negative]) nor reject",
                          {"kind": "scripted", "shape": sh, "modes": [x.value for x in modes], "choices": taken, "impl": impl})
        if case is not None:
            judge.append((sh, modes, taken, case, op))
    judge_cases(chk, judge, "scripted")


# ---- replay: the specification judges the labels of real cases ------------------------------------------------------

def unquote_path(v):
    return urllib.parse.unquote_plus(v) if isinstance(v, str) else v


def part_requests(op, case, strip=None):
    """('part', …) requests for every present part of `case` → [(kind, request)]; `strip`: {location: names} supplied
    by the caller that the operation does not declare (an Authorization header …) — not part of the judged value"""
    out = []
    for kind in KINDS:
        loc = LOC_OF_KIND[kind]
        value = getattr(case, kind)
        if kind == "body":
            if isinstance(value, type(NOT_SET)) or op.body is None:
                continue
            item = next((i for i in op.body.items if i.media_type == case.media_type), None)
            if item is None:
                continue
            schema = item.as_json_schema(op)
            v = canon(value)
        else:
            if value is None:
                continue
            schema = location_schema(op, loc)
            if schema is None:
                continue
            v = {str(k): canon(unquote_path(x) if loc == "path" else x) for k, x in dict(value).items()
                 if not (strip and k in strip.get(loc, ()))}
        out.append((kind, ("part", {"env": G.lean_env(schema, v), "schema": schema, "value": v})))
    return out


def judge_cases(chk, items, origin):
    """items: [(shape-or-raw, modes, choices-or-seed, case, operation)]"""
    drv = chk.driver()
    reqs, index = [], []
    items = [tuple(it) + (None,) * (6 - len(it)) for it in items]
    for n, (sh, modes, taken, case, op, strip) in enumerate(items):
        for kind, req in part_requests(op, case, strip):
            reqs.append(req)
            index.append((n, kind))
    outs = drv.batch(reqs)
    verdicts: dict = {}
    for (n, kind), o, req in zip(index, outs, reqs):
        if "__err__" in o:
            raise InfraError(f"spec error {o} on {req}")
        verdicts.setdefault(n, {})[kind] = o
    sound_reqs = []
    for n, (sh, modes, taken, case, op, _strip) in enumerate(items):
        meta = case.meta
        comps = [[k.value, v.mode.value] for k, v in meta.components.items()]
        v = verdicts.get(n, {})
        present = [[k, k in v] for k in KINDS]
        valid = [[k, bool(v[k]["raw"])] for k in v]
        absent = []
        for k in KINDS:
            if k == "body":
                item = next((i for i in (op.body.items if op.body else []) if i.media_type == case.media_type), None)
                ok = bool(op.body) and item is not None and not item.is_required
                # body drawn absent: media_type is None; optional iff no item is required
                if op.body and item is None:
                    ok = not any(i.is_required for i in op.body.items)
                absent.append([k, ok])
            else:
                absent.append([k, not getattr(op, k)])
        sound_reqs.append(("labelsSound", {"mode": meta.generation.mode.value, "components": comps, "present": present,
                                           "valid": valid, "absentOk": absent}))
    sounds = drv.batch(sound_reqs)
    for n, ((sh, modes, taken, case, op, _strip), ok) in enumerate(zip(items, sounds)):
        meta = case.meta
        v = verdicts.get(n, {})
        comps = {k.value: c.mode.value for k, c in meta.components.items()}
        rep = {"kind": origin, "operation": sh, "modes": [x.value for x in modes], "choices": taken,
               "components": comps,
               "values": {k: ("<absent>" if (isinstance(getattr(case, k), type(NOT_SET)) if k == "body" else getattr(case, k) is None)
                              else canon(getattr(case, k))) for k in KINDS},
               "verdicts": v}
        chk.feature(f"replay:{origin}:{'sound' if ok is True else 'unsound'}")
        if ok is True:
            # every labelled part is fine on the raw value; now the wire spelling of negative non-body parts
            for k, mode in comps.items():
                if k != "body" and mode == "negative" and k in v and v[k]["coerced"]:
                    chk.violation(KF_WIRE, f"the {k} part is labelled negative but its wire spelling conforms to the "
                                           "declared schema", rep)
            continue
        explained = False
        for k, mode in comps.items():
            if k not in v and mode == "negative":
                explained = True
                if k == "body":
                    chk.violation(KF_ABSENT_BODY, "an optional body drawn as absent (NOT_SET) is labelled negative", rep)
                else:
                    chk.violation(KF_NONE_LOCATION, f"location {k} has no parameters (value None) but carries a "
                                                    "'negative' component label", rep)
        if meta.generation.mode.value != "negative":
            chk.violation("C02:openapi_cases:case-not-labelled-negative", "negative-mode case not labelled negative", rep)
            explained = True
        if not any(m == "negative" and k in v for k, m in comps.items()) and not explained:
            chk.violation("C02:openapi_cases:no-negative-part", "no part of the negative case is labelled negative", rep)
            explained = True
        for k, mode in comps.items():
            if k in v and mode == "negative" and v[k]["raw"]:
                spelled = k in ("query", "path_parameters") and any(
                    x in ("true", "false", "null") for x in dict(getattr(case, k)).values() if isinstance(x, str))
                if spelled:
                    chk.violation(f"{KF_JSONIFY}:{LOC_OF_KIND[k]}", f"a {k} value that passed the final filter as True/False/"
                                  "None is spelled 'true'/'false'/'null' afterwards (jsonify_python_specific_types) and "
                                  "conforms to the declared schema, yet is labelled negative", rep)
                elif k == "body" and case.media_type in H.MEDIA_TYPES:
                    chk.violation(KF_CUSTOM_MEDIA, "the body comes from the strategy registered for its media type (the "
                                  "user's own, conforming data) and is labelled negative", rep)
                else:
                    chk.violation(f"C02:negative-label:{k}:value-conforms", f"the {k} part is labelled negative but "
                                  "conforms to the declared schema", rep)
                explained = True
            if k in v and mode == "positive" and not v[k]["raw"]:
                chk.violation(f"C02:positive-label:{k}:value-violates", f"the {k} part is labelled positive but violates "
                              "the declared schema", rep)
                explained = True
        if not explained:
            # only labels of absent parts remain: positive labels on absent parts that are not optional
            chk.violation("C02:openapi_cases:labels-unsound", "labels do not match the content of the case", rep)


# ---- mutations: scripted draws against the Lean functions -----------------------------------------------------------

LEAF = ("remove_required_property", "change_type", "negate_constraints")
WRAPPED = LEAF + ("change_properties", "change_items")


class Recorder:
    """Wraps the module-level mutation functions of negative/mutations.py; records every call (schema before/after,
    result, the draw events that belong to the call itself) while a scripted draw drives the real code."""

    def __init__(self, chooser):
        self.chooser = chooser
        self.calls = []
        self.stack = []
        self.top_snapshots = []

    def __enter__(self):
        self.saved = {n: getattr(M, n) for n in WRAPPED}
        self.saved["apply_until_success"] = M.apply_until_success
        for n in WRAPPED:
            setattr(M, n, self._wrap(n, self.saved[n]))
        rec = self
        orig_aus = self.saved["apply_until_success"]

        def apply_until_success(context, draw, schema):
            r = orig_aus(context, draw, schema)
            if rec.stack:
                rec.stack[-1]["aus"].append((id(schema), r.name))
            return r

        M.apply_until_success = apply_until_success
        return self

    def __exit__(self, *exc):
        for n, f in self.saved.items():
            setattr(M, n, f)
        return False

    def _wrap(self, name, fn):
        import functools
        rec = self

        @functools.wraps(fn)
        def inner(context, draw, schema):
            frame = {"name": name, "before": copy.deepcopy(schema), "start": len(rec.chooser.events), "nested": [],
                     "aus": [], "ids": {k: id(v) for k, v in schema.get("properties", {}).items()}
                     if isinstance(schema.get("properties"), dict) else {}}
            rec.stack.append(frame)
            try:
                result = fn(context, draw, schema)
                frame["result"] = result.name
            except KeyError:
                frame["result"] = "KeyError"
                raise
            except UnsatisfiedAssumption:
                frame["result"] = "raises:reject"
                raise
            except Exception as e:  # third-party oracle refusing the schema (canonicalish: SchemaError) — outside the model
                frame["result"] = f"raises:{type(e).__name__}"
                raise
            finally:
                rec.stack.pop()
                end = len(rec.chooser.events)
                own = [e for i, e in enumerate(rec.chooser.events[frame["start"]:end], frame["start"])
                       if not any(a <= i < b for a, b in frame["nested"])]
                frame["events"] = own
                frame["after"] = copy.deepcopy(schema)
                frame["ctx"] = {"loc": context.location, "form": context.media_type == "application/x-www-form-urlencoded"}
                if rec.stack:
                    rec.stack[-1]["nested"].append((frame["start"], end))
                else:
                    rec.top_snapshots.append((frame.get("result"), copy.deepcopy(schema)))
                rec.calls.append(frame)
            return result

        return inner


def clean_schema(s, depth=0):
    """gen_schema output restricted to what OpenAPI 3.0 schema objects can contain (no boolean sub-schemas)."""
    if s is True:
        return {}
    if s is False:
        return {"not": {}}
    if not isinstance(s, dict):
        return s
    out = {}
    for k, v in s.items():
        if k in ("items", "not"):
            out[k] = clean_schema(v, depth + 1)
        elif k in ("allOf", "anyOf", "oneOf"):
            out[k] = [clean_schema(x, depth + 1) for x in v]
        elif k in ("properties", "patternProperties"):
            out[k] = {n: clean_schema(x, depth + 1) for n, x in v.items()}
        elif k == "additionalProperties":
            out[k] = v if isinstance(v, bool) else clean_schema(v, depth + 1)
        elif k == "$ref":
            continue
        elif k == "required" and not v:
            continue  # draft 4: `required` must be non-empty
        else:
            out[k] = v
    return out


def well_formed_draft4(schema):
    """hypothesis-jsonschema / canonicalish refuse schemas that violate the draft-4 metaschema (duplicate enum
    members, empty `required`, …): such documents are outside the property."""
    import jsonschema
    try:
        jsonschema.Draft4Validator.check_schema(schema)
        return True
    except Exception:
        return False


def gen_location_schema(rng, loc):
    """(schema, media_type) as negative_schema receives it for `loc` (always a well-formed draft-4 schema)."""
    while True:
        s, mt = _gen_location_schema(rng, loc)
        probe = {k: v for k, v in s.items() if not (k in ("exclusiveMinimum", "exclusiveMaximum") and
                                                     isinstance(v, int) and not isinstance(v, bool))}
        if well_formed_draft4(probe):
            return s, mt


def _gen_location_schema(rng, loc):
    if loc == "body":
        s = clean_schema(G.gen_schema(rng, rng.choice([1, 2, 2, 3]), True))
        if rng.random() < 0.5 and "type" not in s:
            s["type"] = rng.choice(["object", "array", "string", "integer", ["integer", "null"], ["object", "array"]])
        if rng.random() < 0.15:
            s["x-ext"] = 1
        if rng.random() < 0.1:
            s["example"] = 1
        mt = rng.choice(["application/json", "application/json", "application/x-www-form-urlencoded", "text/plain"])
        if s.get("type") in ("integer", "number") and rng.random() < 0.12:
            # OpenAPI 3.1 / draft 2020-12 numeric form, possibly without its draft-4 companion keyword
            s[rng.choice(["exclusiveMinimum", "exclusiveMaximum"])] = rng.randint(-2, 4)
        return s, mt
    names = rng.sample(["a", "b", "c", "X-A"], rng.randint(1, 3))
    props = {}
    for n in names:
        r = rng.random()
        if r < 0.2:
            p = {"type": "string"}
        elif r < 0.3:
            p = {}
        else:
            p = clean_schema(G.gen_schema(rng, 1, True))
        if loc in ("header", "cookie") and "type" not in p and rng.random() < 0.7:
            p["type"] = "string"
        if loc == "path" and p.get("type") == "string":
            p.setdefault("minLength", 1)
        props[n] = p
    required = list(names) if loc == "path" else [n for n in names if rng.random() < 0.5]
    return {"properties": props, "additionalProperties": False, "type": "object", "required": required}, None


def split_keywords(schema):
    from schemathesis.specs.openapi.constants import ALL_KEYWORDS
    kw = {k: v for k, v in schema.items() if k in ALL_KEYWORDS}
    nk = {k: v for k, v in schema.items() if k not in ALL_KEYWORDS}
    return kw, nk


NEGATE_VARIANT = ["asFound"]


def detect_negate_variant(chk):
    """Witness of FC02a: numeric exclusiveMinimum without minimum."""
    schema = {"type": "integer", "exclusiveMinimum": 3}
    ctx = M.MutationContext(keywords=schema, non_keywords={}, location="body", media_type="application/json")
    try:
        M.negate_constraints(ctx, FakeDraw(Chooser()), copy.deepcopy(schema))
        NEGATE_VARIANT[0] = "repaired"
    except KeyError:
        NEGATE_VARIANT[0] = "asFound"
    chk.variants["negate_constraints-dependency"] = NEGATE_VARIANT[0]


def lean_request(frame):
    """the driver request that replays one recorded call on the Lean model (None: not modelled)"""
    name, before, ev = frame["name"], frame["before"], frame["events"]
    sampled = [e[1] for e in ev if e[0] == "sampled"]
    if name == "remove_required_property":
        nm = sampled[-1] if sampled else ""
        return "removeRequired", {"schema": before, "name": nm if isinstance(nm, str) else ""}
    if name == "change_type":
        ch = sampled[-1] if sampled else ""
        return "changeType", {"schema": before, "ctx": frame["ctx"],
                              "choice": (ch if isinstance(ch, str) else "") if sampled else None}
    if name == "negate_constraints":
        cand = sampled[0] if sampled else ""
        enabled = sorted({e[2] for e in ev if e[0] == "flag" and e[1] == "keywords" and e[3]})
        return "negate", {"variant": NEGATE_VARIANT[0], "schema": before, "ctx": frame["ctx"], "canNeg": bool(can_negate(before)),
                          "candidate": cand if isinstance(cand, str) else "", "enabled": enabled}
    if name == "change_properties":
        props_after = frame["after"].get("properties") if isinstance(frame["after"].get("properties"), dict) else {}
        first = None
        by_id = {i: n for n, i in frame["ids"].items()}
        for sid, r in frame["aus"]:
            if r == "SUCCESS":
                first = by_id.get(sid)
                break
        return "changeProperties", {"schema": before, "props": props_after, "first": first}
    if name == "change_items":
        items = before.get("items")
        if isinstance(items, list):
            return None
        return "changeItems", {"schema": before, "items": frame["after"].get("items", items), "result": frame["result"]}
    return None


def well_formed_for_model(schema):
    t = schema.get("type")
    return t is None or isinstance(t, str) or (isinstance(t, list) and all(isinstance(x, str) for x in t))


def compare_calls(chk, calls, origin):
    reqs, frames = [], []
    for f in calls:
        if not well_formed_for_model(f["before"]):
            continue
        if str(f.get("result", "raises")).startswith("raises"):
            chk.feature(f"mutation:{f['name']}:{f.get('result')}")
            continue
        try:
            r = lean_request(f)
        except Exception as e:
            chk.feature(f"mutation:{f['name']}:oracle-raises:{type(e).__name__}")
            continue
        if r is None:
            chk.feature(f"mutation:{f['name']}:outside-model")
            continue
        reqs.append(r)
        frames.append(f)
    outs = chk.driver().batch(reqs)
    for f, (opname, a), m in zip(frames, reqs, outs):
        mech = f"mutation:{f['name']}"
        if "__err__" in m:
            raise InfraError(f"model error {m} on {a}")
        impl = {"result": f["result"], "schema": canon(f["after"])}
        model = {"result": m["result"], "schema": canon(m["schema"])}
        if f["result"] == "KeyError":  # the schema is left half-rebuilt when the exception escapes: compare the outcome only
            impl, model = impl["result"], model["result"]
        chk.case(mech, key=[a, origin], nontrivial=f["result"] != "FAILURE" or bool(f["before"]),
                 sample={"in": a, "impl": impl})
        chk.feature(f"{mech}:{f['result']}")
        chk.feature(f"mutation:loc={f['ctx']['loc']}")
        if impl != model:
            chk.disagreement(mech, {"op": opname, "a": a, "origin": origin}, model, impl)
        if f["name"] == "change_type" and f["result"] == "SUCCESS":
            # replay: "changing the type" negates only if no value of the new type is valid for the old ones - every integer is
            # a number and an integral float (10.0) is a valid integer, so `number` never replaces a type set holding `integer`
            t0 = f["before"].get("type")
            old = set(t0 if isinstance(t0, list) else [t0]) if t0 is not None else set()
            t1 = f["after"].get("type")
            if "integer" in old and t1 == "number":
                chk.violation("C02:change_type:integer-among-the-types-replaced-by-number",
                              f"change_type turns {f['before']!r} into type number: integral floats satisfy the original schema "
                              f"and would be sent as negative data", {"kind": "mutation", "request": a, "after": f["after"]})
        if f["result"] == "KeyError":
            chk.violation("C02:negate_constraints:KeyError-exclusive-bound-without-its-dependency",
                          "negate_constraints raises KeyError on exclusiveMinimum/exclusiveMaximum without minimum/maximum",
                          {"kind": "mutation", "request": a})


def mutations_corr(chk):
    rng = chk.rng
    n_leaf = chk.budget(1200, 20000)
    n_full = chk.budget(400, 6000)
    all_calls = []
    # (a) single leaf / composite mutations on random schemas
    for _ in range(n_leaf):
        loc = rng.choice(["body", "body", "body", "query", "header", "cookie", "path"])
        schema, mt = gen_location_schema(rng, loc)
        if loc != "body" and rng.random() < 0.6:  # go inside: the mutations also run on property schemas
            schema = rng.choice(list(schema["properties"].values()))
        ctx = M.MutationContext(keywords=schema, non_keywords={}, location=loc, media_type=mt)
        ch = Chooser(rng=rng)
        name = rng.choice(WRAPPED)
        with Recorder(ch) as rec:
            try:
                getattr(M, name)(ctx, FakeDraw(ch), copy.deepcopy(schema))
            except InfraError:
                raise
            except Exception:
                pass
        all_calls += [(c, "single") for c in rec.calls]
    # (b) whole `MutationContext.mutate` runs
    tail_reqs, tail_obs = [], []
    for _ in range(n_full):
        loc = rng.choice(["body", "body", "query", "header", "cookie", "path"])
        schema, mt = gen_location_schema(rng, loc)
        kw, nk = split_keywords(schema)
        if not well_formed_for_model(kw):
            continue
        ctx = M.MutationContext(keywords=kw, non_keywords=nk, location=loc, media_type=mt)
        ch = Chooser(rng=rng)
        with Recorder(ch) as rec:
            try:
                out = ctx.mutate(FakeDraw(ch))
                impl = {"schema": canon(out)}
            except UnsatisfiedAssumption:
                impl = "reject"
            except InfraError:
                raise
            except Exception:
                impl = "KeyError"
        all_calls += [(c, "mutate") for c in rec.calls]
        if impl == "KeyError" or not rec.top_snapshots:
            continue
        results = [r for r, _ in rec.top_snapshots]
        last = rec.top_snapshots[-1][1]
        bools = [e[1] for e in ch.events if e[0] == "bool"]
        a = {"ctx": {"loc": loc, "form": mt == "application/x-www-form-urlencoded"}, "results": results,
             "schema": last, "nonKeywords": nk, "extraHeaders": bools[-1] if bools else False}
        if not well_formed_for_model(last):
            continue
        tail_reqs.append(("mutateTail", a))
        tail_obs.append(impl)
    compare_calls(chk, [c for c, _ in all_calls], "random")
    outs = chk.driver().batch(tail_reqs)
    for (_, a), impl, m in zip(tail_reqs, tail_obs, outs):
        if isinstance(m, dict) and "__err__" in m:
            raise InfraError(f"model error {m} on {a}")
        model = m if isinstance(m, str) else {"schema": canon(m["schema"])}
        chk.case("mutation:mutate-tail", key=a, nontrivial=impl != "reject", sample={"in": a, "impl": impl})
        chk.feature(f"mutation:mutate-tail:{'reject' if impl == 'reject' else 'schema'}")
        if model != impl:
            chk.disagreement("mutation:mutate-tail", a, model, impl)


# ---- real draws ------------------------------------------------------------------------------------------------------

PRIM_SCHEMAS = [
    {"type": "integer"}, {"type": "integer", "minimum": 2}, {"type": "integer", "minimum": 0, "maximum": 5},
    {"type": "number", "maximum": 3}, {"type": "boolean"}, {"type": "string"}, {"type": "string", "minLength": 2},
    {"type": "string", "maxLength": 3}, {"type": "string", "enum": ["a", "b"]}, {"type": "integer", "enum": [1, 2, 3]},
    {"type": "string", "pattern": "^[a-c]+$"}, {}, {"type": "integer", "multipleOf": 2},
    {"type": "array", "items": {"type": "integer"}}, {"type": "integer", "nullable": True},
]
NAMES = {"path": ["id", "key"], "query": ["q", "r"], "header": ["X-A", "X-B"], "cookie": ["c", "d"]}


def gen_real_operation(rng):
    """A raw OpenAPI operation + the declared per-location schemas the replay judges against."""
    params, declared = [], {}
    for loc in ("path", "query", "header", "cookie"):
        k = rng.choice([0, 1, 1, 2]) if loc != "path" else rng.choice([0, 1, 1, 2])
        props, required = {}, []
        for name in NAMES[loc][:k]:
            sch = copy.deepcopy(rng.choice(PRIM_SCHEMAS))
            if loc != "query" and sch.get("type") == "array":
                sch = {"type": "integer"}
            req = loc == "path" or rng.random() < 0.5
            p = {"name": name, "in": loc, "schema": sch}
            if req:
                p["required"] = True
                required.append(name)
            params.append(p)
            props[name] = sch
        declared[loc] = {"type": "object", "properties": props, "required": required, "additionalProperties": False} if props else None
    d = {"parameters": params, "responses": {"200": {"description": "OK"}}}
    body = None
    if rng.random() < 0.7:
        content = {}
        for mt in MEDIA[: rng.choice([1, 1, 2])]:
            sch = clean_schema(G.gen_schema(rng, rng.choice([1, 2, 2]), True))
            while not well_formed_draft4(sch):
                sch = clean_schema(G.gen_schema(rng, rng.choice([1, 2, 2]), True))
            if rng.random() < 0.15:
                sch = rng.choice([{}, {"type": "string"}, {"additionalProperties": {"type": "integer"}, "type": "object"}])
            if rng.random() < 0.1 and isinstance(sch, dict) and "type" in sch:
                sch["nullable"] = True
            content[mt] = {"schema": sch}
        body = {"required": rng.random() < 0.5, "content": content}
        d["requestBody"] = body
    template = "/r" + "".join(f"/{{{p['name']}}}" for p in params if p["in"] == "path")
    return template, d, declared, body


def inexact(x):
    """numbers that the float-based jsonschema and the exact-decimal Lean semantics may read differently"""
    if isinstance(x, bool) or x is None or isinstance(x, (str, int)):
        return False
    if isinstance(x, float):
        return not (abs(x) < 1e15 and float(f"{x:.6g}") == x)
    if isinstance(x, dict):
        return any(inexact(v) for v in x.values())
    if isinstance(x, (list, tuple)):
        return any(inexact(v) for v in x)
    return True


class _OutOfTime(Exception):
    pass


def draw_real(strategy, n, seed_, time_limit=None):
    out = []
    if time_limit is not None:
        # quick tier: an operation whose strategy (almost) starves costs Hypothesis ~1000 attempts; give up instead
        stop_at, inner = time.time() + time_limit, strategy

        @st.composite
        def timed(draw):
            if time.time() > stop_at:
                raise _OutOfTime()
            return draw(inner)

        strategy = timed()

    @hypothesis.seed(seed_)
    @settings(max_examples=n, database=None, suppress_health_check=list(HealthCheck), phases=[Phase.generate],
              deadline=None, derandomize=False)
    @given(x=strategy)
    def collect(x):
        out.append(x)

    try:
        collect()
        return out, None
    except _OutOfTime:
        return out, "error:time-limit"
    except SkipTest:
        return out, "skip"
    except Unsatisfiable:
        return out, "reject"
    except KeyError as e:
        return out, f"KeyError:{e}"
    except (hypothesis.errors.InvalidArgument, hypothesis.errors.FailedHealthCheck) as e:
        return out, f"error:{type(e).__name__}"  # contradictory generated schema (minLength > maxLength …): not judged
    except (hypothesis.errors.Flaky, hypothesis.errors.FlakyStrategyDefinition, BaseExceptionGroup):
        # Hypothesis re-runs the execution that raised _OutOfTime and finds it "flaky" (the clock moved on)
        if time_limit is not None and time.time() > stop_at:
            return out, "error:time-limit"
        raise


WIRE_PANEL = ["a", "0", "-1", "1.5", "true", "null", "ab c", "x" * 12, "é"]
KF_STRING_PATH = "C02:can_negate_path_parameters:string-only-path-parameters-treated-as-negatable"
UNIVERSE = [None, True, False, 0, 1, -3, 2.5, "", "a", "ab c", [], [1], ["a", None], {}, {"a": 1}, {"a": "x", "zz": [1]}]


def diagnose_unsatisfiable(chk, op, key, impl):
    """No case although `can_negate` says some input is negatable: find the location whose negative strategy yields
    nothing and decide whether its schema is semantically universal (then `can_negate`'s syntactic test missed it)."""
    cfg = GenerationConfig(modes=[GenerationMode.NEGATIVE])
    culprits = []
    for loc in ("path", "header", "cookie", "query"):
        desc_gen = H.generate_parameter  # noqa: F841  (documentation: same fallback rule as the code)
        params = getattr(op, {"path": "path_parameters", "header": "headers", "cookie": "cookies", "query": "query"}[loc])
        if not params:
            continue
        negative = not ((loc == "path" and not H.can_negate_path_parameters(op)) or
                        (loc in ("header", "cookie") and not H.can_negate_headers(op, loc)))
        if not negative:
            continue
        vals, stop = draw_real(H.get_parameters_strategy(op, H.make_negative_strategy, loc, cfg), 5, 1)
        if not vals:
            culprits.append((loc, H.get_schema_for_location(op, loc, params)))
    for item in (op.body.items if op.body else []):
        s = item.as_json_schema(op)
        if not can_negate(s):
            continue
        vals, stop = draw_real(H._get_body_strategy(item, H.make_negative_strategy, op, cfg), 5, 1)
        if not [v for v in vals if not isinstance(v, type(NOT_SET))]:
            culprits.append(("body", s))
    if not culprits:
        chk.notes.append(f"Hypothesis found no example for a satisfiable negative strategy (seed {key['hypothesis_seed']}); not judged")
        chk.feature("labels:real:unsatisfiable-not-reproduced")
        return
    drv = chk.driver()
    for loc, schema in culprits:
        rep = {"kind": "real", **key, "location": loc, "schema": schema, "outcome": impl}
        if loc == "path":
            # path parameters are always present and always strings on the wire: can any spelling violate the schema?
            names = list(schema.get("properties", {}))
            panel = [{n: w for n in names} for w in WIRE_PANEL]
            outs = drv.batch([("part", {"env": G.lean_env(schema, v), "schema": schema, "value": v}) for v in panel])
            if all(o["coerced"] is True for o in outs):
                chk.violation(KF_STRING_PATH, "can_negate_path_parameters treats string-only path parameters as negatable: "
                              "every mutation fails, every draw is rejected and the operation ends Unsatisfiable although "
                              "other inputs can be negated", rep)
                continue
        outs = drv.batch([("valid", {"env": G.lean_env(schema, v), "schema": schema, "instance": v}) for v in UNIVERSE])
        universal = all(o is True for o in outs)
        if universal:
            chk.violation(f"C02:can_negate:universal-schema-not-recognised:{loc}",
                          "can_negate (canonicalish(schema) != {}) accepts a schema that every instance satisfies; its "
                          "negative strategy is empty and the operation ends Unsatisfiable instead of falling back", rep)
        else:
            chk.violation(f"C02:negative_schema:{loc}:no-negative-value-found-for-a-negatable-schema",
                          "the negative strategy of a schema that can be violated yields nothing", rep)


def negatable_designed(chk):
    """The converse clause on designed operations: one input that can certainly be violated (and nothing else to violate),
    real Hypothesis, negative mode only and both modes: the operation must get cases, and in negative-only mode the part is
    labelled negative (a location that CAN be negated is never generated positively only)."""
    single = [
        ("optional-integer-header", [{"name": "X-Page-Size", "in": "header", "schema": {"type": "integer"}}], None, "headers"),
        ("optional-boolean-cookie", [{"name": "debug", "in": "cookie", "schema": {"type": "boolean"}}], None, "cookies"),
        ("optional-array-header", [{"name": "X-Ids", "in": "header", "schema": {"type": "array", "items": {"type": "integer"}}}], None, "headers"),
        ("required-integer-query", [{"name": "n", "in": "query", "required": True, "schema": {"type": "integer"}}], None, "query"),
        ("integer-path", [{"name": "id", "in": "path", "required": True, "schema": {"type": "integer"}}], None, "path_parameters"),
        ("integer-body", [], {"type": "integer"}, "body"),
        ("enum-header", [{"name": "X-Mode", "in": "header", "required": True, "schema": {"type": "string", "enum": ["fast", "slow"]}}], None, "headers"),
    ]
    # an earlier document of the same process: same path, method and media type, but a body nothing can violate.  Whether an
    # input can be negated is a fact about the operation at hand, not about another document's operation with the same label
    twin = {"openapi": "3.0.2", "info": {"title": "earlier", "version": "1"}, "paths": {"/n": {"post": {
        "requestBody": {"required": True, "content": {"application/json": {"schema": {}}}}, "responses": {"200": {"description": "OK"}}}}}}
    draw_real(schemathesis.openapi.from_dict(twin)["/n"]["POST"].as_strategy(
        generation_mode=GenerationMode.NEGATIVE, generation_config=GenerationConfig(modes=[GenerationMode.NEGATIVE])), 2, chk.seed + 30, 10)
    chk.feature("negatable:designed:earlier-document-with-the-same-label")
    single.append(("object-body-with-required-member", [], {"type": "object", "properties": {"x": {"type": "integer"}},
                                                           "required": ["x"], "additionalProperties": False}, "body"))
    for tag, params, body, kind in single:
        d = {"parameters": params, "responses": {"200": {"description": "OK"}}}
        if body is not None:
            d["requestBody"] = {"required": True, "content": {"application/json": {"schema": body}}}
        template = "/n/{id}" if any(p["in"] == "path" for p in params) else "/n"
        raw = {"openapi": "3.0.2", "info": {"title": "t", "version": "1"}, "paths": {template: {"post": d}}}
        op = schemathesis.openapi.from_dict(raw)[template]["POST"]
        for modes in ([GenerationMode.NEGATIVE], [GenerationMode.POSITIVE, GenerationMode.NEGATIVE]):
            cfg = GenerationConfig(modes=list(modes))
            cases, stop = draw_real(op.as_strategy(generation_mode=GenerationMode.NEGATIVE, generation_config=cfg), 25, chk.seed + 31, 20)
            key = {"operation": d, "modes": [m.value for m in modes], "designed": tag}
            chk.case("negatable:designed", key=key, nontrivial=True, sample={**key, "cases": len(cases), "stopped": stop})
            chk.feature(f"negatable:designed:{tag}:{'cases' if cases else stop}")
            if stop == "error:time-limit":
                continue
            if cases and stop == "skip":
                chk.violation("C02:negative:operation-with-a-negatable-input-reported-as-impossible-to-negate",
                              f"{tag}: after {len(cases)} negative cases the run ends with 'Impossible to generate negative test "
                              f"cases' although the only input of the operation can certainly be violated",
                              {"kind": "designed", **key})
                continue
            if not cases:
                chk.violation("C02:negative:operation-with-a-negatable-input-gets-no-negative-case",
                              f"{tag}: the only input of the operation can certainly be violated, yet negative generation "
                              f"({[m.value for m in modes]}) ends with '{stop}' and no case", {"kind": "designed", **key})
                continue
            if len(modes) == 1:
                unl = [c for c in cases if {k.value: v.mode.value for k, v in c.meta.components.items()}.get(kind) != "negative"]
                if unl:
                    chk.violation("C02:negative:negatable-part-not-labelled-negative",
                                  f"{tag}: a negative-mode case does not label its only negatable part ({kind}) negative",
                                  {"kind": "designed", **key})


def labels_real(chk, variant):
    rng = chk.rng
    n_ops, n_draws = chk.budget(10, 90), chk.budget(10, 15)
    judged = []
    reqs, obs = [], []
    started = time.time()
    for i in range(n_ops):
        template, d, declared, body = gen_real_operation(rng)
        if not chk.thorough and time.time() - started > 25:
            # quick tier on a loaded machine: the remaining operations are left to the other seeds / the thorough tier
            # (the generator is still consumed in the same way, so the later mechanisms see the same inputs)
            chk.feature("labels:real:quick-time-budget-reached")
            chk.notes.append(f"labels:real: operation {i + 1} of {n_ops} not drawn (25 s budget of the quick tier)")
            rng.random()
            continue
        raw = {"openapi": "3.0.2", "info": {"title": "t", "version": "1"}, "paths": {template: {"post": d}}}
        op = schemathesis.openapi.from_dict(raw)[template]["POST"]
        desc = describe(op)
        for modes in ([GenerationMode.NEGATIVE], [GenerationMode.POSITIVE, GenerationMode.NEGATIVE]):
            if len(modes) == 2 and rng.random() < 0.5:
                continue
            cfg = GenerationConfig(modes=list(modes))
            strat = op.as_strategy(generation_mode=GenerationMode.NEGATIVE, generation_config=cfg)
            cases, stop = draw_real(strat, n_draws, chk.seed * 100003 + i, None if chk.thorough else 6)
            if stop == "error:time-limit":
                chk.notes.append(f"labels:real: operation {i + 1} given up after 6 s (quick tier); not judged")
            chk.feature(f"labels:real:outcome={stop if stop == 'error:time-limit' else stop.split(':')[0] if stop else 'cases'}")
            key = {"operation": d, "modes": [m.value for m in modes], "hypothesis_seed": chk.seed * 100003 + i}
            if stop and stop.startswith("KeyError"):
                chk.violation("C02:negate_constraints:KeyError-exclusive-bound-without-its-dependency",
                              "negative-mode generation raises KeyError", {"kind": "real", **key})
                continue
            if stop and stop.startswith("error"):
                continue
            if stop in ("skip", "reject") and not cases:
                a = {"variant": variant, "op": desc, "only": len(modes) == 1, "mode": "negative",
                     "draws": {"path": None, "header": None, "cookie": None, "query": None, "bodyIdx": 0,
                               "body": {"set": True, "value": 1}}}
                reqs.append(("labels", a))
                obs.append((key, stop, None, op, declared, body, modes))
            for case in cases:
                conts = {}
                a = {"variant": variant, "op": desc, "only": len(modes) == 1, "mode": "negative",
                     "draws": real_draws(op, case)}
                reqs.append(("labels", a))
                obs.append((key, observed(case), case, op, declared, body, modes))
    outs = chk.driver().batch(reqs)
    for (key, impl, case, op, declared, body, modes), m, (_, a) in zip(obs, outs, reqs):
        if "__err__" in m:
            raise InfraError(f"model error {m} on {a}")
        if case is None:
            # no case at all: the model must say "nothing negatable"
            chk.case("labels:real", key=key, nontrivial=True, sample={"in": key, "impl": impl})
            expected = "skip" if len(modes) == 1 else "reject"
            if m["negatable"]:
                diagnose_unsatisfiable(chk, op, key, impl)
            elif impl != expected:
                chk.violation("C02:openapi_cases:not-skipped-although-nothing-negatable",
                              f"nothing negatable: expected {expected}, observed {impl}", {"kind": "real", **key})
            continue
        mo = model_outcome(m)
        chk.case("labels:real", key=[key, a["draws"]], nontrivial=True, sample={"in": key, "impl": impl})
        if mo != impl:
            chk.disagreement("labels:real", {**key, "lean": a}, mo, impl)
        judged.append((key, modes, key["hypothesis_seed"], case, op, declared, body))
    judge_real(chk, judged)


def real_draws(op, case):
    d = {}
    for loc, attr in (("path", "path_parameters"), ("header", "headers"), ("cookie", "cookies"), ("query", "query")):
        v = getattr(case, attr)
        d[loc] = None if v is None else canon(dict(v))
    b = case.body
    idx = 0
    if op.body:
        # candidates as openapi_cases computes them
        items = list(op.body.items)
        cands = [i for i in items if can_negate(i.as_json_schema(op))] or items
        for j, it in enumerate(cands):
            if it.media_type == case.media_type:
                idx = j
    d["bodyIdx"] = idx
    d["body"] = {"set": not isinstance(b, type(NOT_SET)), "value": None if isinstance(b, type(NOT_SET)) else canon(b)}
    return d


def judge_real(chk, items):
    """Every labelled part of a real case, judged against the *declared* (raw OpenAPI) schema in request mode."""
    drv = chk.driver()
    reqs, index = [], []
    items = [tuple(it) + (None,) * (8 - len(it)) for it in items]
    for n, (key, modes, seed_, case, op, declared, body, strip) in enumerate(items):
        for kind in KINDS:
            loc = LOC_OF_KIND[kind]
            value = getattr(case, kind)
            if kind == "body":
                if isinstance(value, type(NOT_SET)) or not body:
                    continue
                mt = case.media_type if case.media_type in body["content"] else None
                if mt is None:
                    continue
                schema, v = body["content"][mt]["schema"], canon(value)
            else:
                if value is None or declared[loc] is None:
                    continue
                schema = declared[loc]
                v = {str(k): canon(unquote_path(x) if loc == "path" else x) for k, x in dict(value).items()
                     if not (strip and k in strip.get(loc, ()))}
            if inexact(v):
                chk.feature("replay:real:skipped-inexact-number")
                index.append((n, kind, None))
                continue
            env = G.lean_env(schema, v, oas="request")
            reqs.append(("part", {"env": env, "schema": schema, "value": v}))
            index.append((n, kind, len(reqs) - 1))
            # cross-oracle on the raw judgement (nullable rewritten for jsonschema)
    outs = drv.batch(reqs)
    verdicts: dict = {}
    unjudged = set()
    for n, kind, ri in index:
        if ri is None:
            unjudged.add((n, kind))
            continue
        o = outs[ri]
        if "__err__" in o:
            raise InfraError(f"spec error {o} on {reqs[ri]}")
        ref = js_request_valid(reqs[ri][1]["schema"], reqs[ri][1]["value"])
        if ref is not None and ref != o["raw"]:
            raise InfraError(f"Lean validF (request mode) != jsonschema on {json.dumps(reqs[ri][1])[:600]}: lean={o['raw']} ref={ref}")
        verdicts.setdefault(n, {})[kind] = o
    for n, (key, modes, seed_, case, op, declared, body, _strip) in enumerate(items):
        meta = case.meta
        v = verdicts.get(n, {})
        comps = {k.value: c.mode.value for k, c in meta.components.items()}
        rep = {"kind": "real", **key, "components": comps,
               "values": {k: ("<absent>" if (isinstance(getattr(case, k), type(NOT_SET)) if k == "body" else getattr(case, k) is None)
                              else canon(getattr(case, k))) for k in KINDS},
               "media_type": case.media_type, "verdicts": v}
        if meta.generation.mode.value != "negative":
            chk.violation("C02:openapi_cases:case-not-labelled-negative", "negative-mode case not labelled negative", rep)
        any_neg = False
        for k, mode in comps.items():
            value = getattr(case, k)
            absent = isinstance(value, type(NOT_SET)) if k == "body" else value is None
            chk.feature(f"replay:real:{k}:{mode}:{'absent' if absent else 'present'}")
            if mode == "negative":
                if absent:
                    if k == "body":
                        chk.violation(KF_ABSENT_BODY, "an optional body drawn as absent (NOT_SET) is labelled negative", rep)
                    else:
                        chk.violation(KF_NONE_LOCATION, f"location {k} has no parameters (value None) but carries a "
                                                        "'negative' component label", rep)
                    continue
                if (n, k) in unjudged or k not in v:
                    any_neg = True
                    continue
                any_neg = True
                if v[k]["raw"]:
                    spelled = k in ("query", "path_parameters") and any(
                        x in ("true", "false", "null") for x in dict(value).values() if isinstance(x, str))
                    if spelled:
                        chk.violation(f"{KF_JSONIFY}:{LOC_OF_KIND[k]}", f"a {k} value that passed the final filter as True/"
                                      "False/None is spelled 'true'/'false'/'null' afterwards "
                                      "(jsonify_python_specific_types) and conforms to the declared schema, yet is "
                                      "labelled negative", rep)
                    elif k == "body" and case.media_type in H.MEDIA_TYPES:
                        chk.violation(KF_CUSTOM_MEDIA, "the body comes from the strategy registered for its media type "
                                      "(the user's own, conforming data) and is labelled negative", rep)
                    else:
                        chk.violation(f"C02:negative-label:{k}:value-conforms", f"the {k} part is labelled negative but "
                                      "conforms to the declared schema", rep)
                elif k != "body" and v[k]["coerced"]:
                    chk.violation(KF_WIRE, f"the {k} part is labelled negative but its wire spelling conforms to the "
                                           "declared schema", rep)
            else:
                if absent:
                    required = (k == "body" and body and body.get("required")) or \
                               (k != "body" and declared[LOC_OF_KIND[k]] and declared[LOC_OF_KIND[k]]["required"])
                    if required:
                        chk.violation(f"C02:positive-label:{k}:required-part-absent", f"the {k} part is labelled positive "
                                      "but is absent although required", rep)
                    continue
                if (n, k) in unjudged or k not in v:
                    continue
                ok = v[k]["raw"] if k == "body" else (v[k]["raw"] or v[k]["coerced"])
                if not ok:
                    chk.violation(f"C02:positive-label:{k}:value-violates", f"the {k} part is labelled positive but "
                                  "violates the declared schema", rep)
        if not any_neg and not any(m == "negative" for m in comps.values()):
            # (negative labels on absent parts only were reported above under their own signatures)
            chk.violation("C02:openapi_cases:no-negative-part", "no part of the negative case is labelled negative", rep)


def js_request_valid(schema, value):
    """jsonschema Draft4 on the schema with `nullable` rewritten (cross-oracle for request-mode validF)."""
    def rw(s):
        if isinstance(s, dict):
            out = {k: (rw(v) if k not in ("enum", "const", "example", "default") else v) for k, v in s.items() if k != "nullable"}
            if s.get("nullable") is True:
                return {"anyOf": [out, {"type": "null"}]}
            return out
        if isinstance(s, list):
            return [rw(x) for x in s]
        return s
    try:
        return G.js_valid(rw(schema), value, True)
    except Exception:
        return None


def filter_replay(chk):
    """`negative_schema(...)` on random location schemas: every drawn value must violate the schema (Lean validF,
    draft-4 reading, as the code's own validator) — replay of `filter_guarantee`."""
    rng = chk.rng
    n_schemas, n_draws = chk.budget(40, 400), chk.budget(6, 15)
    cfg = GenerationConfig(modes=[GenerationMode.NEGATIVE])
    reqs, meta = [], []
    for i in range(n_schemas):
        loc = rng.choice(["body", "body", "query", "header", "cookie", "path"])
        schema, mt = gen_location_schema(rng, loc)
        if mt == "application/x-www-form-urlencoded":
            mt = "application/json"
        for k in ("exclusiveMinimum", "exclusiveMaximum"):
            if isinstance(schema.get(k), int) and not isinstance(schema.get(k), bool):
                schema.pop(k)
        if not can_negate(schema):
            continue
        strat = H.make_negative_strategy(copy.deepcopy(schema), f"POST /f{i}", loc, mt, cfg)
        values, stop = draw_real(strat, n_draws, chk.seed * 7919 + i)
        chk.feature(f"filter:{loc}:{'values' if values else (stop or 'none')}")
        for v in values:
            cv = canon(v)
            if inexact(cv):
                chk.feature("filter:skipped-inexact-number")
                continue
            reqs.append(("valid", {"env": G.lean_env(schema, cv), "schema": schema, "instance": cv}))
            meta.append((loc, schema, cv, i))
    outs = chk.driver().batch(reqs)
    for (loc, schema, v, i), o in zip(meta, outs):
        ref = None
        try:
            ref = G.js_valid(schema, v, True)
        except Exception:
            pass
        if ref is not None and ref != o:
            raise InfraError(f"Lean validF != jsonschema: schema={json.dumps(schema)} instance={json.dumps(v)[:300]} lean={o} ref={ref}")
        chk.case("negative_schema:filter", key=[schema, v], nontrivial=True, sample={"schema": schema, "value": v})
        if o is True:
            chk.violation(f"C02:negative_schema:{loc}:value-conforms-to-the-original-schema",
                          "a value drawn from negative_schema is valid against the original schema",
                          {"kind": "filter", "location": loc, "schema": schema, "value": v, "hypothesis_seed": chk.seed * 7919 + i})


def wire_witness(chk):
    """Deterministic witness of F9 on the real code: a mutated cookie schema (real `mutate`, scripted draw) admits
    {"c": "3"}; the real final filter of `negative_schema` lets it through; on the wire it is `c=3`, a valid integer."""
    import jsonschema
    from hypothesis.strategies._internal.flatmapped import FlatMapStrategy
    schema = {"properties": {"c": {"type": "integer"}}, "additionalProperties": False, "type": "object", "required": []}
    value = {"c": "3"}
    cfg = GenerationConfig(modes=[GenerationMode.NEGATIVE])
    strat = H.make_negative_strategy(copy.deepcopy(schema), "GET /wire-witness", "cookie", None, cfg)
    while isinstance(strat, LazyStrategy):
        strat = strat.wrapped_strategy
    if not isinstance(strat, FlatMapStrategy):
        chk.notes.append("wire witness: negative_schema is no longer mutated(...).flatmap(...); witness not replayed")
        return
    base = strat.base if hasattr(strat, "base") else strat.flatmapped_strategy
    while isinstance(base, LazyStrategy):
        base = base.wrapped_strategy
    rng = __import__("random").Random(20260929)
    for _ in range(300):
        try:
            mutated = base.definition(FakeDraw(Chooser(rng=rng)), *base.args, **base.kwargs)
        except UnsatisfiedAssumption:
            continue
        try:
            if not jsonschema.Draft4Validator(mutated).is_valid(value):
                continue
        except Exception:
            continue
        filtered = strat.expand(mutated)
        while isinstance(filtered, LazyStrategy):
            filtered = filtered.wrapped_strategy
        if not isinstance(filtered, FilteredStrategy):
            return
        passes = all(cond(value) for cond in filtered.flat_conditions)
        o = chk.driver().one("part", {"env": G.lean_env(schema, value), "schema": schema, "value": value})
        chk.case("witness:wire", key="c=3", nontrivial=True, sample={"mutated": canon(mutated), "value": value, "filter_passes": passes})
        chk.variants["final-filter"] = "asFound" if passes else "repaired"
        if passes and o["raw"] is False and o["coerced"] is True:
            chk.violation(KF_WIRE, "the cookies part {'c': '3'} passes the final filter of negative_schema (labelled "
                          "negative) but its wire spelling conforms to c: integer",
                          {"kind": "wire-witness", "schema": schema, "mutated": canon(mutated), "value": value})
        return
    chk.notes.append("wire witness: no mutated schema admitting {'c': '3'} found in 300 scripted mutations")


class GuidedChooser(Chooser):
    """Replays a recorded leaf-mutation request: sampled_from picks the recorded value, flags follow `enabled`."""

    def __init__(self, wanted, enabled):
        super().__init__()
        self.wanted, self.enabled = wanted, set(enabled)


class GuidedDraw(FakeDraw):
    def __call__(self, strategy, label=None):
        s = strategy
        while isinstance(s, LazyStrategy):
            s = s.wrapped_strategy
        if isinstance(s, SampledFromStrategy):
            elems = list(s.elements)
            for w in self.chooser.wanted:
                if w in elems:
                    return w
            return elems[0]
        if isinstance(s, SharedStrategy):
            ch = self.chooser

            class _F:
                def is_enabled(self, name):
                    return name in ch.enabled
            return _F()
        return super().__call__(strategy, label)


# ---- explicitly supplied values ---------------------------------------------------------------------------------------

KF_SUPPLIED_COUNTED = {"header": "C02:can_negate_headers:supplied-parameters-counted:remaining-string-only",
                       "cookie": "C02:can_negate_headers:supplied-parameters-counted:remaining-string-only",
                       "path": "C02:can_negate_path_parameters:supplied-parameters-counted:remaining-string-only"}
KF_EQUAL_TO_EXPLICIT = "C02:generate_parameter:value-equal-to-explicit-drops-generator:SkipTest"
KF_JSONIFY = "C02:get_parameters_strategy:jsonify-after-the-final-filter:value-conforms"
KF_CUSTOM_MEDIA = "C02:openapi_cases:registered-media-type-strategy-labelled-negative"
CUSTOM_MEDIA = "application/x-verif"
CUSTOM_SCHEMA = {"type": "string", "format": "binary"}
CUSTOM_MEDIA_VARIANTS = [CUSTOM_MEDIA + "; charset=utf-8", CUSTOM_MEDIA.upper()]
CUSTOM_SENTINEL = b"DEMO"
KF_CUSTOM_VARIANT = "C02:openapi_cases:registered-strategy-used-for-another-media-type-and-labelled-negative"
BODY_VARIANT = ["asFound"]
EXPLICIT_KW = {"path": "path_parameters", "header": "headers", "cookie": "cookies", "query": "query"}
PARAM_LOCS = ("path", "header", "cookie", "query")
X_VARIANTS = {"labels": "repaired", "exclusion": "asFound", "unchanged": "asFound"}


def _has_not_set_branch(s):
    while isinstance(s, LazyStrategy):
        s = s.wrapped_strategy
    if not isinstance(s, OneOfStrategy):
        return False
    for b in s.original_strategies:
        while isinstance(b, LazyStrategy):
            b = b.wrapped_strategy
        if isinstance(b, JustStrategy) and isinstance(b.value, type(NOT_SET)):
            return True
    return False


class Tap:
    """Observation points inside the real `openapi_cases` machinery (no behaviour is changed unless `scripted`):
      * the two strategy factories (what schema they are asked for) — replaced by known-value strategies if `scripted`;
      * `get_parameters_strategy` (which strategy a location gets: `st.none()` or a factory strategy, also when the
        answer comes from `_PARAMETER_STRATEGIES_CACHE`);
      * `get_parameters_value` (what was drawn for the location, before merging with the explicit part);
      * `ValueContainer` (value and generator per location, also for skipped / rejected executions);
      * `_get_body_strategy` (registered media-type strategy / factory strategy with or without the NOT_SET alternative,
        also when the answer comes from `_BODY_STRATEGIES_CACHE`).
    One record per execution of the `openapi_cases` body."""

    def __init__(self, scripted):
        self.scripted = scripted
        self.records, self.memo, self.keep, self.factory_calls = [], {}, [], []

    def new_record(self):
        self.records.append({"draws": {}, "attempted": [], "strats": {}, "containers": {}, "case": None})
        return self.records[-1]

    def __enter__(self):
        tap = self
        self.saved = (H.make_positive_strategy, H.make_negative_strategy, dict(H.GENERATOR_MODE_TO_STRATEGY_FACTORY),
                      H.get_parameters_strategy, H.get_parameters_value, H.ValueContainer, H._get_body_strategy)
        real_pos, real_neg, _, real_gps, real_gpv, real_vc, real_gbs = self.saved
        self.bmemo = {}

        def gbs(parameter, strategy_factory, operation, generation_config):
            n = len(tap.factory_calls)
            strat = real_gbs(parameter, strategy_factory, operation, generation_config)
            if any(strat is r for r in H.MEDIA_TYPES.values()):
                # a registered strategy object, under whatever key it was found
                obs = "custom"
            else:
                if len(tap.factory_calls) > n:
                    tap.bmemo[id(strat)] = tap.factory_calls[-1][1]
                    tap.keep.append(strat)
                obs = {"factory": tap.bmemo.get(id(strat), "unknown"), "orAbsent": _has_not_set_branch(strat)}
            if tap.records:
                tap.records[-1]["bodyStrat"] = {"media_type": parameter.media_type, "obs": obs}
            return strat

        def note(schema, location, mode):
            props = schema.get("properties") if isinstance(schema.get("properties"), dict) else {}
            req = schema.get("required") if isinstance(schema.get("required"), list) else []
            tap.factory_calls.append((location, mode, sorted(map(str, props)), sorted(map(str, req))))

        def pos(schema, operation_name, location, media_type, generation_config, custom_formats=None):
            note(schema, location, "positive")
            if tap.scripted:
                return st.sampled_from(scripted_values(schema, location, True))
            return real_pos(schema, operation_name, location, media_type, generation_config, custom_formats)

        def neg(schema, operation_name, location, media_type, generation_config, custom_formats=None):
            note(schema, location, "negative")
            if tap.scripted:
                return st.sampled_from(scripted_values(schema, location, False))
            return real_neg(schema, operation_name, location, media_type, generation_config, custom_formats)

        def gps(operation, strategy_factory, location, generation_config, exclude=()):
            n = len(tap.factory_calls)
            strat = real_gps(operation, strategy_factory, location, generation_config, exclude=exclude)
            if len(tap.factory_calls) > n:
                _, mode, props, req = tap.factory_calls[-1]
                obs = {"factory": mode, "props": props, "required": req}
                tap.memo[id(strat)] = obs
                tap.keep.append(strat)
            else:
                # no factory was asked now, nor when this (cached) object was built: nothing is generated here
                obs = tap.memo.get(id(strat), "none")
            if tap.records:
                tap.records[-1]["strats"][location] = obs
            return strat

        def gpv(value, location, draw, operation, context, hooks, strategy_factory, generation_config):
            last = tap.records[-1] if tap.records else None
            fresh = last is None or location in last["attempted"] or "body" in last["containers"] or last["case"] is not None
            rec = tap.new_record() if fresh else last
            rec["attempted"].append(location)

            def tapped(strategy, label=None):
                v = draw(strategy)
                rec["draws"][location] = copy.deepcopy(v)
                return v

            return real_gpv(value, location, tapped, operation, context, hooks, strategy_factory, generation_config)

        class Recording(real_vc):
            __slots__ = ()

            def __init__(self, *a, **k):
                super().__init__(*a, **k)
                if tap.records:
                    tap.records[-1]["containers"][self.location] = self

        H.make_positive_strategy, H.make_negative_strategy = pos, neg
        H.GENERATOR_MODE_TO_STRATEGY_FACTORY[GenerationMode.POSITIVE] = pos
        H.GENERATOR_MODE_TO_STRATEGY_FACTORY[GenerationMode.NEGATIVE] = neg
        H.get_parameters_strategy, H.get_parameters_value, H.ValueContainer = gps, gpv, Recording
        H._get_body_strategy = gbs
        return self

    def __exit__(self, *exc):
        (H.make_positive_strategy, H.make_negative_strategy, table, H.get_parameters_strategy, H.get_parameters_value,
         H.ValueContainer, H._get_body_strategy) = self.saved
        H.GENERATOR_MODE_TO_STRATEGY_FACTORY.clear()
        H.GENERATOR_MODE_TO_STRATEGY_FACTORY.update(table)
        return False


def scripted_values(schema, location, positive):
    """Values of known validity for the (possibly reduced) location schema; the negative factory may also omit every
    parameter (only when one is required, so that `{}` really violates the schema)."""
    base = known_value(schema, location, positive)
    if location == "body":
        return [base]
    out = [base]
    required = schema.get("required") or []
    if not positive and required:
        out.append({})
    return out


X_PARAMS = {
    "path": {"none": [], "neg": [("p", {"type": "integer"})], "str": [("p", {"type": "string"})],
             "mixed": [("p", {"type": "string"}), ("p2", {"type": "integer"})], "enum": [("p", {"enum": ["null", "a"]})]},
    "header": {"none": [], "neg": [("X-A", {"type": "integer"})], "unneg": [("X-A", {"type": "string"})],
               "mixed": [("X-A", {"type": "string"}), ("X-B", {"type": "boolean"})],
               "mixed2": [("X-A", {"type": "integer"}), ("X-B", {"type": "string"})],
               "two": [("X-A", {"type": "integer"}), ("X-B", {"type": "boolean"})]},
    "cookie": {"none": [], "neg": [("c", {"type": "integer"})], "unneg": [("c", {"type": "string"})],
               "mixed2": [("c", {"type": "integer"}), ("c2", {"type": "string"})],
               "two": [("c", {"type": "integer"}), ("c2", {"type": "boolean"})]},
    "query": {"none": [], "neg": [("q", {"type": "integer"})], "str": [("q", {"type": "string"})],
              "two": [("q", {"type": "integer"}), ("r", {"type": "string"})],
              "enum": [("q", {"enum": ["true", "false"]})]},
}


def explicit_choices(params):
    """what the caller may supply for a location: nothing, `{}`, every non-empty subset of the declared names, and an
    undeclared name (alone / with the first declared one)"""
    names = [n for n, _ in params]
    out = [None, []]
    for mask in range(1, 2 ** len(names)):
        out.append([n for i, n in enumerate(names) if mask >> i & 1])
    out.append(["zz"])
    if names:
        out.append([names[0], "zz"])
    return out


def make_x_operation(shape, index):
    params = []
    for loc in PARAM_LOCS:
        for name, schema in X_PARAMS[loc][shape[loc]]:
            p = {"name": name, "in": loc, "schema": copy.deepcopy(schema)}
            if loc == "path" or shape["required"]:
                p["required"] = True
            params.append(p)
    d = {"parameters": params, "responses": {"200": {"description": "OK"}}}
    if shape["body"]:
        content = {}
        for i, neg in enumerate(shape["body"]):
            if neg == "custom":
                content[CUSTOM_MEDIA] = {"schema": copy.deepcopy(CUSTOM_SCHEMA)}
            elif neg == "customp":
                # the registered media type written with a parameter / in another case: NOT the registered key, so the body
                # is generated from its (negatable) schema like any other
                content[CUSTOM_MEDIA_VARIANTS[i % len(CUSTOM_MEDIA_VARIANTS)]] = {"schema": {"type": "integer"}}
            else:
                content[MEDIA[i]] = {"schema": ({"type": "integer"} if neg else {})}
        d["requestBody"] = {"required": bool(shape["body_required"]), "content": content}
    template = f"/x{index}" + "".join(f"/{{{n}}}" for n, _ in X_PARAMS["path"][shape["path"]])
    return template, d


def explicit_kwargs(shape_or_op_def, explicit):
    """explicit: {loc: [names]|None, "body": {"set": bool, "value": v}} → keyword arguments of openapi_cases"""
    declared = {(p["in"], p["name"]): p["schema"] for p in shape_or_op_def["parameters"]}
    kw = {}
    for loc in PARAM_LOCS:
        names = explicit.get(loc)
        if names is None:
            continue
        kw[EXPLICIT_KW[loc]] = {n: conforming_value(declared.get((loc, n), {})) for n in names}
    if explicit.get("body", {}).get("set"):
        kw["body"] = explicit["body"]["value"]
        kw["media_type"] = "application/json"
    return kw


def lean_explicit(kw):
    out = {loc: (None if EXPLICIT_KW[loc] not in kw else [[k, canon(v)] for k, v in kw[EXPLICIT_KW[loc]].items()])
           for loc in PARAM_LOCS}
    out["body"] = {"set": "body" in kw, "value": canon(kw["body"]) if "body" in kw else None}
    return out


def reqs_of(operation):
    out = {}
    for loc in PARAM_LOCS:
        s = location_schema(operation, loc)
        out[loc] = [] if s is None else [str(x) for x in s.get("required", [])]
    return out


def record_draws(rec, body_idx=0):
    """the `Draws` of the Lean model read off one Tap record"""
    d = {}
    for loc in PARAM_LOCS:
        v = rec["draws"].get(loc)
        d[loc] = None if v is None else canon(dict(v))
    c = rec["containers"].get("body")
    b = c.value if c is not None else NOT_SET
    d["bodyIdx"] = body_idx
    d["body"] = {"set": not isinstance(b, type(NOT_SET)), "value": None if isinstance(b, type(NOT_SET)) else canon(b)}
    return d


def observed_x(rec, kind, case):
    conts = rec["containers"]
    values, gens = {}, {}
    for loc in PARAM_LOCS + ("body",):
        c = conts.get(loc)
        if c is None:
            continue
        absent = isinstance(c.value, type(NOT_SET)) if loc == "body" else c.value is None
        values[loc] = {"set": not absent, "value": None if absent else canon(dict(c.value) if loc != "body" else c.value)}
        gens[loc] = c.generator.value if c.generator is not None else None
    return {"outcome": kind if case is None else observed(case), "values": values, "generators": gens,
            "strategies": {loc: canon_strategy(rec["strats"].get(loc)) for loc in PARAM_LOCS}}


def canon_strategy(s_):
    """`st.none()` and the positive factory over an empty set of parameters both generate nothing"""
    if isinstance(s_, dict) and s_.get("factory") == "positive" and not s_.get("props"):
        return "none"
    return s_


def model_x(m):
    inv = {v: k for k, v in LOC_OF_KIND.items()}
    back = lambda k: LOC_OF_KIND[k]
    strat = lambda s: canon_strategy(s if isinstance(s, str) else {"factory": s["factory"], "props": sorted(s["props"]),
                                                                   "required": sorted(s["required"])})
    return {"outcome": model_outcome(m),
            "values": {back(k): {"set": v["set"], "value": canon(v["value"]) if v["set"] else None} for k, v in m["values"]},
            "generators": {back(k): g for k, g in m["generators"]},
            "strategies": {back(k): strat(s) for k, s in m["strategies"]}}


def detect_x_variants(chk):
    """Witnesses of FC02d / FC02e on the real code (scripted draws, known-value factories)."""
    def witness(header_shape, prefix):
        shape = {"path": "none", "header": header_shape, "cookie": "none", "query": "neg", "required": True, "body": [],
                 "body_required": False}
        template, d = make_x_operation(shape, 0)
        raw = {"openapi": "3.0.2", "info": {"title": "t", "version": "1"}, "paths": {template: {"post": d}}}
        op = schemathesis.openapi.from_dict(raw)[template]["POST"]
        with Tap(scripted=True) as tap:
            run_openapi_cases_x(op, [GenerationMode.NEGATIVE], Chooser(prefix), explicit_kwargs(d, {"header": ["X-A"]}))
        return tap.records[-1]

    # X-A: integer supplied, X-B: string left — which factory is asked for the lone string header?
    strat = witness("mixed2", []).get("strats", {}).get("header")
    X_VARIANTS["exclusion"] = "asFound" if isinstance(strat, dict) and strat["factory"] == "negative" else "repaired"
    # X-A: integer supplied, X-B: boolean (required) left — the negative draw `{}` (choice 1) omits X-B
    c = witness("two", [1])["containers"].get("header")
    X_VARIANTS["unchanged"] = "asFound" if c is not None and c.generator is None else "repaired"
    chk.variants["can_negate-over-supplied-parameters"] = X_VARIANTS["exclusion"]
    chk.variants["value-equal-to-explicit"] = X_VARIANTS["unchanged"]


def run_openapi_cases_x(operation, modes, chooser, kw):
    """One execution of the real `openapi_cases` body with explicit arguments under a scripted draw (inside a Tap)."""
    draw = FakeDraw(chooser)
    cfg = GenerationConfig(modes=list(modes))
    try:
        comp = H.openapi_cases(operation=operation, generation_mode=GenerationMode.NEGATIVE, generation_config=cfg, **kw)
        while isinstance(comp, LazyStrategy):
            comp = comp.wrapped_strategy
        return "case", comp.definition(draw, *comp.args, **comp.kwargs), draw.body_idx
    except SkipTest:
        return "skip", None, draw.body_idx
    except UnsatisfiedAssumption:
        return "reject", None, draw.body_idx


def x_shapes(rng, n_random):
    """systematic part: every parameter shape of every location with every explicit choice (the other locations: a
    negatable or an un-negatable query, nothing else); random part: all dimensions at once"""
    base = {"path": "none", "header": "none", "cookie": "none", "query": "none", "required": False, "body": [],
            "body_required": False}
    out = []
    for loc in PARAM_LOCS:
        for name, params in X_PARAMS[loc].items():
            if not params:
                continue
            for choice in explicit_choices(params):
                if choice is None:
                    continue
                for required in (False, True):
                    for other in ("none", "neg") if loc != "query" else ("none",):
                        sh = dict(base, **{loc: name}, required=required)
                        if loc != "query":
                            sh["query"] = other
                        out.append((sh, {loc: choice}))
    for body in ([True], [False], [True, False]):
        for q in ("none", "neg"):
            out.append((dict(base, query=q, body=body, body_required=True), {"body": {"set": True, "value": 1}}))
    for body in (["custom"], ["custom", True], ["custom", False], [True, "custom"], [True], [False], [True, False]):
        for q in ("none", "neg"):
            for req in (False, True):
                out.append((dict(base, query=q, body=body, body_required=req), {}))
    for _ in range(n_random):
        sh = {loc: rng.choice(list(X_PARAMS[loc])) for loc in PARAM_LOCS}
        sh.update(required=rng.random() < 0.5,
                  body=rng.choice([[], [], [True], [False], [True, False], ["custom"], ["custom", True], [False, "custom"]]),
                  body_required=rng.random() < 0.5)
        ex = {}
        for loc in PARAM_LOCS:
            if rng.random() < 0.6:
                ex[loc] = rng.choice(explicit_choices(X_PARAMS[loc][sh[loc]]))
        if sh["body"] and rng.random() < 0.3:
            ex["body"] = {"set": True, "value": rng.choice([1, "x"])}
        out.append((sh, ex))
    return out


def register_custom_media():
    from schemathesis.specs.openapi.media_types import register_media_type
    if CUSTOM_MEDIA not in H.MEDIA_TYPES:
        register_media_type(CUSTOM_MEDIA, st.just(b"DEMO"))


def detect_body_variant(chk):
    """Witness of FC02g: is the value of a registered media-type strategy labelled negative?"""
    register_custom_media()
    shape = {"path": "none", "header": "none", "cookie": "none", "query": "none", "required": False, "body": ["custom"],
             "body_required": True}
    template, d = make_x_operation(shape, 0)
    raw = {"openapi": "3.0.2", "info": {"title": "t", "version": "1"}, "paths": {template: {"post": d}}}
    op = schemathesis.openapi.from_dict(raw)[template]["POST"]
    with Tap(scripted=True):
        kind, case, _ = run_openapi_cases_x(op, [GenerationMode.NEGATIVE], Chooser(), {})
    labelled = case is not None and any(k.value == "body" and v.mode.value == "negative" for k, v in case.meta.components.items())
    BODY_VARIANT[0] = "asFound" if labelled else "repaired"
    chk.variants["registered-media-type-as-negation-candidate"] = BODY_VARIANT[0]


def custom_media_variants(chk):
    """A strategy registered for media type M serves bodies declared as exactly M.  A body declared with a parameter
    (`M; charset=utf-8`) or in another spelling is generated from its schema like any other: in negative mode its value must
    violate that schema and must not be the registered strategy's (conforming, user-supplied) data.  Real draws, real
    Hypothesis, designed operations."""
    from hypothesis import HealthCheck, Phase, given, settings
    from hypothesis import seed as hseed
    register_custom_media()
    for variant in CUSTOM_MEDIA_VARIANTS:
        for extra in ([],):      # (with the exact media type declared next to it a case could not be attributed)
            content = {variant: {"schema": {"type": "integer"}}}
            for mt in extra:
                content[mt] = {"schema": copy.deepcopy(CUSTOM_SCHEMA)}
            raw = {"openapi": "3.0.2", "info": {"title": "t", "version": "1"},
                   "paths": {"/m": {"post": {"requestBody": {"required": True, "content": content},
                                             "responses": {"200": {"description": "OK"}}}}}}
            op = schemathesis.openapi.from_dict(raw)["/m"]["POST"]
            for mode in (GenerationMode.NEGATIVE, GenerationMode.POSITIVE):
                got = []

                @hseed(chk.seed + 17)
                @settings(max_examples=12, database=None, deadline=None, phases=[Phase.generate], suppress_health_check=list(HealthCheck))
                @given(op.as_strategy(generation_mode=mode))
                def t(case):
                    got.append(case)
                try:
                    t()
                except Exception as e:  # noqa: BLE001
                    chk.feature(f"custom-media-variant:{mode.value}:{type(e).__name__}")
                for case in got:
                    comp = {k.value: v.mode.value for k, v in case.meta.components.items()}.get("body")
                    key = {"media_type": variant, "also_declares": extra, "mode": mode.value}
                    chk.case("custom-media-variant", key=[key, repr(case.body)], nontrivial=True,
                             sample={**key, "body": repr(case.body), "label": comp})
                    chk.feature(f"custom-media-variant:{mode.value}:{'sentinel' if case.body == CUSTOM_SENTINEL else 'from-schema'}")
                    if case.body == CUSTOM_SENTINEL:
                        chk.violation(KF_CUSTOM_VARIANT if comp == "negative" else
                                      "C02:_get_body_strategy:registered-strategy-used-for-another-media-type",
                                      f"the body declared as {variant!r} carries the data of the strategy registered for "
                                      f"{CUSTOM_MEDIA!r} and is labelled {comp}", {"document": raw, **key, "body": repr(case.body)})
                    elif mode == GenerationMode.NEGATIVE and comp == "negative" and isinstance(case.body, int) \
                            and not isinstance(case.body, bool):
                        chk.violation("C02:negative-label:body:value-conforms", f"body {case.body!r} labelled negative conforms to "
                                      "{type: integer}", {"document": raw, **key, "body": repr(case.body)})


def labels_explicit(chk):
    """The real `openapi_cases` with explicit arguments under scripted draws (every choice sequence) against the Lean
    `openapiCasesX`: outcome, labels, the value of every location, the generator of every container and the strategy
    `get_parameters_strategy` handed out (through its cache: the explicit choices of one parameter shape run on the
    same operation object, one after the other)."""
    rng = chk.rng
    shapes = x_shapes(rng, chk.budget(60, 1500))
    if not chk.thorough:
        systematic = [s for s in shapes[:-60]]
        with_custom = [s for s in systematic if "custom" in s[0]["body"] or "customp" in s[0]["body"]]
        rest = [s for s in systematic if s not in with_custom]
        shapes = rng.sample(rest, min(len(rest), 160)) + rng.sample(with_custom, min(len(with_custom), 14)) + shapes[-60:]
    # one operation object per distinct parameter shape: explicit choices share it (and its strategy cache)
    ops, defs = {}, {}
    keys = []
    for sh, ex in shapes:
        k = json.dumps(sh, sort_keys=True)
        keys.append(k)
        if k not in defs:
            defs[k] = make_x_operation(sh, len(defs))
    raw = {"openapi": "3.0.2", "info": {"title": "t", "version": "1"},
           "paths": {template: {"post": d} for template, d in defs.values()}}
    schema = schemathesis.openapi.from_dict(raw)
    for k, (template, d) in defs.items():
        ops[k] = schema[template]["POST"]
    reqs, cases, judge = [], [], []
    breqs, bobs = [], []
    with Tap(scripted=True) as tap:
        for (sh, ex), k in zip(shapes, keys):
            op, d = ops[k], defs[k][1]
            kw = explicit_kwargs(d, ex)
            desc, rq, lex = describe(op), reqs_of(op), lean_explicit(kw)
            for modes in ([GenerationMode.NEGATIVE], [GenerationMode.POSITIVE, GenerationMode.NEGATIVE]):
                prefix = []
                while prefix is not None:
                    ch = Chooser(prefix)
                    n0 = len(tap.records)
                    kind, case, body_idx = run_openapi_cases_x(op, modes, ch, kw)
                    prefix = next_prefix(ch.taken, ch.arity)
                    if len(tap.records) == n0:
                        raise InfraError("labels:explicit: no tap record for an execution of openapi_cases")
                    rec = tap.records[-1]
                    a = {"variants": dict(X_VARIANTS), "op": desc, "reqs": rq, "explicit": lex, "only": len(modes) == 1,
                         "mode": "negative", "draws": record_draws(rec, body_idx)}
                    reqs.append(("labelsX", a))
                    cases.append((sh, ex, modes, list(ch.taken), observed_x(rec, kind, case), case, op))
                    if op.body and "body" not in kw and "bodyStrat" in rec:
                        items = [[bool(can_negate(it.as_json_schema(op))), bool(it.is_required), it.media_type in H.MEDIA_TYPES]
                                 for it in op.body.items]
                        breqs.append(("bodyStrat", {"variant": BODY_VARIANT[0], "mode": "negative", "items": items}))
                        c = rec["containers"].get("body")
                        bobs.append(({"shape": sh, "only": len(modes) == 1, "choices": list(ch.taken)}, body_idx,
                                     rec["bodyStrat"], c.generator.value if c is not None and c.generator else None))
    bouts = chk.driver().batch(breqs)
    for (key, body_idx, seen, gen), m, (_, a) in zip(bobs, bouts, breqs):
        if "__err__" in m:
            raise InfraError(f"model error {m} on {a}")
        chosen = m["candidates"][body_idx] if body_idx < len(m["candidates"]) else None
        model = {"generator": m["generator"], "strategy": m["strategies"][body_idx] if chosen else None,
                 "custom": chosen[2] if chosen else None}
        impl = {"generator": gen if gen is not None else m["generator"], "strategy": seen["obs"],
                "custom": seen["media_type"] in H.MEDIA_TYPES}
        chk.case("body:strategy", key=[key, a], nontrivial=True, sample={"in": key, "impl": impl})
        chk.feature(f"body:strategy:{seen['obs'] if isinstance(seen['obs'], str) else seen['obs']['factory']}")
        if model != impl:
            chk.disagreement("body:strategy", {**key, "lean": a}, model, impl)
    outs = chk.driver().batch(reqs)
    for (sh, ex, modes, taken, impl, case, op), m, (_, a) in zip(cases, outs, reqs):
        if "__err__" in m:
            raise InfraError(f"model error {m} on {a}")
        model = model_x(m)
        key = {"shape": sh, "explicit": ex, "only": len(modes) == 1, "choices": taken}
        chk.case("labels:explicit", key=key, nontrivial=True, sample={"shape": sh, "explicit": ex, "impl": impl["outcome"]})
        chk.feature(f"labels:explicit:{impl['outcome'] if isinstance(impl['outcome'], str) else 'case'}")
        for loc in PARAM_LOCS:
            s = impl["strategies"].get(loc)
            chk.feature(f"labels:explicit:strategy:{s if isinstance(s, str) or s is None else s['factory']}")
        # compare only what the execution reached: a draw rejected by a filter stops early
        impl["strategies"] = {k: v for k, v in impl["strategies"].items() if v is not None}
        for part in ("values", "generators", "strategies"):
            model[part] = {k: v for k, v in model[part].items() if k in impl[part]}
        if model != impl:
            chk.disagreement("labels:explicit", {"shape": sh, "explicit": ex, "only": len(modes) == 1, "choices": taken,
                                                 "lean": a}, model, impl)
        if not m["negatable"] and case is not None:
            chk.violation("C02:openapi_cases:case-produced-although-nothing-negatable",
                          "nothing that is left to generate can be negated, yet a case was produced in negative mode",
                          {"kind": "scripted-explicit", "shape": sh, "explicit": ex, "modes": [x.value for x in modes],
                           "choices": taken, "impl": impl["outcome"]})
        if case is not None:
            declared = {loc: {n for n, _ in X_PARAMS[loc][sh[loc]]} for loc in PARAM_LOCS}
            strip = {loc: {n for n in (ex.get(loc) or []) if n not in declared[loc]} for loc in PARAM_LOCS}
            judge.append(({"shape": sh, "explicit": ex}, modes, taken, case, op, strip))
    judge_cases(chk, judge, "scripted-explicit")


X_PRIM = [
    {"type": "integer"}, {"type": "integer", "minimum": 2}, {"type": "boolean"}, {"type": "string"},
    {"type": "string", "minLength": 2}, {"type": "string", "enum": ["a", "b"]}, {"type": "string", "pattern": "^[a-c]+$"},
    {"type": "number", "maximum": 3},
]
X_NONSTRING = [s_ for s_ in X_PRIM if s_ != {"type": "string"}]
X_BODIES = [{"type": "integer"}, {"type": "object", "properties": {"a": {"type": "integer"}}, "required": ["a"]}, {}]
X_NAMES = {"path": ["id", "key"], "query": ["q", "r"], "header": ["X-A", "X-B"], "cookie": ["c", "d"]}


def conforming_value(schema):
    if "enum" in schema:
        return schema["enum"][0]
    t = schema.get("type")
    if t == "integer":
        return max(schema.get("minimum", 1), 1)
    if t == "number":
        return 1
    if t == "boolean":
        return True
    return "abc"


def x_scenarios(rng, n_random):
    """[(name, {loc: [(param name, schema, required, supplied)]}, body schema | None, body supplied)] — the systematic
    scenarios put one location entirely / partly into the caller's hands next to an input that can be violated"""
    pick = lambda pool: copy.deepcopy(rng.choice(pool))
    viol = lambda loc: [(X_NAMES[loc][0], pick([{"type": "integer"}, {"type": "integer", "minimum": 2}, {"type": "boolean"}]),
                         rng.random() < 0.5, False)]
    out = []
    for loc in ("header", "cookie", "query", "path"):
        other = "query" if loc != "query" else "header"
        k = rng.choice([1, 2])
        schemas = [pick(X_NONSTRING)] + [pick(X_PRIM) for _ in range(k - 1)]
        rng.shuffle(schemas)
        supplied_all = [(n, sc, loc == "path" or rng.random() < 0.6, True) for n, sc in zip(X_NAMES[loc], schemas)]
        out.append((f"all-supplied:{loc}", {loc: supplied_all, other: viol(other)}, None, False))
    for loc in ("header", "cookie", "path"):
        # the supplied parameter is the only one that is not a plain string
        part = [(X_NAMES[loc][0], pick(X_NONSTRING), loc == "path" or rng.random() < 0.5, True),
                (X_NAMES[loc][1], {"type": "string"}, loc == "path", False)]
        out.append((f"non-string-supplied:{loc}", {loc: part, "query": viol("query")}, None, False))
        if loc == "path":
            continue
        # the parameter left to generate is required and can be violated
        part = [(X_NAMES[loc][0], pick(X_NONSTRING), rng.random() < 0.5, True),
                (X_NAMES[loc][1], pick([{"type": "integer"}, {"type": "boolean"}]), True, False)]
        out.append((f"required-left:{loc}", {loc: part}, None, False))
    out.append(("body-supplied", {"query": viol("query")}, {"type": "integer"}, True))
    # a parameter whose enum holds the spelling of a JSON literal (True/False/None are re-spelled after the final filter)
    out.append(("literal-spelling", {"path": [("id", {"enum": ["null", "a"]}, True, False)]}, None, False))
    for _ in range(n_random):
        params = {}
        for loc in PARAM_LOCS:
            k = rng.choice([0, 1, 1, 2])
            params[loc] = [(n, pick(X_PRIM), loc == "path" or rng.random() < 0.5, rng.random() < 0.5)
                           for n in X_NAMES[loc][:k]]
        body = pick(X_BODIES) if rng.random() < 0.5 else None
        out.append(("random", params, body, body is not None and rng.random() < 0.3))
    return out


def build_x_real(name, params, body, body_supplied, rng):
    plist, declared, kw = [], {}, {}
    for loc in PARAM_LOCS:
        props, required = {}, []
        for pname, sc, req, supplied in params.get(loc, []):
            p = {"name": pname, "in": loc, "schema": sc}
            if req:
                p["required"] = True
                required.append(pname)
            plist.append(p)
            props[pname] = sc
            if supplied:
                kw.setdefault(EXPLICIT_KW[loc], {})[pname] = conforming_value(sc)
        declared[loc] = {"type": "object", "properties": props, "required": required,
                         "additionalProperties": False} if props else None
    strip = {}
    if rng.random() < 0.3:  # credentials the operation does not declare
        kw.setdefault("headers", {})["Authorization"] = "Bearer t"
        strip["header"] = {"Authorization"}
    d = {"parameters": plist, "responses": {"200": {"description": "OK"}}}
    body_def = None
    if body is not None:
        body_def = {"required": rng.random() < 0.5, "content": {"application/json": {"schema": body}}}
        d["requestBody"] = body_def
        if body_supplied:
            kw["body"] = conforming_value(body) if body.get("type") != "object" else {"a": 1}
            kw["media_type"] = "application/json"
    template = "/r" + "".join(f"/{{{p['name']}}}" for p in plist if p["in"] == "path")
    return template, d, declared, body_def, kw, strip


def draw_real_tapped(strategy, n, seed_, tap):
    out = []

    @hypothesis.seed(seed_)
    @settings(max_examples=n, database=None, suppress_health_check=list(HealthCheck), phases=[Phase.generate],
              deadline=None, derandomize=False)
    @given(x=strategy)
    def collect(x):
        out.append(x)
        if tap.records:
            tap.records[-1]["case"] = x

    try:
        collect()
        return out, None
    except SkipTest:
        return out, "skip"
    except Unsatisfiable:
        return out, "reject"
    except KeyError as e:
        return out, f"KeyError:{e}"
    except (hypothesis.errors.InvalidArgument, hypothesis.errors.FailedHealthCheck) as e:
        return out, f"error:{type(e).__name__}"


def strictly_violable(chk, items):
    """Inputs left to generate that can certainly be violated, judged by the reference semantics only: a parameter
    whose declared schema rejects some wire spelling; a body whose schema rejects some instance.
    items: [(declared, body_def, kw)] → one list of 'location:name' / 'body' per item"""
    reqs, what = [], []
    for n, (declared, body_def, kw) in enumerate(items):
        for loc in PARAM_LOCS:
            if declared[loc] is None:
                continue
            supplied = set(kw.get(EXPLICIT_KW[loc], {}))
            for name, sc in declared[loc]["properties"].items():
                if name in supplied:
                    continue
                single = {"type": "object", "properties": {name: sc}, "required": [], "additionalProperties": False}
                for w in WIRE_PANEL:
                    reqs.append(("part", {"env": G.lean_env(single, {name: w}), "schema": single, "value": {name: w}}))
                    what.append((n, f"{loc}:{name}"))
        if body_def is not None and "body" not in kw:
            sc = body_def["content"]["application/json"]["schema"]
            for v in UNIVERSE:
                reqs.append(("valid", {"env": G.lean_env(sc, v), "schema": sc, "instance": v}))
                what.append((n, "body"))
    outs = chk.driver().batch(reqs)
    found = [[] for _ in items]
    for (n, w), o in zip(what, outs):
        if isinstance(o, dict) and "__err__" in o:
            raise InfraError(f"spec error {o}")
        rejected = (o is False) if w == "body" else (o["coerced"] is False)
        if rejected and w not in found[n]:
            found[n].append(w)
    return found


def abstract_real(a, impl):
    """Real draws contain arbitrary text and floats that do not survive the JSON line protocol unchanged; the model only
    moves values around, so every value is replaced by a digest and every undeclared key by a token (consistently in
    the request and in the observation)."""
    import hashlib
    keep = {n for loc in PARAM_LOCS for n, _, _ in a["op"][loc]}
    keep |= {k for loc in PARAM_LOCS for k, _ in (a["explicit"][loc] or [])}
    tokens = {}

    def key(k):
        if k in keep:
            return k
        return tokens.setdefault(k, f"~{len(tokens)}")

    def val(v):
        return "#" + hashlib.sha1(json.dumps(v, sort_keys=True, ensure_ascii=True, default=str).encode()).hexdigest()[:12]

    def obj(d):
        return None if d is None else {key(k): val(v) for k, v in d.items()}

    a = copy.deepcopy(a)
    impl = copy.deepcopy(impl)
    for loc in PARAM_LOCS:
        a["draws"][loc] = obj(a["draws"][loc])
        if a["explicit"][loc] is not None:
            a["explicit"][loc] = [[k, val(v)] for k, v in a["explicit"][loc]]
        if loc in impl["values"] and impl["values"][loc]["set"]:
            impl["values"][loc]["value"] = obj(impl["values"][loc]["value"])
    for side in (a["draws"]["body"], a["explicit"]["body"], impl["values"].get("body")):
        if side and side["set"]:
            side["value"] = val(side["value"])
    return a, impl


def explicit_real(chk):
    """Real Hypothesis draws from `as_strategy(NEGATIVE, headers=…, query=…, …)`: every execution of `openapi_cases`
    that reached the labelling step is compared with the Lean `openapiCasesX` (outcome, labels, values, generators,
    strategies); every labelled part of every case is judged against the declared schemas; an operation that ends
    without a single case although an input left to generate can certainly be violated is a violation."""
    rng = chk.rng
    scenarios = x_scenarios(rng, chk.budget(3, 40))
    n_draws = chk.budget(8, 15)
    reqs, obs, judged, zero = [], [], [], []
    for i, (name, params, body, body_supplied) in enumerate(scenarios):
        template, d, declared, body_def, kw, strip = build_x_real(name, params, body, body_supplied, rng)
        raw = {"openapi": "3.0.2", "info": {"title": "t", "version": "1"}, "paths": {template: {"post": d}}}
        op = schemathesis.openapi.from_dict(raw)[template]["POST"]
        desc, rq, lex = describe(op), reqs_of(op), lean_explicit(kw)
        configs = [[GenerationMode.NEGATIVE]]
        if chk.thorough or name == "random":
            configs.append([GenerationMode.POSITIVE, GenerationMode.NEGATIVE])
        for modes in configs:
            cfg = GenerationConfig(modes=list(modes))
            seed_ = chk.seed * 100019 + i
            key = {"scenario": name, "operation": d, "explicit": {k: canon(v) for k, v in kw.items()},
                   "modes": [m.value for m in modes], "hypothesis_seed": seed_}
            with Tap(scripted=False) as tap:
                strat = op.as_strategy(generation_mode=GenerationMode.NEGATIVE, generation_config=cfg, **kw)
                # a strategy that starves is tried ~50 times per requested example before Hypothesis gives up
                n = 3 if name.startswith("non-string-supplied") and not chk.thorough else n_draws
                cases, stop = draw_real_tapped(strat, n, seed_, tap)
            chk.feature(f"explicit:real:{name.split(':')[0]}:outcome={stop.split(':')[0] if stop else 'cases'}")
            if stop and (stop.startswith("error") or stop.startswith("KeyError")):
                continue
            complete = [r for r in tap.records if len(r["containers"]) == 5]
            for j, rec in enumerate(complete):
                kind = "case" if rec["case"] is not None else ("skip" if stop == "skip" and rec is tap.records[-1] else "reject")
                a = {"variants": dict(X_VARIANTS), "op": desc, "reqs": rq, "explicit": lex, "only": len(modes) == 1,
                     "mode": "negative", "draws": record_draws(rec)}
                a, impl = abstract_real(a, observed_x(rec, kind, rec["case"]))
                reqs.append(("labelsX", a))
                obs.append((key, impl))
            for case in cases:
                judged.append((key, modes, seed_, case, op, declared, body_def, strip))
            if not cases:
                zero.append((key, stop, tap.records, declared, body_def, kw, len(modes) == 1))
    outs = chk.driver().batch(reqs)
    for (key, impl), m, (_, a) in zip(obs, outs, reqs):
        if "__err__" in m:
            raise InfraError(f"model error {m} on {a}")
        model = model_x(m)
        chk.case("explicit:real", key=[key, a["draws"]], nontrivial=True, sample={"in": key, "impl": impl["outcome"]})
        impl["strategies"] = {k: v for k, v in impl["strategies"].items() if v is not None}
        for part in ("values", "generators", "strategies"):
            model[part] = {k: v for k, v in model[part].items() if k in impl[part]}
        if model != impl:
            chk.disagreement("explicit:real", {**key, "lean": a}, model, impl)
    judge_real(chk, judged)
    violables = strictly_violable(chk, [(z[3], z[4], z[5]) for z in zero])
    for (key, stop, records, declared, body_def, kw, only), violable in zip(zero, violables):
        chk.case("explicit:real:no-cases", key=key, nontrivial=True, sample={"in": key, "outcome": stop, "violable": violable})
        if not violable:
            continue
        rep = {"kind": "explicit-real", **key, "outcome": "SkipTest" if stop == "skip" else "Unsatisfiable",
               "inputs_left_that_can_be_violated": violable}
        if stop == "skip":
            last = records[-1] if records else {"draws": {}, "containers": {}}
            dropped = [loc for loc in PARAM_LOCS if kw.get(EXPLICIT_KW[loc]) and last["draws"].get(loc) is not None
                       and loc in last["containers"] and last["containers"][loc].generator is None]
            rep["drawn"] = {loc: canon(dict(v)) for loc, v in last["draws"].items() if v is not None}
            if dropped:
                chk.violation(KF_EQUAL_TO_EXPLICIT, f"the value drawn for {dropped[0]} adds nothing to the supplied part "
                              "(`value == explicit`), the generator is dropped and the test is skipped although negative "
                              "cases exist", rep)
            else:
                chk.violation("C02:openapi_cases:SkipTest-although-an-input-left-to-generate-can-be-violated",
                              "the operation is skipped in negative mode although an input that is left to generate can "
                              "be violated", rep)
            continue
        # Unsatisfiable: which location's draw never succeeded?
        starved = Counter(r["attempted"][-1] for r in records
                          if r["attempted"] and r["attempted"][-1] not in r["containers"])
        loc = starved.most_common(1)[0][0] if starved else None
        rep["starved_location"] = loc
        if loc is None:
            chk.violation("C02:explicit:no-negative-case-although-an-input-left-to-generate-can-be-violated",
                          "no negative case was produced although an input that is left to generate can be violated", rep)
            continue
        supplied = set(kw.get(EXPLICIT_KW[loc], {}))
        left = {n: sc for n, sc in (declared[loc]["properties"] if declared[loc] else {}).items() if n not in supplied}
        if not left:
            chk.violation(f"C02:explicit:{loc}:all-parameters-supplied:location-starves-the-operation",
                          f"every {loc} parameter is supplied by the caller, yet the {loc} strategy rejects every draw "
                          "and the operation gets no negative case although another input can be violated", rep)
        elif loc in KF_SUPPLIED_COUNTED and all(sc == {"type": "string"} for sc in left.values()):
            chk.violation(KF_SUPPLIED_COUNTED[loc], f"only plain string {loc} parameters are left to generate, "
                          "but the negative strategy is used because a supplied parameter counts as negatable; it "
                          "rejects every draw and the operation gets no negative case", rep)
        else:
            chk.violation(f"C02:explicit:{loc}:strategy-yields-nothing-although-an-input-can-be-violated",
                          f"the {loc} strategy rejects every draw and the operation gets no negative case although an "
                          "input that is left to generate can be violated", rep)


def run(chk):
    warnings.simplefilter("ignore")
    G.selfcheck(chk, chk.budget(150, 1500))
    variant = detect_variants(chk)
    detect_negate_variant(chk)
    detect_path_variant(chk)
    detect_x_variants(chk)
    detect_body_variant(chk)
    wire_witness(chk)
    chk.assumptions += [
        "hypothesis-jsonschema: from_schema(s) yields only instances valid for s (hypothesis `drawOK`, positive side); "
        "the negative side of `drawOK` is theorem filter_guarantee",
        "can_negate = (canonicalish(s) != {}) enters the model as an oracle evaluated by the real library",
        "hooks do not replace the strategies; explicit parameter values are dicts of JSON values, the drawn part of a "
        "location is a dict (the location strategies yield dicts), an explicit body does not name a media type with a "
        "custom strategy",
        "label soundness with explicit values is stated for the merged part under the contract `drawOKX`; the step from "
        "the drawn part to the merged part is merge_keeps_violation_partial / merge_keeps_conformance (the caller's own "
        "values conform; the drawn part does not overwrite a supplied name)",
        "mutation theorems: draft-4 reading of the schema (the code's own validator), no `$ref` at the top level of the "
        "mutated schema, Python dicts (unique keys)",
        "'declared schema of a parameter location' = the object schema {properties, required, additionalProperties: "
        "false} over the raw parameter schemas (an undeclared parameter violates it, as the code base assumes)",
    ]
    chk.trusted += [
        "lean/SV/Spec/JsonSchema.lean (reference JSON-Schema semantics; differentially checked against jsonschema on "
        "every run: shared selfcheck + every judged part of a real draw)",
        "lean/SV/Spec/C02.lean `readings`/`partConforms`: our reading of 'the value on the wire' for primitive "
        "parameter values (string / decimal number / true,false / null spellings)",
        "the scripted `draw` of harness/corr/c02.py (re-implements sampled_from / booleans / shared feature flags / "
        "ordered lists / one_of / map / filter for the strategies the anchored code builds)",
    ]
    chk.proved += [
        "filter_guarantee + validator_is_for_requested_schema (every value leaving negative_schema violates the schema "
        "of the location, whatever the mutations produced)",
        "labels_sound_repaired (full label soundness for the repaired labelling logic)",
        "labels_sound_full_false_asFound, labels_sound_absent_body_witness (kernel-checked witnesses of F10 on the model "
        "of the code as found)",
        "fallback_labelled_positive, body_fallback_labelled_positive, string_only_accepts_every_wire_string",
        "skip_not_fail (nothing negatable: SkipTest with modes=[negative], reject otherwise), negatable_gets_cases",
        "removeRequired_negates, changeProperties_negates (relative to the nested mutation), "
        "failure_leaves_schema_unchanged, mutate_rejects_iff_nothing_succeeded, negate_never_raises_repaired",
        "changeType_negates_full_false, negate_negates_full_false, negate_keyError_witness, wire_spelling_witness "
        "(witnesses: a SUCCESS mutation need not exclude valid instances; only the final filter does)",
        "explicit values: explicit_none_is_plain, all_supplied_never_negative_factory, all_supplied_strategy_none_repaired, "
        "none_strategy_location_unlabelled (a location the caller supplied entirely is never sent through the negative "
        "factory, carries no label and reaches the case unchanged)",
        "negative_factory_only_on_negatable_repaired + negative_factory_only_on_negatable_false_asFound (FC02d), "
        "gets_cases_X_repaired + gets_cases_X_full_false_asFound (FC02e), skip_not_fail_X, labels_sound_X",
        "strategy_cache_key_sound (equal `_PARAMETER_STRATEGIES_CACHE` keys give the same strategy), "
        "merge_keeps_supplied_values, merge_keeps_conformance, merge_keeps_violation_full_false (witness)",
        "negative_body_from_negative_factory_repaired + negative_body_from_negative_factory_false_asFound (FC02g), "
        "bodyCandidatesM_effective, body_strategy_absent_only_when_positive (registered media-type strategies, the NOT_SET "
        "alternative of optional bodies)",
    ]
    chk.partial += [
        "labels_sound_partial_asFound: label soundness of the code as found only when every parameter location declares "
        "a parameter and the body was drawn present (F10 excluded by hypothesis)",
        "changeType_negates_partial: excludes integer chosen for a schema admitting number",
        "negate_negates_partial: excludes additionalProperties among the negated keywords",
        "label soundness is relative to `drawOK` (positive strategy yields valid values: third-party contract) and is "
        "stated for raw values; the wire spelling of negative parameter values is not covered (F9, known finding)",
        "change_properties / change_items are modelled relative to the results of the nested mutations (each nested "
        "call is compared separately); tuple-form `items` and the `patternProperties` interplay are not modelled",
        "gets_cases_X_partial_asFound: with `value == explicit` as found, a case is guaranteed only when the merged value "
        "of every negatively generated location differs from what the caller supplied (FC02e excluded by hypothesis)",
        "merge_keeps_violation_partial: the drawn part must not mention a supplied name",
    ]
    chk.sampled_only += [
        "real Hypothesis draws (as_strategy in NEGATIVE and mixed configuration, pinned seeds): labels vs model, every "
        "labelled part judged by validF in request mode, non-body parts also through their wire spelling",
        "negative_schema draws on random location schemas judged by validF (replay of filter_guarantee)",
        "'negatable ⇒ gets cases' on the real strategies depends on Hypothesis finding examples; an Unsatisfiable "
        "outcome is diagnosed per location (universal schema not recognised by can_negate = known finding FC02b)",
        "parts containing floats that jsonschema and exact decimals may read differently are not judged (counted)",
        "real draws with explicit values (as_strategy(NEGATIVE, headers=/cookies=/query=/path_parameters=/body=)): "
        "every execution of openapi_cases that reached the labelling step vs the model, labelled parts judged against "
        "the declared schemas, 'no case although an input left to generate can certainly be violated' judged by the "
        "reference semantics over a panel of wire spellings",
    ]
    labels_scripted(chk, variant)
    labels_explicit(chk)
    custom_media_variants(chk)
    mutations_corr(chk)
    negatable_designed(chk)
    labels_real(chk, variant)
    explicit_real(chk)
    filter_replay(chk)
    chk.exhaustive = False
    chk.notes.append("labels:scripted enumerates every choice sequence of openapi_cases for each sampled operation "
                     "shape (all 4032 shapes in the thorough tier)")


def replay(chk, data):
    warnings.simplefilter("ignore")
    r = data.get("replay", {})
    print("signature:", data.get("signature"))
    print("what:", data.get("what"))
    kind = r.get("kind")
    drv = chk.driver()
    if "correspondence" in r:
        inp = r.get("input", {})
        print("mechanism:", r["correspondence"])
        print("recorded model:", json.dumps(r.get("model"), default=str)[:2000])
        print("recorded impl: ", json.dumps(r.get("impl"), default=str)[:2000])
        if isinstance(inp, dict) and "lean" in inp and "shape" in inp and "explicit" not in inp:
            kind, r = "scripted", {"operation": inp["shape"], "modes": ["negative"] if inp.get("only") else ["positive", "negative"],
                                   "choices": inp.get("choices", [])}
        elif isinstance(inp, dict) and "shape" in inp and "explicit" in inp:
            kind, r = "scripted-explicit", {"shape": inp["shape"], "explicit": inp["explicit"], "choices": inp.get("choices", []),
                                            "modes": ["negative"] if inp.get("only") else ["positive", "negative"]}
        elif isinstance(inp, dict) and "scenario" in inp and "explicit" in inp:
            kind, r = "explicit-real", inp
        elif isinstance(inp, dict) and "op" in inp and "a" in inp:
            kind, r = "mutation", {"request": inp["a"], "opname": inp["op"]}
        elif isinstance(inp, dict) and "operation" in inp and "hypothesis_seed" in inp:
            kind, r = "real", inp
        else:
            return 0
    if kind == "scripted":
        sh = r["operation"]
        modes = [GenerationMode(m) for m in r["modes"]]
        op = build([sh])[0]
        with patched_factories():
            k, case, conts, body_idx = run_openapi_cases(op, modes, GenerationMode.NEGATIVE, Chooser(r.get("choices", [])))
        impl = k if case is None else observed(case)
        print("impl now :", impl, "values:", {c.location: (None if c.value is None else str(c.value)[:60]) for c in conts.values()})
        for variant in ("asFound", "repaired"):
            a = {"variant": variant, "op": describe(op), "only": len(modes) == 1, "mode": "negative",
                 "draws": draws_of(conts, body_idx)}
            print(f"model {variant}:", model_outcome(drv.one("labels", a)))
    elif kind == "scripted-explicit":
        sh, ex = (r.get("operation") or r)["shape"], (r.get("operation") or r)["explicit"]
        modes = [GenerationMode(m) for m in r["modes"]]
        template, d = make_x_operation(sh, 0)
        raw = {"openapi": "3.0.2", "info": {"title": "t", "version": "1"}, "paths": {template: {"post": d}}}
        op = schemathesis.openapi.from_dict(raw)[template]["POST"]
        kw = explicit_kwargs(d, ex)
        detect_x_variants(chk)
        with Tap(scripted=True) as tap:
            k, case, body_idx = run_openapi_cases_x(op, modes, Chooser(r.get("choices", [])), kw)
        rec = tap.records[-1]
        print("impl now :", json.dumps(observed_x(rec, k, case), default=str)[:2000])
        a = {"variants": dict(X_VARIANTS), "op": describe(op), "reqs": reqs_of(op), "explicit": lean_explicit(kw),
             "only": len(modes) == 1, "mode": "negative", "draws": record_draws(rec, body_idx)}
        print("model    :", json.dumps(model_x(drv.one("labelsX", a)), default=str)[:2000])
    elif kind == "explicit-real":
        d = r["operation"]
        template = "/r" + "".join(f"/{{{p['name']}}}" for p in d["parameters"] if p["in"] == "path")
        raw = {"openapi": "3.0.2", "info": {"title": "t", "version": "1"}, "paths": {template: {"post": d}}}
        op = schemathesis.openapi.from_dict(raw)[template]["POST"]
        cfg = GenerationConfig(modes=[GenerationMode(m) for m in r["modes"]])
        kw = dict(r["explicit"])
        with Tap(scripted=False) as tap:
            cases, stop = draw_real_tapped(op.as_strategy(generation_mode=GenerationMode.NEGATIVE, generation_config=cfg, **kw),
                                           20, r["hypothesis_seed"], tap)
        print("impl now : outcome", {"skip": "SkipTest", "reject": "Unsatisfiable"}.get(stop, stop) or "cases", f"({len(cases)} cases)")
        for c in cases[:10]:
            print("  ", observed(c), {k: str(getattr(c, k))[:50] for k in KINDS})
        print("strategies per location (last execution):", tap.records[-1]["strats"] if tap.records else None)
        print("recorded :", json.dumps({k: r.get(k) for k in ("outcome", "inputs_left_that_can_be_violated",
                                                              "starved_location", "drawn")}, default=str))
    elif kind == "real":
        d = r["operation"]
        template = "/r" + "".join(f"/{{{p['name']}}}" for p in d["parameters"] if p["in"] == "path")
        raw = {"openapi": "3.0.2", "info": {"title": "t", "version": "1"}, "paths": {template: {"post": d}}}
        op = schemathesis.openapi.from_dict(raw)[template]["POST"]
        cfg = GenerationConfig(modes=[GenerationMode(m) for m in r["modes"]])
        cases, stop = draw_real(op.as_strategy(generation_mode=GenerationMode.NEGATIVE, generation_config=cfg), 20,
                                r["hypothesis_seed"])
        print("impl now : outcome", stop or "cases", "— first cases:")
        for c in cases[:20]:
            print("  ", observed(c), {k: str(getattr(c, k))[:50] for k in KINDS})
        print("recorded :", json.dumps({k: r.get(k) for k in ("components", "values", "verdicts", "location", "schema")},
                                       default=str)[:3000])
    elif kind == "mutation":
        a = dict(r["request"])
        a.setdefault("variant", NEGATE_VARIANT[0])
        opname = r.get("opname") or ("negate" if "candidate" in a else "changeType" if "choice" in a else "removeRequired")
        print("model now:", json.dumps(drv.one(opname, a), default=str)[:2000])
        fn = {"negate": M.negate_constraints, "changeType": M.change_type, "removeRequired": M.remove_required_property}.get(opname)
        if fn is not None:
            ctxd = a.get("ctx", {"loc": "body", "form": False})
            loc = {"path_parameters": "path", "headers": "header", "cookies": "cookie"}.get(ctxd["loc"], ctxd["loc"])
            ctx = M.MutationContext(keywords=a["schema"], non_keywords={}, location=loc,
                                    media_type="application/x-www-form-urlencoded" if ctxd["form"] else "application/json")
            sch = copy.deepcopy(a["schema"])
            wanted = [a.get("name"), a.get("choice"), a.get("candidate")]
            try:
                res = fn(ctx, GuidedDraw(GuidedChooser([w for w in wanted if w], a.get("enabled", []))), sch).name
            except KeyError as e:
                res = f"KeyError({e})"
            print("impl now :", res, json.dumps(canon(sch))[:2000])
    elif kind == "filter":
        cfg = GenerationConfig(modes=[GenerationMode.NEGATIVE])
        strat = H.make_negative_strategy(copy.deepcopy(r["schema"]), "POST /replay", r["location"], "application/json", cfg)
        vals, stop = draw_real(strat, 15, r["hypothesis_seed"])
        for v in vals:
            print("impl now : value", json.dumps(canon(v))[:200], "jsonschema valid:", G.js_valid(r["schema"], canon(v), True))
        print("recorded :", json.dumps(r["value"])[:500], "lean valid:",
              drv.one("valid", {"env": G.lean_env(r["schema"], r["value"]), "schema": r["schema"], "instance": r["value"]}))
    elif kind == "wire-witness":
        wire_witness(chk)
        print("impl now :", chk.variants.get("final-filter"), [v["what"] for v in chk.violations] + [k["what"] for k in chk.known_hits])
        print("model    :", drv.one("part", {"env": G.lean_env(r["schema"], r["value"]), "schema": r["schema"], "value": r["value"]}))
    else:
        print(json.dumps(r, indent=1, default=str)[:4000])
    return 0
