"""C03 — coverage-phase cases carry labels that match their content.

Correspondence: the real `coverage._positive_number`, `coverage.cover_schema_iter` and `builder._iter_coverage_cases`
against the Lean model (lean/SV/Model/C03*.lean) on the same schemas / operations; the two random sources of the
real code (`CoverageContext.generate_from_schema`, `.generate_from`) are recorded in call order and handed to the
model as its oracle.
Replay: every value the real code produced is judged against its label by the Lean reference semantics
(`validF`, through the driver) and by `jsonschema`; every real case's label is judged against its components.
"""
from __future__ import annotations

import itertools
import json
import math
import re
import sys
import warnings
from contextlib import contextmanager
from unittest import mock

import jsonschema

from harness.core import InfraError
from harness.gens import schemas as G
from harness.gens import c03_gen as GEN

from schemathesis.generation import GenerationMode
from schemathesis.generation import coverage as cov
from schemathesis.generation.hypothesis import examples as sx_examples

P, N = GenerationMode.POSITIVE, GenerationMode.NEGATIVE
MODES = {"P": [P], "N": [N], "PN": [P, N]}

# ---- known-finding signatures (narrow: call site + failing shape) ------------------------------------------------
KF_ZERO = "C03:_positive_number:zero-bound-treated-as-absent"
KF_EXCL = "C03:_positive_number:exclusive-bound-misread"
KF_UNSAT = "C03:_positive_number:no-multiple-in-range"


class Unmodelled(Exception):
    """The input leaves the modelled fragment (not a defect, not a disagreement)."""


# ---- wire encoding -------------------------------------------------------------------------------------------------

LOSSY = [0]  # bumped whenever a float with an integral value is flattened to an int on the wire


def enc(v):
    """Python value -> JSON for the driver; dicts keep their order ({"$o": [[k, v]…]})."""
    if isinstance(v, dict):
        return {"$o": [[str(k), enc(x)] for k, x in v.items()]}
    if isinstance(v, (list, tuple)):
        return [enc(x) for x in v]
    if isinstance(v, float):
        if math.isnan(v) or math.isinf(v):
            raise Unmodelled("nan/inf")
        if v == int(v):
            LOSSY[0] += 1  # 1.0 and 1 are the same JSON number; Python tells them apart only in `_to_hashable_key`
            return int(v)
        return v
    if v is None or isinstance(v, (bool, int, str)):
        if isinstance(v, str):
            try:
                v.encode("utf-8")
            except UnicodeEncodeError:
                raise Unmodelled("lone surrogate")
        return v
    raise Unmodelled(f"non-JSON value {type(v).__name__}")


def dec(j):
    if isinstance(j, dict):
        if set(j) == {"$o"}:
            return {k: dec(v) for k, v in j["$o"]}
        return {k: dec(v) for k, v in j.items()}
    if isinstance(j, list):
        return [dec(x) for x in j]
    return j


def py_same(a, b):
    """JSON equality with int/float told apart only by value, bools distinct from numbers, dict order ignored."""
    if isinstance(a, bool) or isinstance(b, bool):
        return isinstance(a, bool) and isinstance(b, bool) and a == b
    if isinstance(a, (int, float)) and isinstance(b, (int, float)):
        return a == b
    if type(a) is not type(b):
        return False
    if isinstance(a, dict):
        return a.keys() == b.keys() and all(py_same(a[k], b[k]) for k in a)
    if isinstance(a, list):
        return len(a) == len(b) and all(py_same(x, y) for x, y in zip(a, b))
    return a == b


# ---- description classes ------------------------------------------------------------------------------------------

_SIMPLE = {
    "Enum value": "enum-value", "Const value": "const-value", "Value null value": "null-value",
    "Valid boolean value": "valid-boolean", "Example value": "example-value", "Default value": "default-value",
    "Valid number": "valid-number", "Minimum value": "minimum-value", "Near-boundary number": "near-boundary-number",
    "Maximum value": "maximum-value", "Valid string": "valid-string", "Minimum length string": "min-length-string",
    "Near-boundary length string": "near-boundary-string", "Maximum length string": "max-length-string",
    "Valid array": "valid-array", "Near-boundary items array": "near-boundary-items",
    "Maximum items array": "max-items-array", "Valid object": "valid-object",
    "Object with all required and a subset of optional properties": "object-subset",
    "Object with only required properties": "object-only-required",
    "Invalid enum value": "invalid-enum", "Incorrect type": "incorrect-type",
    "Value greater than maximum": "greater-than-maximum", "Value smaller than minimum": "smaller-than-minimum",
    "String smaller than minLength": "smaller-than-min-length", "String larger than maxLength": "larger-than-max-length",
    "Non-unique items": "non-unique", "Object with unexpected properties": "unexpected-properties",
}
_PATTERNS = [
    (re.compile(r"^Object with all required properties and '(.*)'$", re.S), lambda m: f"object-required-and:{m.group(1)}"),
    (re.compile(r"^Object with valid '(.*?)' value: (.*)$", re.S), lambda m: f"object-valid:{m.group(1)}:{classify(m.group(2))}"),
    (re.compile(r"^Object with invalid '(.*?)' value: (.*)$", re.S), lambda m: f"object-invalid:{m.group(1)}:{classify(m.group(2))}"),
    (re.compile(r"^Array with invalid items: (.*)$", re.S), lambda m: f"array-invalid-items:{classify(m.group(1))}"),
    (re.compile(r"^Missing required property: (.*)$", re.S), lambda m: f"missing-required:{m.group(1)}"),
    (re.compile(r"^Non-multiple of ", re.S), lambda m: "non-multiple"),
    (re.compile(r"^Value not matching the '.*' pattern$", re.S), lambda m: "not-matching-pattern"),
    (re.compile(r"^Value not matching the '.*' format$", re.S), lambda m: "not-matching-format"),
]


def classify(description: str) -> str:
    """Python description string -> the class token the Lean model renders (unknown text -> 'other')."""
    if description in _SIMPLE:
        return _SIMPLE[description]
    for rx, f in _PATTERNS:
        m = rx.match(description)
        if m:
            return f(m)
    return "other"


def exempt(token: str) -> bool:
    return token.split(":")[-1] in ("example-value", "default-value") and (
        token in ("example-value", "default-value") or token.startswith("object-valid:"))


# ---- recording the oracle ------------------------------------------------------------------------------------------

class Recorder:
    def __init__(self):
        self.calls = []  # {"kind": "schema"|"strategy", "req": …, "ans": {"val": v}|{"raise": cls}}
        self.depth = 0


@contextmanager
def recording():
    """Patch the two random sources of CoverageContext (class level: with_positive()/with_negative() build fresh
    contexts) and log (request, answer) of every *outermost* call in order."""
    rec = Recorder()
    orig_schema = cov.CoverageContext.generate_from_schema
    orig_from = cov.CoverageContext.generate_from

    def gfs(self, schema):
        if rec.depth:
            return orig_schema(self, schema)
        rec.depth += 1
        entry = {"kind": "schema", "req": schema}
        try:
            v = orig_schema(self, schema)
            entry["ans"] = {"val": v}
            return v
        except BaseException as e:
            entry["ans"] = {"raise": type(e).__name__}
            raise
        finally:
            rec.depth -= 1
            rec.calls.append(entry)

    def gf(self, strategy):
        if rec.depth:
            return orig_from(self, strategy)
        rec.depth += 1
        entry = {"kind": "strategy", "req": sys._getframe(1).f_code.co_name}
        try:
            v = orig_from(self, strategy)
            entry["ans"] = {"val": v}
            return v
        except BaseException as e:
            entry["ans"] = {"raise": type(e).__name__}
            raise
        finally:
            rec.depth -= 1
            rec.calls.append(entry)

    with mock.patch.object(cov.CoverageContext, "generate_from_schema", gfs), \
            mock.patch.object(cov.CoverageContext, "generate_from", gf):
        yield rec


def wire_orc(rec: Recorder):
    out = []
    for c in rec.calls:
        a = c["ans"]
        out.append({"val": enc(a["val"])} if "val" in a else {"raise": True})
    return out


def gv_obs(gv):
    """observable of one GeneratedValue"""
    return {"value": gv.value, "mode": gv.generation_mode.value, "desc": classify(gv.description),
            "loc": gv.location, "param": gv.parameter, "text": gv.description}


def same_gv(model, impl):
    """model GV (wire) vs real GV observable; descriptions compared by class, unknown real text matches anything"""
    if model["mode"] != impl["mode"] or not py_same(dec(model["value"]), impl["value"]):
        return False
    if impl["desc"] != "other" and "other" not in impl["desc"] and model["desc"] != impl["desc"]:
        return False
    if model["loc"] != impl["loc"] or model["param"] != impl["param"]:
        return False
    return True


def same_out(model_out, impl_out):
    return len(model_out) == len(impl_out) and all(same_gv(m, i) for m, i in zip(model_out, impl_out))


def brief(impl_out):
    return [[o["mode"][:3], o["value"], o["desc"], o["loc"]] for o in impl_out]


# ---- reference judgement -------------------------------------------------------------------------------------------

def has_bool_exclusive(s):
    return isinstance(s, dict) and any(isinstance(s.get(k), bool) for k in ("exclusiveMinimum", "exclusiveMaximum"))


def has_num_exclusive(s):
    return isinstance(s, dict) and any(
        isinstance(s.get(k), (int, float)) and not isinstance(s.get(k), bool) for k in ("exclusiveMinimum", "exclusiveMaximum"))


def draft_of(schema):
    """'4' | '2020' | None (mixed forms somewhere: no independent oracle)"""
    b = n = False

    def fn(node):
        nonlocal b, n
        b = b or has_bool_exclusive(node)
        n = n or has_num_exclusive(node)
    G._walk(schema, fn)
    c = False

    def cfn(node):
        nonlocal c
        c = c or (isinstance(node, dict) and "const" in node)
    G._walk(schema, cfn)
    if b and (n or c):
        return None
    return "4" if b else "2020"


def wire_norm(v):
    """a float with an integral value is the same JSON number as the int"""
    if isinstance(v, float) and not (math.isnan(v) or math.isinf(v)) and v == int(v):
        return int(v)
    if isinstance(v, list):
        return [wire_norm(x) for x in v]
    if isinstance(v, dict):
        return {k: wire_norm(x) for k, x in v.items()}
    return v


FORMAT_CHECKER = jsonschema.Draft202012Validator.FORMAT_CHECKER


def fmt_table(schema, values):
    """[[format, value, conforms]] for every format named in the schema x every string inside the instances"""
    fmts, strs = set(), []

    def sfn(n):
        if isinstance(n, dict) and isinstance(n.get("format"), str):
            fmts.add(n["format"])

    def ifn(n):
        if isinstance(n, str) and n not in strs:
            strs.append(n)
    G._walk(schema, sfn)
    for v in values:
        G._walk(v, ifn)
    out = []
    for f in sorted(fmts):
        for x in strs:
            try:
                ok = FORMAT_CHECKER.conforms(x, f)
            except Exception:
                ok = True
            out.append([f, x, bool(ok)])
    return out


def validator_for(schema):
    d = draft_of(schema)
    if d is None:
        return None
    cls = jsonschema.Draft4Validator if d == "4" else jsonschema.Draft202012Validator
    return cls(schema, format_checker=FORMAT_CHECKER)


def js_judge(schema, values):
    if draft_of(schema) is None:
        return None
    out = []
    with warnings.catch_warnings():
        warnings.simplefilter("ignore")
        try:
            v = validator_for(schema)
            for x in values:
                out.append(v.is_valid(wire_norm(x)))
        except Exception:
            return None
    return out


def judge_batch(chk, drv, items, descs=None):
    """items: [(schema, [values])] -> [[bool]] by the Lean reference semantics, cross-checked with jsonschema.
    descs (optional, parallel to items): [[class token or None]] -> the answers become [[valid, violates_as_described]]."""
    reqs = []
    for idx, (schema, values) in enumerate(items):
        env = {"oas": "none", "re": [], "fmt": []}
        tbl = []
        for v in values:
            tbl += G.re_table(schema, v)
        seen, uniq = set(), []
        for p, s, b in tbl:
            if (p, s) not in seen:
                seen.add((p, s))
                uniq.append([p, s, b])
        env["re"] = uniq
        try:
            env["fmt"] = [[f, enc(x), b] for f, x, b in fmt_table(schema, values)]
        except Unmodelled:
            env["fmt"] = []
        a = {"env": env, "schema": enc(schema), "values": [enc(v) for v in values]}
        if descs is not None:
            a["descs"] = descs[idx]
        reqs.append(("judge", a))
    outs = drv.batch(reqs)
    described = None
    if descs is not None:
        described = [[x[1] for x in o] if isinstance(o, list) else o for o in outs]
        outs = [[x[0] for x in o] if isinstance(o, list) else o for o in outs]
    for (schema, values), o in zip(items, outs):
        if isinstance(o, dict) and "__err__" in o:
            raise InfraError(f"judge failed: {o} on {schema}")
        ref = js_judge(schema, values)
        if ref is not None and ref != o:
            i = next(i for i, (a, b) in enumerate(zip(ref, o)) if a != b)
            raise InfraError(f"Lean validF != jsonschema: schema={json.dumps(schema)} instance={values[i]!r} "
                             f"lean={o[i]} jsonschema={ref[i]}")
    return outs if descs is None else (outs, described)


def _format_in(schema):
    found = False

    def fn(n):
        nonlocal found
        if isinstance(n, dict) and "format" in n:
            found = True
    G._walk(schema, fn)
    return found


# ---- mechanism 1: _positive_number on the exhaustive numeric grid ---------------------------------------------------

def numeric_grid(thorough):
    bounds = [None, -2, -1, 0, 1, 2]
    ex_forms = [None, True, False, -1, 0, 1] if thorough else [None, True, False, 0, 1]
    mults = [None, 1, 2, 3]
    for ty in ("integer", "number"):
        for mn, mx, en, ex, mo in itertools.product(bounds, bounds, ex_forms, ex_forms, mults):
            s = {"type": ty}
            if mn is not None:
                s["minimum"] = mn
            if mx is not None:
                s["maximum"] = mx
            if en is not None:
                s["exclusiveMinimum"] = en
            if ex is not None:
                s["exclusiveMaximum"] = ex
            if mo is not None:
                s["multipleOf"] = mo
            yield s


def run_positive_number(schema):
    ctx = cov.CoverageContext(location="body", generation_modes=[P, N])
    with recording() as rec:
        try:
            out = [gv_obs(g) for g in cov._positive_number(ctx, schema)]
        except Exception as e:
            return None, rec, e
    return out, rec, None


SITES = ("vz", "vx", "vc")     # `_positive_number`: zero bound (F6), exclusive bounds (F7), crossing guard (F6c)
KF_OF_SITE = {"vz": KF_ZERO, "vx": KF_EXCL, "vc": KF_UNSAT}
NUM_REPAIRED = {"vz": "repaired", "vx": "repaired", "vc": "repaired"}
# the other variant sites of the model (`Vs` in lean/SV/Model/C03.lean): repairs proposed in proposed_fixes/C03-*.diff,
# detected on the tree by witness so that the correspondence follows whatever subset of them the tree carries
OTHER_SITES = {"vl": "_positive_string:crossing-lengths (F34)", "va": "additionalProperties-arm:not-value (F35)",
               "vt": "_get_template_schema:required (F36)", "vm": "_positive_object:minProperties (F37)",
               "vf": "cover_schema_iter:false-schema (F40)"}
TREE_VS = [{**NUM_REPAIRED, **{k: "asFound" for k in OTHER_SITES}}]      # set by detect_variants (run / replay)


def detect_number_variants(chk):
    """which variant of each defect site of `_positive_number` the tree exhibits, by witness on the real code"""
    out, _, _ = run_positive_number({"type": "integer", "minimum": 0, "maximum": 0})
    vz = "asFound" if out is not None and any(o["value"] == 1 for o in out) else "repaired"
    out, _, _ = run_positive_number({"type": "integer", "minimum": 5, "exclusiveMinimum": True})
    vx = "asFound" if out is not None and any(o["value"] in (2, 3) for o in out) else "repaired"
    # F6c: no multiple of 3 in [1, 2]; and crossing inclusive bounds
    out, _, _ = run_positive_number({"type": "integer", "minimum": 1, "maximum": 2, "multipleOf": 3})
    out2, _, _ = run_positive_number({"type": "integer", "minimum": 3, "maximum": 1})
    vc = "asFound" if (out is not None and any(o["value"] in (3, 0) for o in out)) or \
        (out2 is not None and any(o["desc"] in ("minimum-value", "maximum-value") for o in out2)) else "repaired"
    chk.variants["_positive_number:zero-bound"] = vz
    chk.variants["_positive_number:exclusive-bound"] = vx
    chk.variants["_positive_number:crossing-guard"] = vc
    return {"vz": vz, "vx": vx, "vc": vc}


def detect_variants(chk):
    """the variant vector of the tree: every site by its witness on the real code"""
    vs = detect_number_variants(chk)
    obj = {"type": "object", "properties": {"a": {"type": "integer"}}}
    out, _, _ = run_cover({"type": "string", "minLength": 1, "maxLength": 0}, "P", "body")
    vs["vl"] = "asFound" if out else "repaired"
    out, _, _ = run_cover({**obj, "additionalProperties": {}}, "N", "body")
    vs["va"] = "asFound" if any(o["desc"] == "unexpected-properties" for o in out) else "repaired"
    _, rec, _ = run_cover({**obj, "required": ["a", "zz"]}, "P", "body")
    first = next((c["req"] for c in rec.calls if c["kind"] == "schema" and isinstance(c["req"], dict)), {})
    vs["vt"] = "repaired" if "zz" in (first.get("required") or []) else "asFound"
    out, _, _ = run_cover({**obj, "minProperties": 1}, "P", "body")
    vs["vm"] = "asFound" if any(o["value"] == {} for o in out) else "repaired"
    out, _, _ = run_cover(False, "P", "body")
    vs["vf"] = "asFound" if out else "repaired"
    for k, name in OTHER_SITES.items():
        chk.variants[name] = vs[k]
    TREE_VS[0] = dict(vs)
    return vs


def attribution_variants(vs):
    """the variant vectors the attribution of a wrong positive number needs: the tree's own, the three `_positive_number`
    sites repaired, and the tree's with one of them flipped to repaired (single-site variants)"""
    return [dict(vs), {**vs, **NUM_REPAIRED}] + [{**vs, site: "repaired"} for site in SITES]


def positive_number_mechanism(chk, drv, schemas, mech, vs):
    runs = []
    for s in schemas:
        out, rec, err = run_positive_number(s)
        runs.append((s, out, rec, err))
    models = drv.batch([("posnum", {"schema": enc(s), "orc": wire_orc(rec) if err is None else [], **vs,
                                    "judge": [enc(o["value"]) for o in out] if out is not None else []})
                        for s, out, rec, err in runs])
    verdicts = iter([m.get("valid", []) for (s, out, rec, err), m in zip(runs, models) if out is not None])
    for i, ((s, out, rec, err), m) in enumerate(zip(runs, models)):  # independent oracle on (a third of) the same values
        if out is not None and (chk.thorough or i % 3 == 0):
            ref = js_judge(s, [o["value"] for o in out])
            if ref is not None and ref != m.get("valid"):
                raise InfraError(f"Lean validF != jsonschema on {s}: {[o['value'] for o in out]} lean={m.get('valid')} jsonschema={ref}")
    pending = []
    for (s, out, rec, err), m in zip(runs, models):
        if err is not None:
            chk.case(mech, key=s, nontrivial=False)
            chk.feature(f"{mech}:impl-raised:{type(err).__name__}")
            continue
        verdict = next(verdicts)
        chk.case(mech, key=s, nontrivial=len(out) > 0, sample={"schema": s, "impl": brief(out)})
        chk.feature(f"{mech}:values={len(out)}")
        if "__err__" in m:
            raise InfraError(f"model error {m} on {s}")
        if m["status"] == "unsupported":
            chk.feature(f"{mech}:unmodelled")
        elif m["status"] != "ok" or m["left"] != 0 or not same_out(m["out"], out):
            chk.disagreement(mech, {"schema": s, "oracle": wire_orc(rec)}, {"status": m["status"], "out": m["out"]},
                             brief(out))
        # ---- replay: the reference semantics judges what the implementation produced
        for o, ok in zip(out, verdict):
            chk.feature(f"{mech}:label:{'ok' if ok or exempt(o['desc']) else 'WRONG'}")
            if not (exempt(o["desc"]) or ok):
                pending.append((s, out, rec, o))
    reqs = []
    for s, out, rec, o in pending:
        for v in attribution_variants(vs):
            reqs.append(("posnum", {"schema": enc(s), "orc": wire_orc(rec), **v}))
    outs = iter(drv.batch(reqs))
    for s, out, rec, o in pending:
        ms = [next(outs) for _ in range(2 + len(SITES))]
        sig = number_signature(vs, o, ms) or "C03:_positive_number:invalid-positive-value"
        chk.violation(sig, f"_positive_number labels {o['value']!r} ('{o['text']}') positive but it violates the schema",
                      {"mechanism": "positive_number", "schema": s, "value": o["value"], "description": o["text"],
                       "impl": brief(out)})


def attribute_site(vs, emits):
    """vs: the tree's variants; emits: [tree, all-repaired, flip vz, flip vx, flip vc] -> does that variant of
    `_positive_number` emit the wrong value?  -> the defect site the value is due to, or None when the catalogued sites
    do not explain it (the fully repaired generator emits it too, or not even the tree's own variant does)."""
    tree, repaired, flips = emits[0], emits[1], dict(zip(SITES, emits[2:]))
    if not tree or repaired:
        return None
    found = [site for site in ("vx", "vz", "vc") if vs[site] == "asFound"]
    for site in found:
        if not flips[site]:          # repairing this one site alone removes the value
            return site
    return found[0] if found else None


def number_signature(vs, o, ms):
    """attribute an invalid positive number to F6 / F7 / F6c with the single-site variants of the Lean model"""
    def has(m):
        return any(g["mode"] == "positive" and g["desc"] == o["desc"] and py_same(dec(g["value"]), o["value"])
                   for g in m.get("out", []))
    if any(m.get("status") != "ok" for m in ms):
        return None
    site = attribute_site(vs, [has(m) for m in ms])
    return KF_OF_SITE[site] if site else None


def py_boundary(schema, v):
    """transcription of the boundary part of coverage._positive_number with the three defect sites switchable; used ONLY to
    name the site behind a wrong value when the schema has fractional keywords (outside the integer-valued Lean model)"""
    minimum, maximum = schema.get("minimum"), schema.get("maximum")
    en, ex, mo = schema.get("exclusiveMinimum"), schema.get("exclusiveMaximum"), schema.get("multipleOf")
    if v["vx"] == "asFound":
        minimum = en + 1 if en is not None else minimum
        maximum = ex - 1 if ex is not None else maximum
    else:
        if isinstance(en, bool):
            minimum = minimum + 1 if en and minimum is not None else minimum
        elif en is not None:
            minimum = en + 1 if minimum is None else max(minimum, en + 1)
        if isinstance(ex, bool):
            maximum = maximum - 1 if ex and maximum is not None else maximum
        elif ex is not None:
            maximum = ex - 1 if maximum is None else min(maximum, ex - 1)
    absent = (lambda b: not b) if v["vz"] == "asFound" else (lambda b: b is None)
    guard = v["vc"] == "repaired"
    out, seen = [], set()
    if minimum is not None:
        smallest = cov.closest_multiple_greater_than(minimum, mo) if mo is not None else minimum
        if not guard or maximum is None or smallest <= maximum:
            seen.add(smallest)
            out.append((smallest, "minimum-value"))
        larger = smallest + mo if mo is not None else minimum + 1
        if larger not in seen and (absent(maximum) or larger <= maximum):
            seen.add(larger)
            out.append((larger, "near-boundary-number"))
    if maximum is not None:
        largest = maximum - (maximum % mo) if mo is not None else maximum
        if largest not in seen and (not guard or minimum is None or largest >= minimum):
            seen.add(largest)
            out.append((largest, "maximum-value"))
        smaller = largest - mo if mo is not None else maximum - 1
        if smaller not in seen and (smaller > 0 and (minimum is None or smaller >= minimum)):
            out.append((smaller, "near-boundary-number"))
    return out


def py_number_site(sub, o):
    """the same attribution on the Python transcription (fractional keywords)"""
    vs = TREE_VS[0]
    if not isinstance(o["value"], (int, float)) or isinstance(o["value"], bool):
        return None
    try:
        emits = [any(d == o["desc"] and py_same(x, o["value"]) for x, d in py_boundary(sub, v)) for v in attribution_variants(vs)]
    except Exception:
        return None
    return attribute_site(vs, emits)


# ---- mechanism 2: cover_schema_iter ----------------------------------------------------------------------------------

SWALLOWED = ("Unsatisfiable", "SchemaError", "InvalidArgument", "RefResolutionError", "TypeError")


def run_cover(schema, modes_key, location):
    """real cover_schema_iter -> (values, recorder, escaping exception or None)"""
    import copy
    ctx = cov.CoverageContext(location=location, generation_modes=list(MODES[modes_key]))
    out = []
    with recording() as rec:
        try:
            for g in cov.cover_schema_iter(ctx, copy.deepcopy(schema)):
                out.append(gv_obs(g))
        except Exception as e:  # escapes every _ignore_unfixable: the call as a whole fails
            return out, rec, e
    return out, rec, None


def invalid_regex_inside(schema):
    bad = False

    def fn(n):
        nonlocal bad
        if isinstance(n, dict):
            for p in [n.get("pattern")] + list((n.get("patternProperties") or {}).keys() if isinstance(n.get("patternProperties"), dict) else []):
                if isinstance(p, str):
                    try:
                        re.compile(p)
                    except re.error:
                        bad = True
    G._walk(schema, fn)
    return bad


def same_calls(model_calls, rec):
    """requests the model believes were made vs the recorded ones (answers are equal by construction)"""
    if len(model_calls) != len(rec.calls):
        return False
    for m, r in zip(model_calls, rec.calls):
        req = m["req"]
        if r["kind"] == "schema":
            if "schema" not in req or not py_same(dec(req["schema"]), r["req"]):
                return False
        elif r["kind"] == "strategy":
            if req.get("strategy") != r["req"].lstrip("_"):
                return False
    return True


def cover_request(schema, orc, modes_key, location, vs):
    return ("cover", {"schema": enc(schema), "orc": orc, **vs, "location": location,
                      "pos": "P" in modes_key, "neg": "N" in modes_key})


def path_get(schema, loc):
    """the sub-schema a location like '/anyOf/0/minimum' points into (parent of the last component)"""
    node = schema
    parts = [p for p in (loc or "").split("/") if p != ""]
    for p in parts[:-1]:
        if isinstance(node, dict) and p in node:
            node = node[p]
        elif isinstance(node, list) and p.isdigit() and int(p) < len(node):
            node = node[int(p)]
        else:
            return None
    return node


COMBINATORS = ("anyOf", "oneOf", "allOf", "not")


def erase(schema, keys):
    """the schema with the given keywords removed everywhere"""
    if isinstance(schema, dict):
        return {k: erase(v, keys) for k, v in schema.items() if k not in keys}
    if isinstance(schema, list):
        return [erase(x, keys) for x in schema]
    return schema


def py_valid(schema, value):
    try:
        with warnings.catch_warnings():
            warnings.simplefilter("ignore")
            v = validator_for(schema)
            return None if v is None else v.is_valid(wire_norm(value))
    except Exception:
        return None


def contains_key(schema, keys):
    hit = False

    def fn(n):
        nonlocal hit
        if isinstance(n, dict) and any(k in n for k in keys):
            hit = True
    G._walk(schema, fn)
    return hit


def bounds_unsatisfiable(schema):
    """some (sub-)schema has crossing length bounds (minLength > maxLength, minItems > maxItems, minProperties >
    maxProperties).  Numeric bounds are NOT part of this shape: since 2d700c38 `_positive_number` tests every boundary value
    against the opposite bound, so a wrong number under crossing numeric bounds would be a new defect."""
    bad = False

    def fn(n):
        nonlocal bad
        if not isinstance(n, dict):
            return
        for lo, hi in (("minLength", "maxLength"), ("minItems", "maxItems"), ("minProperties", "maxProperties")):
            a, b = n.get(lo), n.get(hi)
            if isinstance(a, (int, float)) and isinstance(b, (int, float)) and not isinstance(a, bool) and not isinstance(b, bool):
                if a > b:
                    bad = True
    G._walk(schema, fn)
    return bad


def embedded(value, container):
    """value occurs inside container (the container itself, a member, an item)"""
    if py_same(value, container):
        return True
    if isinstance(container, dict):
        return any(embedded(value, x) for x in container.values())
    if isinstance(container, list):
        return any(embedded(value, x) for x in container)
    return False


def related(ans, value, desc=""):
    """the emitted value was derived from this oracle answer (it contains it, is a part of it, shares members with it,
    is the answer doubled: `unique + unique`, or — in the minLength / maxLength arms, which shrink or pad an answer
    obtained without the length keywords — is the answer cut by `[:max_length]` / padded by `.ljust(max_length, "0")`)"""
    if embedded(ans, value) or embedded(value, ans):
        return True
    if desc.split(":")[-1] in ("smaller-than-min-length", "larger-than-max-length") and isinstance(ans, (str, list)) \
            and type(ans) is type(value):
        if value == ans[:len(value)] or (isinstance(ans, str) and value.startswith(ans)):
            return True
    if isinstance(ans, dict) and isinstance(value, dict):
        return any(k in ans and py_same(ans[k], v) for k, v in value.items())
    if isinstance(ans, list) and isinstance(value, list):
        return value == ans + ans
    return False


def unsound_oracle_call(rec, o):
    """the recorded generate_from_schema call whose answer is (embedded in) the value although the request schema
    rejects that answer: coverage.generate_from_schema's own fast paths (enum / pattern / properties) ignore the
    other keywords of the request"""
    for c in rec.calls:
        if c["kind"] != "schema" or "val" not in c["ans"] or not isinstance(c["req"], dict):
            continue
        ans = c["ans"]["val"]
        if not related(ans, o["value"], o.get("desc", "")):
            continue
        if py_valid(c["req"], ans) is False:
            req = c["req"]
            if "enum" in req:
                return "enum-path"
            if "pattern" in req:
                # the recorded finding F33b is about what the fast path CANNOT take into account: a sibling `format`, or
                # length bounds that update_quantifier cannot fold into this pattern.  When the bounds can be folded in
                # (the rewritten pattern differs) and the answer matches the pattern but misses the bounds, the fast path
                # did not do what it is written to do: that is not F33b
                lo, hi = req.get("minLength"), req.get("maxLength")
                if isinstance(ans, str) and (lo is not None or hi is not None):
                    try:
                        from schemathesis.specs.openapi.patterns import update_quantifier as _uq
                        merged = _uq(req["pattern"], lo, hi) != req["pattern"]
                    except Exception:  # noqa: BLE001
                        merged = False
                    length_only = py_valid({k: v for k, v in req.items() if k not in ("minLength", "maxLength")}, ans) is not False
                    if merged and length_only:
                        return "pattern-path-length-bounds-not-folded-into-a-foldable-pattern"
                return "pattern-path"
            if "properties" in req:
                return "properties-path"
            if "items" in req:
                return "items-path"
            return "from-schema-answer-violates-request"
    return None


FAMILY = {  # keyword -> JSON type it constrains
    "minimum": "number", "maximum": "number", "exclusiveMinimum": "number", "exclusiveMaximum": "number", "multipleOf": "number",
    "minLength": "string", "maxLength": "string", "pattern": "string", "format": "string",
    "items": "array", "minItems": "array", "maxItems": "array", "uniqueItems": "array",
    "properties": "object", "required": "object", "additionalProperties": "object",
}
NUMERIC_CLASSES = ("minimum-value", "maximum-value", "near-boundary-number", "valid-number")


def types_of(sdict):
    t = sdict.get("type")
    if isinstance(t, str):
        return [t]
    if isinstance(t, list):
        return [x for x in t if isinstance(x, str)]
    return []


def branches_of(schema):
    """all sub-schemas sitting under anyOf / oneOf / allOf anywhere in the schema"""
    out = []

    def fn(n):
        if isinstance(n, dict):
            for k in ("anyOf", "oneOf", "allOf"):
                if isinstance(n.get(k), list):
                    out.extend(n[k])
    G._walk(schema, fn)
    return out


def erase_side(schema, side):
    keys = {"max": ("maxLength", "maxItems", "maxProperties"), "min": ("minLength", "minItems", "minProperties")}[side]
    return erase(schema, keys)


def json_type(v):
    if v is None:
        return "null"
    if isinstance(v, bool):
        return "boolean"
    if isinstance(v, (int, float)):
        return "number"
    if isinstance(v, str):
        return "string"
    if isinstance(v, list):
        return "array"
    return "object"


def value_at(value, schema_parts):
    """the part of an (object / array-wrapped) value that a schema path like properties/a/items points at"""
    v = value
    i = 0
    while i < len(schema_parts):
        p = schema_parts[i]
        if p == "properties" and i + 1 < len(schema_parts) and isinstance(v, dict) and schema_parts[i + 1] in v:
            v = v[schema_parts[i + 1]]
            i += 2
        elif p == "items" and isinstance(v, list) and v:
            v = v[0]
            i += 1
        else:
            i += 1
    return v


def member_of_some_enum(schema, value):
    hit = False

    def fn(n):
        nonlocal hit
        if isinstance(n, dict):
            if isinstance(n.get("enum"), list) and any(py_same(value, x) for x in n["enum"]):
                hit = True
            if "const" in n and py_same(value, n["const"]):
                hit = True
    G._walk(schema, fn)
    return hit


def oracle_shape(path):
    if path.startswith("pattern-path-length"):
        return f"generate_from_schema:{path}"
    return (f"generate_from_schema:{path}" if path.startswith("from-schema") else
            f"generate_from_schema:{path}-ignores-sibling-keywords")


def descend(schema, o):
    """follow a positive object / array value down to the member that its own sub-schema rejects"""
    while True:
        sdict = schema if isinstance(schema, dict) else {}
        props, value = sdict.get("properties"), o["value"]
        step = None
        if isinstance(value, dict) and isinstance(props, dict):
            for name, v in value.items():
                if name in props and py_valid(props[name], v) is False:
                    d = o["desc"]
                    sub = d[len(f"object-valid:{name}:"):] if d.startswith(f"object-valid:{name}:") else "valid-object"
                    step = (props[name], {**o, "value": v, "desc": sub})
                    break
        if step is None:
            return schema, o
        schema, o = step


def shape_of_violation(schema, o, rec):
    """narrow 'failing shape' of a label violation produced by cover_schema_iter: the first root cause (findings/C03.json)
    whose *test* explains this very value, else an 'unexplained' tag carrying mode and description class.
    Every test asks whether the generator was right locally and wrong only because of the named cause, so that a
    regression inside an arm is not mistaken for a catalogued finding."""
    loc = o["loc"] or ""
    parts = [p for p in loc.split("/") if p]
    top = o["desc"].split(":")[0]
    inner = o["desc"].split(":")[-1]
    sdict = schema if isinstance(schema, dict) else {}
    value = o["value"]
    if o["mode"] == "negative":
        comb_at = next((i for i in range(len(parts) - 1, -1, -1) if parts[i] in COMBINATORS), None)   # innermost branch
        if comb_at is not None:
            # the branch the value was negated against must itself reject (the relevant part of) the value
            if comb_at + 1 < len(parts) and parts[comb_at + 1].isdigit():
                branch = path_get(schema, "/" + "/".join(parts[: comb_at + 2] + ["x"]))
            else:   # allOf with several members is canonicalised first: the "branch" is the merged allOf itself
                holder = path_get(schema, "/" + "/".join(parts[: comb_at] + ["x"]))
                branch = {"allOf": holder.get("allOf")} if isinstance(holder, dict) else None
            inner_value = value_at(value, parts[:comb_at])
            if branch is not None and py_valid(branch, inner_value) is False:
                return "negative-of-one-branch-accepted-by-schema"
        if inner in ("greater-than-maximum", "smaller-than-minimum") and embedded_bool(value):
            return "draft4-boolean-exclusive-bound-emitted-as-value"
        node = path_get(schema, loc)
        if inner == "unexpected-properties" and isinstance(node, dict) and isinstance(node.get("additionalProperties"), dict):
            return "additionalProperties-schema-treated-as-false"
        path = unsound_oracle_call(rec, o)
        if path:
            return oracle_shape(path)
        if inner == "not-matching-format" and isinstance(node, dict) and node.get("format") not in FORMAT_CHECKER.checkers:
            return "negative-format-not-checked"
        kw = parts[-1] if parts else ""
        if isinstance(node, dict) and kw in FAMILY:
            # the value the oracle returned for the negated request is not of the keyword's JSON type at all
            inner_value = value_at(value, parts[:-1])
            if json_type(inner_value) != FAMILY[kw]:
                return "negated-keyword-not-applicable-to-declared-type"
        return f"unexplained:negative:{inner}"
    # ---- positive value rejected by the schema
    if schema is False:
        return "false-schema-treated-as-accepting"
    if inner in ("enum-value", "const-value") and top in ("enum-value", "const-value") and member_of_some_enum(schema, value):
        return "enum-or-const-value-emitted-unchecked"
    if contains_key(schema, COMBINATORS):
        # right for the combinator-free schema or for one branch, wrong for the whole
        cands = [erase(schema, COMBINATORS)] + branches_of(schema)
        if any(py_valid(c, value) is True for c in cands if isinstance(c, (dict, bool))):
            return "positive-next-to-combinator-rejected"
        # wrong already for the branch it was generated for: the cause sits inside that branch
        for b_ in sdict.get("anyOf", []) + sdict.get("oneOf", []) + sdict.get("allOf", []) if all(
                isinstance(sdict.get(k_, []), list) for k_ in ("anyOf", "oneOf", "allOf")) else []:
            if isinstance(b_, dict):
                sub = shape_of_violation(b_, o, rec)
                if not sub.startswith("unexplained"):
                    return sub
    # an object whose member is rejected by that member's own schema: the cause sits one level down
    props = sdict.get("properties")
    if isinstance(value, dict) and isinstance(props, dict):
        for name, v in value.items():
            if name in props and py_valid(props[name], v) is False:
                sub_desc = o["desc"][len(f"object-valid:{name}:"):] if o["desc"].startswith(f"object-valid:{name}:") else "valid-object"
                return shape_of_violation(props[name], {**o, "value": v, "desc": sub_desc}, rec)
    if isinstance(value, list) and isinstance(sdict.get("items"), dict):
        for v in value:
            if py_valid(sdict["items"], v) is False:
                return shape_of_violation(sdict["items"], {**o, "value": v, "desc": "valid-array"}, rec)
    if inner in ("enum-value", "const-value") and member_of_some_enum(schema, value):
        return "enum-or-const-value-emitted-unchecked"
    if bounds_unsatisfiable(schema) and (py_valid(erase_side(schema, "max"), value) is True or py_valid(erase_side(schema, "min"), value) is True):
        return "positive-on-crossing-bounds"
    path = unsound_oracle_call(rec, o)
    if path:
        return oracle_shape(path)
    if inner in NUMERIC_CLASSES:
        if has_integer_type_with_fraction(schema, value) and "integer" in types_of(sdict) \
                and py_valid({**sdict, "type": "number"}, value) is True:
            return "non-integer-boundary-for-integer-type"
        site = py_number_site(sdict, {**o, "desc": inner})
        if site:        # fractional keywords (integer-valued ones are attributed through the Lean model before this)
            return f"number-site:{site}"
    if top.startswith("object") or top == "valid-object":
        req = sdict.get("required")
        if isinstance(req, list) and isinstance(props, dict) or isinstance(req, list) and props is None:
            undeclared = [n for n in req if n not in (props or {})]
            relaxed = {**sdict, "required": [n for n in req if n not in undeclared]}
            if undeclared and (py_valid(relaxed, value) is True or py_valid(
                    erase_many(relaxed, ("minProperties", "maxProperties", "patternProperties", "additionalProperties")), value) is True):
                return "object-template-overrides-required"
        for kw in ("minProperties", "maxProperties", "patternProperties", "additionalProperties"):
            if kw in sdict and py_valid(erase_top(sdict, kw), value) is True:
                return "object-value-ignores-sibling-keyword"
    if top in ("valid-array", "near-boundary-items", "max-items-array"):
        for kw in ("uniqueItems", "minItems", "maxItems"):
            if kw in sdict and py_valid(erase_top(sdict, kw), value) is True:
                return "array-value-ignores-sibling-keyword"
    return f"unexplained:positive:{top}"


def embedded_bool(v):
    if isinstance(v, bool):
        return True
    if isinstance(v, dict):
        return any(embedded_bool(x) for x in v.values())
    if isinstance(v, list):
        return any(embedded_bool(x) for x in v)
    return False


def has_integer_type_with_fraction(schema, value):
    fr = False

    def vfn(n):
        nonlocal fr
        if isinstance(n, float) and n != int(n):
            fr = True
    G._walk(value, vfn)
    it = False

    def sfn(n):
        nonlocal it
        if isinstance(n, dict) and "integer" in types_of(n):
            it = True
    G._walk(schema, sfn)
    return fr and it


def erase_many(sdict, kws):
    return {k: v for k, v in sdict.items() if k not in kws}


def erase_top(sdict, kw):
    return {k: v for k, v in sdict.items() if k != kw}


def cover_mechanism(chk, drv, cases, vs):
    """cases: [(mechanism, schema, modes_key, location)] — one driver batch per phase for all mechanisms together"""
    runs = []
    for mech, schema, mk, loc in cases:
        before = LOSSY[0]
        out, rec, err = run_cover(schema, mk, loc)
        try:
            orc = wire_orc(rec)
            enc(schema)
            modelled = err is None and not invalid_regex_inside(schema)
        except Unmodelled:
            orc, modelled = [], False
        runs.append((schema, mk, loc, out, rec, err, orc, modelled, LOSSY[0] != before, mech))
    reqs = [cover_request(r[0], r[6], r[1], r[2], vs) for r in runs if r[7]]
    models = iter(drv.batch(reqs))
    judge_items = [(r[0], [o["value"] for o in r[3]]) for r in runs if _encodable(r[3])]
    judge_descs = [[o["desc"] if o["mode"] == "negative" and (o["loc"] or "").count("/") == 1 and isinstance(r[0], dict) else None
                    for o in r[3]] for r in runs if _encodable(r[3])]
    valid_lists, described_lists = judge_batch(chk, drv, judge_items, judge_descs)
    verdicts, describeds = iter(valid_lists), iter(described_lists)
    pending = []  # violations that need the single-site variants for their signature
    for schema, mk, loc, out, rec, err, orc, modelled, lossy, mech in runs:
        key = [schema, mk, loc]
        nontrivial = len(out) > 0
        chk.case(mech, key=key, nontrivial=nontrivial, sample={"schema": schema, "modes": mk, "location": loc, "impl": brief(out)[:8]})
        chk.feature(f"{mech}:modes={mk}")
        if err is not None:
            chk.feature(f"{mech}:impl-raised:{type(err).__name__}")
        if modelled:
            m = next(models)
            if "__err__" in m:
                raise InfraError(f"model error {m} on {schema}")
            if m["status"] == "unsupported":
                chk.feature(f"{mech}:unmodelled")
            elif m["status"] != "ok" or m["left"] != 0 or not same_out(m["out"], out) or not same_calls(m["calls"], rec):
                if lossy:
                    chk.feature(f"{mech}:unmodelled:integral-float")
                else:
                    chk.disagreement(mech, {"schema": schema, "modes": mk, "location": loc, "oracle": orc},
                                     {"status": m["status"], "left": m["left"],
                                      "out": [[g["mode"][:3], dec(g["value"]), g["desc"], g["loc"]] for g in m["out"]],
                                      "calls": [c["req"] for c in m["calls"]]},
                                     {"out": brief(out), "calls": [c["req"] for c in rec.calls]})
            else:
                chk.feature(f"{mech}:modelled-agree")
        elif err is None:
            chk.feature(f"{mech}:unmodelled:wire")
        # ---- replay
        if not _encodable(out):
            continue
        verdict, described = next(verdicts), next(describeds)
        for o, valid, as_described in zip(out, verdict, described):
            if exempt(o["desc"]):
                continue
            ok = valid if o["mode"] == "positive" else not valid
            chk.feature(f"{mech}:label:{o['mode']}:{'ok' if ok else 'WRONG'}")
            if ok and as_described is False:
                # rejected, but not for the reason the description gives
                chk.feature(f"{mech}:negative-not-as-described")
                upath = unsound_oracle_call(rec, o)
                shape = ("draft4-boolean-exclusive-bound-emitted-as-value"
                         if isinstance(o["value"], bool) and o["desc"] in ("greater-than-maximum", "smaller-than-minimum")
                         else oracle_shape(upath) if upath else f"negative-{o['desc']}-not-as-described")
                chk.violation(f"C03:cover_schema_iter:{shape}",
                              f"cover_schema_iter describes {o['value']!r} as '{o['text']}' (location {o['loc']}) but the value "
                              f"does not violate that keyword", {"mechanism": "cover", "schema": schema, "modes": mk,
                                                                 "location": loc, "value": o["value"], "description": o["text"],
                                                                 "label": o["mode"], "value_location": o["loc"]})
            if ok:
                continue
            pending.append((schema, mk, loc, o, orc if modelled else None, rec))
    resolve_cover_violations(chk, drv, pending, vs)


def _encodable(out):
    try:
        for o in out:
            enc(o["value"])
        return True
    except Unmodelled:
        return False


def resolve_cover_violations(chk, drv, pending, vs):
    """give every label violation its signature; positive numbers (also nested in objects) are attributed to F6/F7/F6c
    with the single-site variants of the `_positive_number` model on the sub-schema that rejects them"""
    reqs, numeric = [], []
    for idx, (schema, mk, loc, o, orc, rec) in enumerate(pending):
        if o["mode"] != "positive":
            continue
        sub, oo = descend(schema, o)
        if contains_key(sub, COMBINATORS):
            continue
        if oo["desc"] in ("minimum-value", "maximum-value", "near-boundary-number") and isinstance(sub, dict) \
                and isinstance(oo["value"], (int, float)) and not isinstance(oo["value"], bool):
            try:
                batch = [("posnum", {"schema": enc(sub), "orc": [{"val": 0}], **v}) for v in attribution_variants(vs)]
            except Unmodelled:
                continue
            reqs += batch
            numeric.append((idx, sub, oo))
    outs = iter(drv.batch(reqs))
    sigs = {}
    for idx, sub, oo in numeric:
        sigs[idx] = number_signature(vs, oo, [next(outs) for _ in range(2 + len(SITES))])
    for idx, (schema, mk, loc, o, orc, rec) in enumerate(pending):
        sig = sigs.get(idx)
        if sig is None:
            shape = shape_of_violation(schema, o, rec)
            sig = KF_OF_SITE[shape.split(":")[1]] if shape.startswith("number-site:") else f"C03:cover_schema_iter:{shape}"
        what = (f"cover_schema_iter labels {o['value']!r} ('{o['text']}', location {o['loc']}) {o['mode']} but the schema "
                f"{'rejects' if o['mode'] == 'positive' else 'accepts'} it")
        chk.violation(sig, what, {"mechanism": "cover", "schema": schema, "modes": mk, "location": loc,
                                  "value": o["value"], "description": o["text"], "label": o["mode"], "value_location": o["loc"]})


# ---- mechanism 3: builder._iter_coverage_cases -----------------------------------------------------------------------

KF_BODY = "C03:_iter_coverage_cases:body-case-labelled-with-first-value-mode"
KF_TEMPLATE = "C03:_iter_coverage_cases:negative-template-value-in-positive-case"
KF_OVERWRITE = "C03:Template.with_container:component-label-hides-negative-template-value"
KF_OMITTED = "C03:_iter_coverage_cases:required-parameter-without-values-omitted-from-positive-case"
KF_COERCE = "C03:_negative_type:string-coercible-value-for-string-parameter"
KIND_OF = {"query": "query", "path": "path_parameters", "header": "headers", "cookie": "cookies"}


@contextmanager
def recording_cover_calls():
    """record what every *top-level* cover_schema_iter call (those made by builder.py) yields"""
    calls = []
    active = [0]
    orig = cov.cover_schema_iter

    def wrapper(ctx, schema, seen=None):
        if active[0]:
            return orig(ctx, schema, seen)
        entry = {"location": ctx.location, "values": []}
        calls.append(entry)

        def gen():
            it = orig(ctx, schema, seen)
            while True:
                active[0] += 1
                try:
                    v = next(it)
                except StopIteration:
                    return
                finally:
                    active[0] -= 1
                entry["values"].append(v)
                yield v
        return gen()

    with mock.patch.object(cov, "cover_schema_iter", wrapper):
        yield calls


def classify_case(description: str) -> str:
    if description == "Default positive test case":
        return "default-positive"
    m = re.match(r"^Unspecified HTTP method: (.*)$", description)
    if m:
        return f"unspecified-method:{m.group(1)}"
    m = re.match(r"^Duplicate `(.*)` query parameter$", description, re.S)
    if m:
        return f"duplicate:{m.group(1)}"
    m = re.match(r"^Missing `(.*)` at (\w+)$", description, re.S)
    if m:
        return f"missing:{m.group(1)}:{m.group(2)}"
    if description == "Only required properties":
        return "only-required"
    m = re.match(r"^All required properties and optional '(.*)'$", description, re.S)
    if m:
        return f"required-and-optional:{m.group(1)}"
    m = re.match(r"^All required and (\d+) optional properties$", description)
    if m:
        return f"required-and-n:{m.group(1)}"
    return classify(description)


# -- the API description read without schemathesis: which methods a path documents, which parameters an operation requires

def _pointer(raw, ref):
    if not ref.startswith("#/"):
        raise InfraError(f"only local references are generated: {ref}")
    node = raw
    for part in ref[2:].split("/"):
        node = node[part.replace("~1", "/").replace("~0", "~")]
    return node


def doc_item(raw, path):
    """the Path Item Object of `path` (OAS: a path item may be given as a reference)"""
    entry = raw["paths"][path]
    return _pointer(raw, entry["$ref"]) if "$ref" in entry else entry


def doc_documented(raw, path):
    return {k for k in doc_item(raw, path) if k in GEN.HTTP8}


def _decl(raw, p):
    p = _pointer(raw, p["$ref"]) if "$ref" in p else p
    return p["name"], p["in"], bool(p.get("required", False))


def doc_required(raw, path, method):
    """{(name, location): required} for the operation: path-level declarations, overridden by the operation's own"""
    item = doc_item(raw, path)
    out = {}
    for level in (item.get("parameters", []), item[method].get("parameters", [])):
        for p in level:
            name, loc, req = _decl(raw, p)
            out[(name, loc)] = req
    return out


def _item_wire(raw, item):
    return {"keys": list(item.keys()), "shared": [list(_decl(raw, p)) for p in item.get("parameters", [])],
            "own": [[k, [list(_decl(raw, p)) for p in v.get("parameters", [])]]
                    for k, v in item.items() if k in GEN.HTTP8 and isinstance(v, dict)]}


def doc_wire(raw, path):
    """the document as the Lean model / specification take it (lean/Drivers/C03.lean: DOC)"""
    entry = raw["paths"][path]
    items = []
    for sec in GEN.PATH_ITEM_SECTIONS.values():
        node = raw
        for part in sec:
            node = node.get(part, {}) if isinstance(node, dict) else {}
        for name, it in node.items():
            items.append(["#/" + "/".join(sec) + "/" + name, _item_wire(raw, it)])
    e = {"ref": entry["$ref"]} if "$ref" in entry else {"inline": _item_wire(raw, entry)}
    return {"entry": e, "pathItems": items}


def run_cases(ps, body, methods, modes_key, ctx=None):
    import schemathesis
    from schemathesis.generation.hypothesis.builder import _iter_coverage_cases
    ctx = ctx or {}
    raw, path, method = GEN.build_operation_doc(ps, body, methods, ctx=ctx)
    schema = schemathesis.openapi.from_dict(raw)
    op = schema[path][method.upper()]
    cfg = ctx.get("cfg")
    # the configured methods reach the generator the way the CLI hands them over: the option accepts any spelling
    # (`--experimental-coverage-unexpected-methods=GET,Post`) and its callback normalises it; the model and the document
    # reading work on lower-case tokens, so the spelling given here must make no difference
    from schemathesis.cli.commands.run.validation import convert_http_methods
    as_given = None if cfg is None else [m.upper() if i % 2 == 0 else m.capitalize() for i, m in enumerate(sorted(cfg))]
    real_cfg = convert_http_methods(None, None, as_given)
    out, err, objs = [], None, []
    with recording_cover_calls() as calls:
        try:
            for c in _iter_coverage_cases(op, list(MODES[modes_key]), real_cfg):
                d = c.meta.phase.data
                objs.append(c)
                conts, vals = {}, {}
                for kind in ("query", "path_parameters", "headers", "cookies"):
                    v = getattr(c, kind)
                    if v is not None and hasattr(v, "keys"):
                        conts[kind] = sorted(v.keys())
                        vals[kind] = dict(v)
                out.append({
                    "method": c.method.upper(), "mode": c.meta.generation.mode.value,
                    "comps": {k.value: v.mode.value for k, v in c.meta.components.items()},
                    "desc": classify_case(d.description), "text": d.description, "parameter": d.parameter,
                    "parameter_location": d.parameter_location, "containers": conts, "values": vals,
                    "has_body": not isinstance(c.body, type(schemathesis.core.NOT_SET)),
                })
        except Exception as e:  # KeyError is modelled; anything else leaves the modelled fragment
            err = e
    params = [(p.location, p.name, bool(p.is_required)) for p in op.iter_parameters()]
    return {"cases": out, "err": err, "calls": calls, "params": params, "method": method.upper(),
            "n_bodies": len(body or []), "media_types": [mt for mt, _ in (body or [])],
            "objs": objs, "op": {"params": [list(p) for p in ps], "body": body, "methods": methods, "modes": modes_key, "ctx": ctx},
            "raw": raw, "path": path, "doc": doc_wire(raw, path), "documented": doc_documented(raw, path),
            "required": doc_required(raw, path, method), "cfg": cfg}


def lv(g):
    return {"mode": g.generation_mode.value, "desc": classify(g.description), "param": g.parameter}


def cases_request(run, modes_key, vb):
    """the model gets the document (not the operation map of the code), the configuration and what the cover_schema_iter
    calls of the real run yielded, in call order"""
    np_, nb = len(run["params"]), run["n_bodies"]
    calls = run["calls"]
    if len(calls) < np_ and run["err"] is None:
        raise InfraError(f"cover_schema_iter calls {len(calls)} < parameters {np_}")
    # a body alternative whose cover call was never made cannot happen: every alternative is visited
    streams = [[lv(g) for g in c["values"]] for c in calls[:np_]]
    bodies = [{"mediaType": run["media_types"][j], "values": [lv(g) for g in calls[np_ + j]["values"]]}
              for j in range(nb) if np_ + j < len(calls)]
    neg_calls = [[lv(g) for g in c["values"]] for c in calls[np_ + nb:]]
    return ("casesdoc", {"vb": vb, "doc": run["doc"], "opMethod": run["method"].lower(), "cfg": run["cfg"],
                         "streams": streams, "hasBody": nb > 0, "bodies": bodies,
                         "pos": "P" in modes_key, "neg": "N" in modes_key, "negCalls": neg_calls})


def desc_claim(r):
    """what the description of a structurally negative case claims about the document"""
    if r["desc"].startswith("unspecified-method:"):
        return {"unspecified": r["desc"].split(":", 1)[1].lower()}
    if r["desc"].startswith("missing:"):
        return {"missing": [r["parameter"], r["parameter_location"]]}
    if r["desc"].startswith("missing-required:"):
        return {"missing_property": r["desc"].split(":", 1)[1]}
    return None


def real_case_wire(r, parts):
    return {"method": r["method"].lower(), "mode": r["mode"], "comps": [[k, v] for k, v in r["comps"].items()],
            "parts": [[k, v] for k, v in parts.items()], "desc": desc_claim(r), "parameter": r["parameter"],
            "parameter_location": r["parameter_location"]}


def judgedoc_request(run, expected):
    """the real cases, for the Lean reference predicates (caseLabelOkDoc / compsOk / descOkDoc)"""
    cases, index = [], []
    for i, (r, exp) in enumerate(zip(run["cases"], expected)):
        if exp is None:
            continue
        index.append(i)
        cases.append(real_case_wire(r, exp["comps"]))
    asked = sorted(run["required"])
    return index, asked, ("judgedoc", {"doc": run["doc"], "opMethod": run["method"].lower(), "cases": cases,
                                       "required": [list(k) for k in asked]})


def same_case(m, r, op_method):
    if m["mode"] != r["mode"] or m["comps"] != r["comps"]:
        return False
    if m["desc"] != (r["desc"].lower() if r["desc"].startswith("unspecified-method:") else r["desc"]) and "other" not in r["desc"]:
        return False
    if m["parameter"] != r["parameter"] or m["parameter_location"] != r["parameter_location"]:
        return False
    if (m["method"] or op_method).lower() != r["method"].lower():
        return False
    for kind, content in m["contents"].items():
        if kind == "body" or "generated" in content:
            continue
        names = sorted(n for n, _ in content["slots"])
        if names != r["containers"].get(kind, []):
            return False
    return True


def py_case_label_ok(r):
    """independent reading of the statement on the real metadata: negative iff a component is negative, a parameter was
    removed / duplicated, or the method is undocumented"""
    structural = r["desc"].startswith(("missing:", "duplicate:", "unspecified-method:"))
    want = structural or any(v == "negative" for v in r["comps"].values())
    return (r["mode"] == "negative") == want


def py_desc_ok(run, r):
    """what the description of the case claims about the document is true: 'Unspecified HTTP method: M' is sent with M and
    the path does not document M; 'Missing p at loc' names a parameter the operation requires"""
    claim = desc_claim(r)
    if claim is None or "missing_property" in claim:
        return True
    if "unspecified" in claim:
        return claim["unspecified"] == r["method"].lower() and claim["unspecified"] not in run["documented"]
    return run["required"].get(tuple(claim["missing"])) is True


def content_oracle(run):
    """For every real case: the label each of its parts deserves, reconstructed independently of the model from the
    recorded cover_schema_iter yields and the order in which _iter_coverage_cases visits them.
    -> [{"mode", "comps": {kind: mode}, "why", "structural", "varied_kind", "varied_negative", "varied_index"} | None]"""
    np_, nb = len(run["params"]), run["n_bodies"]
    calls = run["calls"]
    pvals = {(loc, name): [g.generation_mode.value for g in calls[i]["values"]] for i, (loc, name, _) in enumerate(run["params"])}
    bvals = {}
    for j, mt in enumerate(run["media_types"]):
        if np_ + j < len(calls):
            bvals.setdefault(mt, [g.generation_mode.value for g in calls[np_ + j]["values"]])
    first_body = next((v[0] for mt in run["media_types"] for v in [bvals.get(mt, [])] if v), None)
    loc_of = {v: k for k, v in KIND_OF.items()}
    budget = sum(len(v) for v in bvals.values()) + sum(max(len(v) - 1, 0) for v in pvals.values())
    var_counter, body_counter, seen_values = {}, {}, 0
    out = []
    for c in run["cases"]:
        d = c["desc"]
        # the method the case is SENT with is read against the document; what the description says about it is not used
        undocumented = c["method"].lower() not in run["documented"]
        removed_required = d.startswith("missing:") and run["required"].get((c["parameter"], c["parameter_location"])) is True
        structural = removed_required or d.startswith("duplicate:")
        template_like = d.startswith(("missing:", "duplicate:", "unspecified-method:")) or d in ("default-positive", "only-required") \
            or d.startswith(("required-and-optional:", "required-and-n:"))
        varied_kind, varied_label, varied_index, generated = None, None, 0, False
        if d == "only-required" or d.startswith(("required-and-optional:", "required-and-n:")):
            varied_kind = KIND_OF.get(c["parameter_location"] or "")     # the container with_container replaced
        if not template_like:
            seen_values += 1
            if seen_values <= budget:
                if c["parameter_location"] == "body":
                    k = body_counter.get(c["parameter"], 0)
                    body_counter[c["parameter"]] = k + 1
                    vals = bvals.get(c["parameter"], [])
                    if k >= len(vals):
                        out.append(None)
                        continue
                    varied_kind, varied_label, varied_index = "body", vals[k], k
                else:
                    p = (c["parameter_location"], c["parameter"])
                    k = var_counter.get(p, 0) + 1
                    var_counter[p] = k
                    vals = pvals.get(p, [])
                    if k >= len(vals):
                        out.append(None)
                        continue
                    varied_kind, varied_label, varied_index = KIND_OF.get(p[0]), vals[k], k
            else:
                generated = True
                varied_kind = KIND_OF.get(c["parameter_location"] or "")
        comps, why = {}, {}
        for kind, names in c["containers"].items():
            if generated and kind == varied_kind:
                comps[kind], why[kind] = "negative", "container produced by a negative-only cover_schema_iter"
                continue
            neg = []
            for name in names:
                p = (loc_of.get(kind), name)
                if kind == varied_kind and c["parameter"] == name and varied_label is not None:
                    label = varied_label
                else:
                    label = (pvals.get(p) or ["positive"])[0]
                if label == "negative":
                    neg.append(name)
            comps[kind] = "negative" if neg else "positive"
            why[kind] = f"negative values: {neg}" if neg else "all values positive"
        if structural:
            k = KIND_OF.get(c["parameter_location"] or "")
            comps[k], why[k] = "negative", "required parameter removed" if d.startswith("missing:") else "parameter duplicated"
        if c["has_body"]:
            label = varied_label if varied_kind == "body" else first_body
            if label is not None:
                comps["body"], why["body"] = label, "label of the body value"
        mode = "negative" if undocumented or structural or any(v == "negative" for v in comps.values()) else "positive"
        out.append({"mode": mode, "comps": comps, "why": why, "structural": structural or undocumented,
                    "undocumented": undocumented, "varied_kind": varied_kind,
                    "varied_negative": varied_label == "negative" or generated, "varied_index": varied_index})
    return out


def detect_body_variant(chk):
    run = run_cases([], [("application/json", {"type": "integer", "minimum": 0, "maximum": 3})], ["post"], "PN")
    bad = any(c["parameter_location"] == "body" and c["comps"].get("body") == "negative" and c["mode"] == "positive"
              for c in run["cases"])
    v = "asFound" if bad else "repaired"
    chk.variants["_iter_coverage_cases:body-label"] = v
    return v


def canon_method_block(cases, cfg):
    """what of the 'Unspecified HTTP method' block is compared between model and code: WHICH methods get a case, not in
    which order (each maximal run of such cases is sorted); for the configuration `set()` nothing (whether an empty
    configuration means "the defaults" or "none" is not a matter of labels - every real case is still judged by the replay)"""
    out, block = [], []
    for c in cases + [None]:
        if c is not None and c["desc"].lower().startswith("unspecified-method:"):
            block.append(c)
            continue
        if cfg != []:
            out += sorted(block, key=lambda c: c["desc"].lower())
        block = []
        if c is not None:
            out.append(c)
    return out


# ---- mechanism 4: the consumers of the labels (specs/openapi/checks.py) -----------------------------------------------

KF_MRH = "C03:missing_required_header:missing-required-property-case-read-as-missing-header"
CONSUMERS = ("negative_data_rejection", "positive_data_acceptance", "missing_required_header", "unsupported_method")
PROBES = [(200, False), (400, False), (405, False), (405, True), (406, False), (401, False), (500, False), (404, False), (204, False), (422, False)]
MRH_ALLOWED = [["406"], ["400", "401"]]


def call_consumers(case, status, allow, mrh_allowed):
    """-> ([fails x4], onlyAdditional) from the real check functions on a synthetic response"""
    import requests
    from schemathesis.checks import CheckContext
    from schemathesis.core.transport import Response
    from schemathesis.openapi.checks import MissingRequiredHeaderConfig
    from schemathesis.specs.openapi import checks as oc
    req = requests.Request(case.method, "http://127.0.0.1/p").prepare()
    resp = Response(status_code=status, headers={"allow": ["GET"]} if allow else {}, content=b"", request=req, elapsed=0.1, verify=False)
    ctx = CheckContext(override=None, auth=None, headers=None, transport_kwargs=None,
                       config={oc.missing_required_header: MissingRequiredHeaderConfig(allowed_statuses=list(mrh_allowed))})
    out = []
    for name in CONSUMERS:
        try:
            getattr(oc, name)(ctx, resp, case)
            out.append(False)
        except (AssertionError, Exception) as e:
            if not isinstance(e, AssertionError) and type(e).__module__.split(".")[0] != "schemathesis":
                raise InfraError(f"{name} raised {e!r}")
            out.append(True)
    try:
        only_additional = bool(oc.has_only_additional_properties_in_non_body_parameters(case))
    except Exception as e:
        raise InfraError(f"has_only_additional_properties_in_non_body_parameters raised {e!r}")
    return out, only_additional


def detect_consumer_variant(chk):
    run = run_cases([("header", "X-Obj", True, GEN.OBJECT_HEADER)], None, ["get"], "PN", {"method": "get"})
    i = next((i for i, c in enumerate(run["cases"]) if c["desc"].startswith("missing-required:")), None)
    if i is None:
        raise InfraError("the witness operation of FC03a has no 'Missing required property' case")
    fails, _ = call_consumers(run["objs"][i], 400, False, ["406"])
    v = "asFound" if fails[2] else "repaired"
    chk.variants["missing_required_header:description-prefix"] = v
    return v


def consumers_mechanism(chk, drv, runs, oracles, vh, mech="consumers"):
    """The real check functions and their Lean model on (real coverage case, synthetic response).
    Per chosen case: the response of a server that implements the description (decided by the replay oracle: 405 + Allow for
    an undocumented method, a client error for a negative part, 2xx otherwise) and two other responses."""
    work = []          # (run, i, r, exp, status, allow, allowed, conforming)
    for ri, ((o, run), expected) in enumerate(zip(runs, oracles)):
        if run["err"] is not None:
            continue
        real = run["cases"]
        chosen, others = [], 0
        for i, r in enumerate(real):
            special = r["desc"].startswith(("unspecified-method:", "missing:", "missing-required:", "duplicate:"))
            if special or others < 3 or (r["mode"] == "negative" and others < 5):
                chosen.append(i)
                others += 0 if special else 1
        for i in chosen:
            r, exp = real[i], expected[i]
            if exp is None:
                continue
            if exp["undocumented"]:
                conforming = (405, True)
            elif exp["mode"] == "negative":
                conforming = ((400, 406, 422)[(ri + i) % 3], False)
            else:
                conforming = ((200, 204)[(ri + i) % 2], False)
            probes = [conforming, PROBES[(ri + i) % len(PROBES)], PROBES[(ri + 3 * i + 1) % len(PROBES)]]
            for k, (status, allow) in enumerate(probes):
                work.append((run, i, r, exp, status, allow, MRH_ALLOWED[(ri + i + k) % 2], k == 0))
    real_out = [call_consumers(run["objs"][i], status, allow, allowed) for run, i, r, exp, status, allow, allowed, _ in work]
    from schemathesis.specs.openapi.utils import expand_status_codes
    reqs, spans = [], []
    by_run = {}
    for w, (fails, oa) in zip(work, real_out):
        by_run.setdefault(id(w[0]), (w[0], []))[1].append((w, fails, oa))
    for run, items in by_run.values():
        reqs.append(("consumers", {"vh": vh, "opMethod": run["method"].lower(), "items": [
            {"case": real_case_wire(r, exp["comps"]), "status": status, "allow": allow, "reqMethod": r["method"].upper(),
             "onlyAdditional": oa, "allowed": sorted(expand_status_codes(allowed))}
            for (_, i, r, exp, status, allow, allowed, _), fails, oa in items]}))
        spans.append(items)
    outs = drv.batch(reqs)
    for items, m in zip(spans, outs):
        if isinstance(m, dict) and "__err__" in m:
            raise InfraError(f"model error {m}")
        for ((run, i, r, exp, status, allow, allowed, conforming), fails, oa), lean in zip(items, m):
            chk.case(mech, key=[run["doc"], run["cfg"], i, r["desc"], r["mode"], status, allow, allowed], nontrivial=True,
                     sample={"case": [r["method"], r["mode"], r["text"]], "status": status, "allow": allow, "fails": dict(zip(CONSUMERS, fails))})
            chk.feature(f"{mech}:{'conforming' if conforming else 'other'}-response:{status}")
            for name, f in zip(CONSUMERS, fails):
                if f:
                    chk.feature(f"{mech}:{name}:fails")
            case_view = {k: v for k, v in r.items() if k != "values"}
            inp = {"case": case_view, "case_index": i, "status": status, "allow": allow, "mrh_allowed": allowed, "only_additional": oa,
                   "op": run["op"]}
            if lean != fails:
                chk.disagreement(mech, inp, dict(zip(CONSUMERS, lean)), dict(zip(CONSUMERS, fails)))
            # replay (1): a case whose label and description are right passes the label-driven checks on the response of a
            # server that implements the description (theorem coverage_cases_pass_on_conforming_server, on the real code)
            sound = r["mode"] == exp["mode"] and r["comps"] == exp["comps"] and py_desc_ok(run, r)
            if conforming and sound:
                for name, f in zip(CONSUMERS, fails):
                    if f and name != "missing_required_header":
                        chk.violation(f"C03:{name}:fails-on-response-of-conforming-server",
                                      f"{name} fails for case '{r['text']}' ({r['method']}, labelled {r['mode']}, parts {exp['comps']}) on status "
                                      f"{status}{' with Allow' if allow else ''}, the answer of a server that implements the description",
                                      {"mechanism": "consumers", **inp, "expected": exp})
            # replay (2): missing_required_header speaks up only when a header the operation requires was removed
            if fails[2]:
                removed = r["desc"].startswith("missing:") and r["parameter_location"] == "header" and \
                    run["required"].get((r["parameter"], "header")) is True and \
                    r["parameter"] not in r["containers"].get("headers", [])
                if not removed:
                    chk.violation(KF_MRH if r["desc"].startswith("missing-required:") else
                                  "C03:missing_required_header:fires-on-case-that-removes-no-required-header",
                                  f"missing_required_header rejects status {status} for case '{r['text']}' ({r['parameter']}@{r['parameter_location']}): "
                                  f"the case sends headers {sorted(r['containers'].get('headers', []))}, no required header is missing",
                                  {"mechanism": "consumers", **inp, "expected": exp})


def attached_mechanism(chk, runs, mech="cases:attached"):
    """what `create_test` -> `add_coverage` attaches as explicit examples (GenerationConfig.unexpected_methods travels this way)
    against what `_iter_coverage_cases` produced for the same operation: same cases, same labels, same methods (as a multiset:
    the order in which Hypothesis runs explicit examples is not part of the contract)"""
    import schemathesis
    from hypothesis import Phase, settings
    from schemathesis.generation import GenerationConfig
    from schemathesis.generation.hypothesis.builder import HypothesisTestConfig, HypothesisTestMode, create_test

    def view(method, meta):
        d = meta.phase.data
        return (method.upper(), meta.generation.mode.value, tuple(sorted((k.value, v.mode.value) for k, v in meta.components.items())),
                d.description, d.parameter, d.parameter_location)
    for o, run in runs:
        if run["err"] is not None:
            continue
        schema = schemathesis.openapi.from_dict(run["raw"])
        op = schema[run["path"]][run["method"]]
        got = []

        def test(case):
            got.append(case)
        cfg = run["cfg"]
        try:
            create_test(operation=op, test_func=test, config=HypothesisTestConfig(
                modes=[HypothesisTestMode.COVERAGE],
                generation=GenerationConfig(modes=list(MODES[o[4]]), unexpected_methods=None if cfg is None else set(cfg)),
                settings=settings(phases=[Phase.explicit], deadline=None, database=None)))()
        except __import__("unittest").SkipTest:      # Hypothesis: no explicit example was attached
            pass
        attached = sorted((view(c.method, c.meta) for c in got if c.meta is not None), key=repr)
        # add_coverage leaves out cases whose media type the transport cannot serialise (its documented filter)
        direct = sorted((view(c.method, c.meta) for c in run["objs"]
                         if not c.media_type or op.schema.transport.get_first_matching_media_type(c.media_type) is not None), key=repr)
        chk.case(mech, key=[run["doc"], cfg, o[4]], nontrivial=len(direct) > 0,
                 sample={"op": run["op"], "attached": len(attached), "direct": len(direct)})
        if attached != direct:
            only_a = [list(map(str, v)) for v in attached if v not in direct][:3]
            only_d = [list(map(str, v)) for v in direct if v not in attached][:3]
            chk.disagreement(mech, run["op"], {"n": len(direct), "only_in_iter_coverage_cases": only_d},
                             {"n": len(attached), "only_attached": only_a})
        for c in got:
            text = c.meta.phase.data.description if c.meta is not None else ""
            if text.startswith("Unspecified HTTP method:") and c.method.lower() in run["documented"]:
                chk.violation(SIG_DOCUMENTED, f"attached example '{text}' (labelled {c.meta.generation.mode.value}) uses {c.method}, which the "
                              f"path {run['path']} documents (documented: {sorted(run['documented'])})",
                              {"mechanism": "cases", **run["op"], "attached": True})


SIG_DOCUMENTED = "C03:_iter_coverage_cases:documented-method-presented-as-unspecified"
SIG_TEMPLATE_DRIFT = "C03:_iter_coverage_cases:unvaried-part-differs-between-cases-of-one-operation"
KIND_OF_LOCATION = {"query": "query", "path": "path_parameters", "header": "headers", "cookie": "cookies"}
# parameters whose generated values change under the transformations _serialize applies (percent-encoding, stringification)
DRIFT_OPS = [
    ([("path", "id", True, {"type": "string", "enum": ["a b/c%d"]}), ("query", "q", False, {"type": "integer", "minimum": 1, "maximum": 5})],
     None, ["post"]),
    ([("path", "id", True, {"type": "string", "enum": ["in progress"]}),
      ("header", "X-H", False, {"type": "integer", "minimum": 0, "maximum": 3}), ("query", "flag", False, {"type": "boolean"})],
     [("application/json", {"type": "integer", "minimum": 0, "maximum": 3})], ["post"]),
    ([("path", "id", True, {"type": "string", "enum": ["."]}), ("cookie", "c", False, {"type": "string", "enum": ["x y", "z"]}),
      ("query", "q", True, {"type": "string", "minLength": 1, "maxLength": 3})], None, ["post", "get"]),
]
SIG_METHOD_TEXT = "C03:_iter_coverage_cases:unspecified-method-description-differs-from-method-sent"
SIG_UNDOC_POSITIVE = "C03:_iter_coverage_cases:undocumented-method-case-labelled-positive"
SIG_MISSING_OPTIONAL = "C03:_iter_coverage_cases:missing-case-for-parameter-not-required"


def cases_mechanism(chk, drv, ops, vb, vh=None):
    """ops: [(mechanism, params, body, methods, modes_key[, ctx])]; ctx: the document context (GEN.build_operation_doc);
    vh: when given, the consumers of the labels are run on the cases too (consumers_mechanism)"""
    ops = [o if len(o) > 5 else (*o, None) for o in ops]
    runs = [(o, run_cases(*o[1:])) for o in ops]
    outs = drv.batch([cases_request(run, o[4], vb) for o, run in runs])
    oracles = [content_oracle(run) for _, run in runs]
    judge_reqs = [judgedoc_request(run, exp) for (_, run), exp in zip(runs, oracles)]
    judged = drv.batch([req for _, _, req in judge_reqs])
    if vh is not None:
        k = 3 if chk.thorough else 2
        consumers_mechanism(chk, drv, runs[::k], oracles[::k], vh)
        attached_mechanism(chk, runs[:: 8 if chk.thorough else 6])
    for (o, run), m, expected, (jindex, asked, _), jd in zip(runs, outs, oracles, judge_reqs, judged):
        mech, ps, body, methods, mk, ctx = o
        key = [[list(p[:3]) + [p[3]] for p in ps], body, methods, mk, ctx]
        real = run["cases"]
        chk.case(mech, key=key, nontrivial=len(real) > 0 or run["err"] is not None,
                 sample={"params": [list(p) for p in ps], "body": body, "modes": mk, "ctx": ctx,
                         "impl": [[c["mode"][:3], c["comps"], c["desc"]] for c in real[:6]]})
        chk.feature(f"{mech}:modes={mk}")
        if ctx:
            chk.feature(f"{mech}:layout={ctx.get('layout', 'inline')}")
            cfg = ctx.get("cfg")
            chk.feature(f"{mech}:cfg={'none' if cfg is None else 'empty' if not cfg else 'with-head' if 'head' in cfg else 'custom'}")
            for lvl in set(ctx.get("levels") or []):
                chk.feature(f"{mech}:parameter-level={lvl}")
        for d in (m, jd):
            if isinstance(d, dict) and "__err__" in d:
                raise InfraError(f"model error {d}")
        inp = {"params": [list(p) for p in ps], "body": body, "methods": methods, "modes": mk, "ctx": ctx}
        # ---- the parts of a case that the case does not vary are the template's generated values: what a case labelled by
        # its varied part carries elsewhere must be the same in every case of the operation (one Template serves them all)
        first_seen: dict = {}
        for k_, c_ in enumerate(real):
            varied_kind = KIND_OF_LOCATION.get(c_["parameter_location"])
            for kind_, vals_ in c_["values"].items():
                if kind_ == varied_kind:
                    continue
                for name_, v_ in vals_.items():
                    key_ = (kind_, name_)
                    if key_ in first_seen and first_seen[key_][1] != v_:
                        chk.violation(SIG_TEMPLATE_DRIFT,
                                      f"{kind_}[{name_!r}] is {first_seen[key_][1]!r} in case #{first_seen[key_][0]} and {v_!r} in case "
                                      f"#{k_} ('{c_['text']}', labelled {c_['mode']}) although neither case varies {kind_}: the value "
                                      f"placed in the template is not what the later case carries",
                                      {"mechanism": "cases", **inp, "case_index": k_})
                        break
                    first_seen.setdefault(key_, (k_, v_))
        # ---- the two independent readings of the document must agree (Lean `documents` / `requiresParam` vs the Python one)
        if set(jd["documented"]) != run["documented"] or not jd["op_documented"]:
            raise InfraError(f"Lean and Python disagree on the documented methods of {inp}: {jd['documented']} vs {sorted(run['documented'])}")
        if [run["required"][k] for k in asked] != jd["required"]:
            raise InfraError(f"Lean and Python disagree on the required parameters of {inp}: {jd['required']} vs {run['required']}")
        # ---- correspondence
        if m.get("error") == "no-operation":
            chk.disagreement(mech, inp, "no such operation in the document", f"{len(real)} cases")
            agree, mc = False, []
        else:
            if [list(p) for p in run["params"]] != m["params"]:
                chk.disagreement(mech + ":parameters", inp, m["params"], [list(p) for p in run["params"]])
            if run["err"] is not None:
                chk.feature(f"{mech}:impl-raised:{type(run['err']).__name__}")
                if isinstance(run["err"], KeyError) and "error" not in m:
                    chk.disagreement(mech, inp, "cases", "KeyError")
                continue
            if "error" in m:
                chk.disagreement(mech, inp, "KeyError", [[c["mode"], c["desc"]] for c in real])
                agree, mc = False, []
            else:
                mc, rc = canon_method_block(m["cases"], run["cfg"]), canon_method_block(real, run["cfg"])
                agree = len(mc) == len(rc) and all(same_case(a, b, run["method"]) for a, b in zip(mc, rc))
                if not agree:
                    i = next((i for i, (a, b) in enumerate(zip(mc, rc)) if not same_case(a, b, run["method"])), min(len(mc), len(rc)))
                    chk.disagreement(mech, inp, {"n": len(mc), "methods": m["methods"], "first_diff": mc[i] if i < len(mc) else None},
                                     {"n": len(rc), "first_diff": {k: v for k, v in rc[i].items() if k != "values"} if i < len(rc) else None})
                else:
                    chk.feature(f"{mech}:agree")
        # ---- replay: every REAL case is judged (1) by an independent Python reading of the statement: which parts carry a
        #      negative label is reconstructed from the recorded cover_schema_iter yields, which methods the path documents and
        #      which parameters the operation requires from the raw document; (2) by the Lean reference predicates
        #      (caseLabelOkDoc / compsOk / descOkDoc, through the driver) on the same real case.  (1) and (2) must agree.
        lean = {i: v for i, v in zip(jindex, jd["cases"])}
        for i, r in enumerate(real):
            exp = expected[i]
            case_view = {k: v for k, v in r.items() if k != "values"}
            replay_of = {"mechanism": "cases", **inp, "case_index": i, "case": case_view, "expected": exp}
            desc_ok = py_desc_ok(run, r)
            label_ok = exp is None or r["mode"] == exp["mode"]
            comps_ok = exp is None or r["comps"] == exp["comps"]
            ok = label_ok and comps_ok
            chk.feature(f"{mech}:case-label:{'ok' if ok else 'WRONG'}")
            if r["desc"].startswith("unspecified-method:"):
                chk.feature(f"{mech}:unspecified-method-case:{'own-method-in-config' if run['method'].lower() in (run['cfg'] or []) else 'other'}")
            if exp is not None and lean[i] != [label_ok, comps_ok, desc_ok]:
                raise InfraError(f"Lean case specification and the Python reading disagree on case {i} of {inp}: "
                                 f"lean={lean[i]} python={[label_ok, comps_ok, desc_ok]} expected={exp} real={case_view}")
            explained = False
            if not desc_ok:
                claim = desc_claim(r)
                if "unspecified" in claim:
                    sent = r["method"].lower()
                    if claim["unspecified"] != sent:
                        chk.violation(SIG_METHOD_TEXT, f"case '{r['text']}' is sent with {r['method']}", replay_of)
                    else:
                        explained = True
                        chk.violation(SIG_DOCUMENTED, f"case '{r['text']}' (labelled {r['mode']}) uses {r['method']}, which the path "
                                      f"{run['path']} documents (documented: {sorted(run['documented'])}; paths entry: "
                                      f"{json.dumps(run['raw']['paths'][run['path']])[:120]})", replay_of)
                else:
                    chk.violation(SIG_MISSING_OPTIONAL, f"case '{r['text']}' (labelled {r['mode']}) removes a parameter the operation "
                                  f"does not require (required: {sorted(k for k, v in run['required'].items() if v)})", replay_of)
            if exp is not None:
                bad_kinds = [k for k in set(exp["comps"]) | set(r["comps"]) if r["comps"].get(k) != exp["comps"].get(k)]
                for k in bad_kinds:
                    hides = (r["comps"].get(k) == "positive" and exp["comps"].get(k) == "negative"
                             and exp["varied_kind"] == k and not exp["varied_negative"])
                    chk.violation(KF_OVERWRITE if hides else "C03:Template:component-label-differs-from-contents",
                                  f"case '{r['text']}': component '{k}' is labelled {r['comps'].get(k)} but what was placed in it "
                                  f"is {exp['comps'].get(k)} ({exp['why'].get(k)})", replay_of)
                if r["mode"] != exp["mode"] and not explained:
                    if r["mode"] == "positive" and mk == "N":
                        # with positive generation disabled every generator value (the template's included) is negative and
                        # no case may be offered as positive: the catalogued template defect is about schemas WITHOUT
                        # positive values under enabled positive generation, it does not explain this
                        sig = "C03:_iter_coverage_cases:case-labelled-positive-although-positive-generation-is-disabled"
                    elif r["mode"] == "negative":
                        sig = "C03:_iter_coverage_cases:negative-case-without-negative-part"
                    elif exp["undocumented"]:
                        sig = SIG_UNDOC_POSITIVE
                    elif exp["structural"]:
                        sig = "C03:_iter_coverage_cases:structural-negative-case-labelled-positive"
                    elif exp["varied_negative"]:
                        sig = KF_BODY if exp["varied_kind"] == "body" and exp["varied_index"] >= 1 else \
                            "C03:_iter_coverage_cases:case-label-ignores-varied-part"
                    else:
                        sig = KF_TEMPLATE
                    chk.violation(sig, f"case '{r['text']}' (sent with {r['method']}) is labelled {r['mode']} but its parts are {exp['comps']} "
                                  f"({exp['why']}){' and it is structurally negative' if exp['structural'] else ''}", replay_of)
            # "Incorrect type" for a string-typed parameter of a string-valued location: what is sent is a string
            if r["mode"] == "negative" and r["desc"] == "incorrect-type" and r["parameter_location"] in KIND_OF:
                decl = next((p for p in ps if p[0] == r["parameter_location"] and p[1] == r["parameter"]), None)
                sent = r["values"].get(KIND_OF[r["parameter_location"]], {}).get(r["parameter"])
                if decl is not None and isinstance(sent, str) and isinstance(decl[3], dict) and "string" in types_of(decl[3]) \
                        and py_valid(decl[3], sent) is True:
                    chk.violation(KF_COERCE, f"case 'Incorrect type' for {r['parameter_location']} parameter '{r['parameter']}' "
                                  f"(schema {decl[3]}) sends {sent!r}, which the schema accepts",
                                  {"mechanism": "cases", **inp, "case_index": i, "case": case_view, "sent": sent})
            # a parameter the document requires that never received a value is silently absent from a positive case
            if r["mode"] == "positive":
                for (name, loc), req in run["required"].items():
                    kind = KIND_OF[loc]
                    if req and name not in r["containers"].get(kind, []) and not r["desc"].startswith("missing:"):
                        chk.violation(KF_OMITTED, f"positive case '{r['text']}' lacks the required {loc} parameter '{name}'",
                                      {"mechanism": "cases", **inp, "case_index": i, "case": case_view})


# ---- run / replay ---------------------------------------------------------------------------------------------------

class Timer:
    def __init__(self, chk):
        self.chk, self.t = chk, __import__("time").time()

    def lap(self, name):
        now = __import__("time").time()
        self.chk.notes.append(f"time {name}: {now - self.t:.1f}s")
        self.t = now


def run(chk):
    sx_examples.SCHEMATHESIS_BENCHMARK_SEED = chk.seed  # pins every Hypothesis draw of generate_one (in-process only)
    drv = chk.driver()
    tm = Timer(chk)
    G.selfcheck(chk, 150 if not chk.thorough else 1500)
    tm.lap("selfcheck")
    vs = detect_variants(chk)
    chk.assumptions += [
        "oracle contract: a value returned by CoverageContext.generate_from_schema(s) is valid for s (hypothesis-jsonschema) and a "
        "_negative_type draw has the JSON type of its strategy (Hypothesis); the recorded answers of the real run are handed to "
        "the model in call order, and every answer is itself judged against its request by the replay (violations: F33a-d)",
        "case-level theorems assume the value streams are well-formed (WF): first value of each generator positive when positives "
        "are requested, all values negative otherwise; the replay checks every real case without that assumption",
        "theorems about validF are for plain JSON Schema (env.oas = none); regex and format semantics are oracles (Python re / "
        "jsonschema FORMAT_CHECKER tables)",
        "document-level theorems assume WFDoc: the `paths` entry denotes a path item (inline or one resolvable `$ref`), the operation "
        "under test is one of its operations, no parameter is declared twice at one level; methods are lower-case tokens (the CLI "
        "lower-cases `unexpected_methods`); a `$ref` next to other fields in a path item and upper-case method keys are outside",
        "consumer theorems take `has_only_additional_properties_in_non_body_parameters` as an input and the default allowed-status "
        "sets of negative_data_rejection / positive_data_acceptance; `Conforms` (405 + Allow / client error / 2xx) is the "
        "reference notion of a server that implements the description",
    ]
    chk.trusted += [
        "lean/SV/Spec/JsonSchema.lean (shared reference semantics; differentially checked against jsonschema on every run)",
        "harness/corr/c03.py: recording of the oracle, description-class table, content oracle of the case mechanism, "
        "violation classifier (signatures only; never decides whether a label is wrong); doc_wire/doc_documented/doc_required (the "
        "raw description read without schemathesis; cross-checked against the Lean `documents`/`requiresParam` on every run)",
    ]
    chk.proved += [
        "case_labels_doc_repaired: against the API description itself (path item inline or behind `$ref`, any further fields, any "
        "set of operations, parameters declared at path level / operation level / both, any `unexpected_methods`): every case is "
        "negative iff it is sent with a method the path does not document or a part is negative/removed/duplicated, component "
        "labels agree with contents, 'Unspecified HTTP method: M' is sent with M and M is undocumented, 'Missing p at loc' names a "
        "parameter the operation requires; unspecified_method_is_undocumented / missing_case_names_required_parameter (any variant, "
        "any value streams); unspecified_method_cases_exact (a method gets a case iff negative mode, in the effective "
        "configuration, undocumented)",
        "consumers: coverage_cases_pass_on_conforming_server / consumers_pass_on_conforming_response (negative_data_rejection, "
        "positive_data_acceptance, unsupported_method never fail on a server that implements the description), "
        "unsupported_method_fails_unless_405, missing_required_header_repaired / _partial and the kernel-checked counterexample "
        "FC03a (missing_required_header_full_false_asFound)",
        "case_labels_repaired: repaired _iter_coverage_cases labels every case and every component consistently with its contents "
        "(all operations / mode sets / well-formed value streams); case_labels_asFound_partial (snapshot, away from F8)",
        "cover_numeric_labels: end-to-end label soundness of cover_schema_iter on EVERY plain integer/number schema, satisfiable or "
        "not (all three _positive_number sites repaired, all modes, oracle contract)",
        "positive_number_valid (no satisfiability hypothesis: every boundary value is tested against both effective bounds) / "
        "positive_number_partial (F6 zero-bound, F7 exclusive-bound, F6c crossing-guard sites in any mix) / "
        "positive_number_valid_satisfiable, positive_string_valid (with the crossing guard of proposed_fixes/C03-F34.diff: every string "
        "schema) / positive_string_partial (the code as found: non-crossing length bounds), "
        "numeric_negatives_as_described, cover_positive_only / cover_negative_only",
        "kernel-checked counterexamples: F6, F7 (boolean and numeric), F6c (no multiple in range, crossing through the exclusive "
        "step), F7b, F8, F34, F35, F36, F37, F40, and *_full_false for each _positive_number site alone, the snapshot and the repaired "
        "variants, positive_string_full_false_asFound",
    ]
    chk.partial += [
        "label soundness of the array / object / enum / const / pattern / format arms and of anyOf/oneOf/allOf descents is not "
        "proved (false for the descents: F9a/F9b); these arms are modelled, tied by correspondence and judged by replay",
        "the repaired case-level statement needs WF; without it the full statement is false (case_labels_full_false_repaired: F8b/F8c)",
        "fully repaired _positive_number is sound on plain numeric schemas only: a sibling keyword outside the numeric family "
        "(`not`, combinators) can still reject a boundary value (positive_number_full_false_repaired; on the real code: F9b)",
    ]
    chk.sampled_only += [
        "create_test -> add_coverage (what is attached as explicit examples) is compared with _iter_coverage_cases on a slice of the "
        "document family, not modelled; Swagger 2.0 operations, Open API 3.1, security-scheme parameters, examples taken from "
        "responses / media-type `examples`, external `$ref`s: not generated",
        "schemas with fractional numeric keywords, pattern+length combinations (update_quantifier), allOf with several members, "
        "patternProperties: outside the model, replayed only",
        "what the oracle (hypothesis-jsonschema / Hypothesis) returns: recorded, its contract is checked per call, not proved",
        "stringification/serialisation of values into query/header/cookie/path containers (F9c is judged on the real containers)",
    ]
    grid = list(numeric_grid(chk.thorough))
    positive_number_mechanism(chk, drv, grid, "positive_number:grid", vs)
    # the same code on bounds beyond the range in which binary floating point holds every integer (int64 limits, 2**53 + 1):
    # integer arithmetic is exact whatever the magnitude, the boundary values must be as valid there as next to zero
    big = []
    for b in (2**53 + 1, 2**63 - 1, 10**18 + 7):
        for mo in (2, 3, 10):
            for sgn in (1, -1):
                big += [{"type": "integer", "minimum": sgn * b, "multipleOf": mo}, {"type": "integer", "maximum": sgn * b, "multipleOf": mo},
                        {"type": "integer", "minimum": sgn * b - 40, "maximum": sgn * b, "multipleOf": mo},
                        {"type": "integer", "exclusiveMinimum": sgn * b, "multipleOf": mo}]
    positive_number_mechanism(chk, drv, big, "positive_number:large-magnitude", vs)
    tm.lap("positive_number:grid")
    chk.notes.append(f"positive_number:grid is exhaustive over {len(grid)} schemas")
    # cover_schema_iter: exhaustive small-scope grids per keyword family (sliced in the quick tier) + random schemas
    rng = chk.rng
    locs = ["body", "query", "header"]
    cases = [("cover:numeric", s_, mk, "body") for s_ in grid[:: 97] for mk in ("P", "N", "PN")]

    def with_modes(mech, schemas, every):
        out = []
        for i, s_ in enumerate(schemas):
            if chk.thorough or i % every == 0:
                for mk in ("P", "N", "PN"):
                    out.append((mech, s_, mk, locs[(i // every) % 3]))
        return out
    cases += with_modes("cover:strings", list(GEN.string_grid()), 6)
    cases += with_modes("cover:arrays", list(GEN.array_grid()), 11)
    cases += with_modes("cover:objects", list(GEN.object_grid()), 9)
    cases += with_modes("cover:combinators", list(GEN.combinator_grid()), 5)
    cases += [("cover:random", s_, rng.choice(["P", "N", "PN", "PN"]), rng.choice(locs))
              for s_ in GEN.random_sane(rng, chk.budget(350, 6000), depth=2 if not chk.thorough else 3)]
    cases += [("cover:random-odd", s_, rng.choice(["P", "N", "PN", "PN"]), rng.choice(locs))
              for s_ in GEN.random_schemas(rng, chk.budget(60, 2000), depth=2)]
    cover_mechanism(chk, drv, cases, vs)
    tm.lap("cover")
    # builder._iter_coverage_cases
    vb = detect_body_variant(chk)
    ops = [(ps, body, ms, mk) for i, (ps, body, ms) in enumerate(GEN.operation_grid(chk.thorough))
           for mk in (("P", "N", "PN") if chk.thorough else (("PN", "N", "P")[i % 3], "PN")[: 1 + (i % 2)])]
    ops = [("cases:grid", *o) for o in ops]
    ops += [("cases:random", *GEN.random_operation(rng), rng.choice(["P", "N", "PN", "PN"])) for _ in range(chk.budget(120, 2000))]
    ops += [("cases:template-values", ps_, body_, ms_, mk_) for ps_, body_, ms_ in DRIFT_OPS for mk_ in ("P", "PN", "N")]
    cases_mechanism(chk, drv, ops, vb)
    tm.lap("cases")
    # the operation inside its document: path item inline / behind a reference, further fields in it, parameters declared at
    # the path level / the operation level / both, the operation's own method anywhere in the documented set, configured
    # `unexpected_methods`; negative mode in two runs out of three (the method block exists only there)
    doc_grid = GEN.doc_context_grid(chk.thorough)
    dops = [("cases:document", ps, body, ms, ("N", "PN", "P")[i % 3] if not chk.thorough or i % 2 else "PN", ctx)
            for i, (ps, body, ms, ctx) in enumerate(doc_grid)]
    for _ in range(chk.budget(150, 1500)):
        ps, body, ms = GEN.random_operation(rng)
        ms, ctx = GEN.random_doc_context(rng, ps, ms)
        dops.append(("cases:document-random", ps, body, ms, rng.choice(["N", "PN", "PN", "P"]), ctx))
    vh = detect_consumer_variant(chk)
    cases_mechanism(chk, drv, dops, vb, vh)
    chk.notes.append(f"cases:document walks {len(doc_grid)} points of the document-context grid (a diagonal through the product of "
                     f"{len(GEN.DOC_PARAM_SETS)} parameter sets x level patterns x {len(GEN.DOC_METHOD_SETS)} method sets x own method x "
                     f"{len(GEN.DOC_CFGS)} configurations x 3 layouts)")
    tm.lap("cases:document")
    chk.exhaustive = False


def replay(chk, data):
    sx_examples.SCHEMATHESIS_BENCHMARK_SEED = data.get("seed", 0)
    r = data["replay"]
    print(data.get("what"))
    drv = chk.driver()
    if "correspondence" in r and "input" in r:      # a recorded model/implementation disagreement
        print("mechanism:", r["correspondence"])
        print("recorded model:", json.dumps(r.get("model"), default=str)[:1500])
        print("recorded impl :", json.dumps(r.get("impl"), default=str)[:1500])
        r = {**r["input"], "mechanism": "cases" if "params" in r["input"] else "consumers" if "op" in r["input"] else "cover"}
    mech = r.get("mechanism")
    if mech == "positive_number":
        s = r["schema"]
        out, rec, err = run_positive_number(s)
        print("schema:", json.dumps(s))
        print("impl now:", brief(out) if out is not None else repr(err))
        vs = detect_variants(chk)
        m = drv.one("posnum", {"schema": enc(s), "orc": wire_orc(rec), **vs})
        print(f"model {vs}:", [[g["mode"][:3], dec(g["value"]), g["desc"]] for g in m.get("out", [])], m.get("status"))
        if out is not None:
            print("valid (Lean spec):", judge_batch(chk, drv, [(s, [o["value"] for o in out])])[0])
    elif mech == "cover":
        s, mk, loc = r["schema"], r.get("modes", "PN"), r.get("location", "body")
        out, rec, err = run_cover(s, mk, loc)
        print("schema:", json.dumps(s), "modes:", mk, "location:", loc)
        print("impl now:", brief(out), "" if err is None else f"raised {err!r}")
        print("oracle:", [(c["req"], c["ans"]) for c in rec.calls])
        vs = detect_variants(chk)
        try:
            m = drv.one(*cover_request(s, wire_orc(rec), mk, loc, vs))
            print(f"model {vs} status={m.get('status')}:",
                  [[g["mode"][:3], dec(g["value"]), g["desc"], g["loc"]] for g in m.get("out", [])])
        except Unmodelled as e:
            print("model: outside the wire format:", e)
        if _encodable(out):
            valid = judge_batch(chk, drv, [(s, [o["value"] for o in out])])[0]
            for o, ok in zip(out, valid):
                good = exempt(o["desc"]) or (ok if o["mode"] == "positive" else not ok)
                print(f"  {'ok   ' if good else 'WRONG'} {o['mode']:8} {o['value']!r}  '{o['text']}'  valid={ok}")
    elif mech == "consumers":
        o = r["op"]
        run = run_cases([tuple(p) for p in o["params"]], [tuple(b) for b in o["body"]] if o.get("body") else None,
                        o["methods"], o["modes"], o.get("ctx"))
        print("document:", json.dumps(run["raw"]))
        i = r["case_index"]
        if i >= len(run["cases"]):
            print(f"the operation now has {len(run['cases'])} cases; recorded case index {i}")
            return 0
        c = run["cases"][i]
        print(f"case {i}: {c['method']} {c['mode']} '{c['text']}' {c['parameter']}@{c['parameter_location']} containers={c['containers']}")
        fails, oa = call_consumers(run["objs"][i], r["status"], r["allow"], r["mrh_allowed"])
        print(f"response: status {r['status']}{' + Allow' if r['allow'] else ''}; missing_required_header allowed statuses {r['mrh_allowed']}")
        print("impl now (True = the check fails):", dict(zip(CONSUMERS, fails)), " only-additional-properties:", oa)
        vh = detect_consumer_variant(chk)
        exp = content_oracle(run)[i]
        if exp is not None:
            from schemathesis.specs.openapi.utils import expand_status_codes
            m = drv.one("consumers", {"vh": vh, "opMethod": run["method"].lower(), "items": [
                {"case": real_case_wire(c, exp["comps"]), "status": r["status"], "allow": r["allow"], "reqMethod": c["method"].upper(),
                 "onlyAdditional": oa, "allowed": sorted(expand_status_codes(r["mrh_allowed"]))}]})
            print(f"model ({vh}):", dict(zip(CONSUMERS, m[0])))
            print("what the case deserves:", exp["mode"], exp["comps"], exp["why"])
    elif mech == "cases":
        ps = [tuple(p) for p in r["params"]]
        body = [tuple(b) for b in r["body"]] if r.get("body") else None
        run = run_cases(ps, body, r["methods"], r["modes"], r.get("ctx"))
        vb = detect_body_variant(chk)
        print("operation:", json.dumps({"params": r["params"], "body": r.get("body"), "methods": r["methods"], "modes": r["modes"],
                                        "ctx": r.get("ctx")}))
        print("document:", json.dumps(run["raw"]))
        print("documented methods (read off the document):", sorted(run["documented"]), " unexpected_methods:", run["cfg"],
              " required parameters:", sorted(k for k, v in run["required"].items() if v))
        if run["err"] is not None:
            print("impl now raised:", repr(run["err"]))
        m = drv.one(*cases_request(run, r["modes"], vb))
        mc = m.get("cases", [])
        for i, c in enumerate(run["cases"]):
            mm = mc[i] if i < len(mc) else None
            flag = "" if py_case_label_ok(c) else "  <-- label"
            if not py_desc_ok(run, c):
                flag += "  <-- the description is false for this document"
            print(f"  impl  {i}: {c['method']} {c['mode'][:3]} {c['comps']} '{c['text']}' {c['parameter']}@{c['parameter_location']}{flag}")
            if mm is not None:
                print(f"  model {i}: {mm['mode'][:3]} {mm['comps']} {mm['desc']} contents={mm['contents']} spec={mm['spec']} {mm.get('spec_doc')}")
        if "error" in m:
            print("model:", m)
    else:
        print("input:", json.dumps(r, default=str)[:2000])
    return 0
