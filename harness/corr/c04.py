"""C04 — response conformance checks agree with the API documentation.

Correspondence: real `status_code_conformance`, `content_type_conformance`, `response_headers_conformance`,
`response_schema_conformance` run through `case.validate_response(response, checks=[…])` on hand-built `Response`
objects against documents loaded with `schemathesis.openapi.from_dict`, versus the Lean model
(lean/SV/Model/C04.lean) on the same (document, response) pair; plus the pure helpers `expand_status_code`,
`media_types.parse`, `_coerce_header_value` on their own.
Replay: the Lean *specification* `deviates` (lean/SV/Spec/C04.lean, over the shared JSON-Schema reference semantics)
judges the failures the real checks reported; small independent Python oracles cross-check the specification.
"""
from __future__ import annotations

import base64
import itertools
import json
import re
import warnings

import requests
import schemathesis
from requests.utils import _parse_content_type_header
from schemathesis.core import media_types
from schemathesis.core.failures import FailureGroup
from schemathesis.core.transport import Response
from schemathesis.specs.openapi import checks as oas_checks
from schemathesis.specs.openapi.utils import expand_status_code

from harness.core import InfraError
from harness.gens import c04_docs as G
from harness.gens.schemas import lean_env, selfcheck

CHECKS = [("status", oas_checks.status_code_conformance), ("content_type", oas_checks.content_type_conformance),
          ("headers", oas_checks.response_headers_conformance), ("body", oas_checks.response_schema_conformance)]

KF_RANGE_DEFS = "C04:_get_response_definitions:range-key-ignored"
KF_RANGE_BODY = "C04:validate_response:range-key-ignored"
KF_FIRST_MEDIA = "C04:get_response_schema:first-media-type-schema-applied"
KF_HDR_REF = "C04:response_headers_conformance:required-flag-read-off-unresolved-$ref"
KF_CT_ERROR = "C04:validate_response:malformed-content-type-raises-ValueError"
KF_UNDECODABLE = "C04:validate_response:undecodable-body-raises-UnicodeDecodeError"
KF_WO_PAIR = "C04:to_json_schema:several-writeOnly-properties-forbidden-only-together"
KF_WO_UNTYPED = "C04:to_json_schema:writeOnly-ignored-without-type-object"

_REQ = requests.Request("GET", "http://127.0.0.1/x").prepare()


def load_operation(raw):
    with warnings.catch_warnings():
        warnings.simplefilter("ignore")
        return schemathesis.openapi.from_dict(G.clone(raw))["/x"]["GET"]


def real_response(resp):
    return Response(status_code=resp["status"], headers={k: [v] for k, v in resp["headers"].items()},
                    content=resp["content"], request=_REQ, elapsed=0.1, verify=False)


def _classes(fn):
    try:
        fn()
        return []
    except FailureGroup as g:
        return sorted({type(e).__name__ for e in g.exceptions})
    except Exception as e:  # noqa: BLE001 - the class of an escaping exception is the observable
        return f"error:{type(e).__name__}"


def run_impl(op, resp):
    """Per-check and combined verdicts of the real code: sorted failure class names, or 'error:<Class>'."""
    out = {}
    for name, check in CHECKS:
        case = op.Case()
        out[name] = _classes(lambda: case.validate_response(real_response(resp), checks=[check]))
    case = op.Case()
    out["all"] = _classes(lambda: case.validate_response(real_response(resp), checks=[c for _, c in CHECKS]))
    return out


def canon_model(m):
    return {k: ("error" if v == "error" else sorted(set(v))) for k, v in m.items()}


def canon_impl(i):
    return {k: ("error" if isinstance(v, str) else v) for k, v in i.items()}


def fails(v):
    return v == "error" or isinstance(v, str) or bool(v)


def nullable_name(raw):
    return "x-nullable" if G.is_v2(raw) else "nullable"


def request_for(raw, resp, variants):
    inst = [G.wire_resp(resp)["body"], G.header_strings(resp)]
    env = lean_env(raw, inst, oas="response", nullable=nullable_name(raw), root=raw)
    return {"doc": G.wire_doc(raw), "resp": G.wire_resp(resp), "env": env, "variants": variants}


def ct_class(resp):
    ct = next((v for k, v in resp["headers"].items() if k.lower() == "content-type"), None)
    if ct is None:
        return "absent"
    try:
        main, sub = media_types.parse(ct)
    except ValueError:
        return "malformed"
    return "json" if main == "application" and (sub == "json" or sub.endswith("+json")) else "other"


# ---- judging one (document, response) pair ------------------------------------------------------------------------

def judge(chk, mechanism, raw, resp, m, impl, variants):
    wire = {"doc": raw, "resp": {**resp, "content": base64.b64encode(resp["content"]).decode()}}
    model, spec, wf = canon_model(m["model"]), m["spec"], m["wf"]
    repaired = canon_model(m["repaired"])
    ci = canon_impl(impl)
    nontrivial = m["matched"] != "none" or fails(impl["status"])
    chk.case(mechanism, key=wire, nontrivial=nontrivial, sample={"in": wire, "impl": impl, "spec": spec})
    chk.feature(f"matched={m['matched']}")
    chk.feature("version=" + ("2.0" if G.is_v2(raw) else raw["openapi"]))
    chk.feature(f"content-type={ct_class(resp)}")
    chk.feature("body=" + ("malformed" if G.wire_resp(resp)["body"] == ["malformed"] else "json"))
    chk.feature(f"deviates={spec['deviates']}")
    for name, _ in CHECKS:
        chk.feature(f"{name}:" + ("error" if ci[name] == "error" else ",".join(ci[name]) or "pass"))
    # ---- correspondence: model in the variants the tree exhibits vs implementation
    for name in ("status", "content_type", "headers", "body", "all"):
        if ci[name] != model[name]:
            chk.disagreement(mechanism, {"check": name, **wire}, model[name], impl[name])
    # ---- replay: the specification judges what the implementation reported
    asf = {k: v == "asFound" for k, v in variants.items()}
    rep = {"in": wire, "impl": impl, "spec": spec}

    def attribute(name, candidates, generic):
        """known site only if the model in the variants in force reproduces the implementation and the fully repaired
        model meets the specification"""
        explained = model[name] == ci[name] and fails(repaired[name]) == spec[name]
        if explained:
            for cond, sig in candidates:
                if cond:
                    return sig
        return generic

    if not wf["keys"]:
        return  # ill-formed status keys: outside the specification's domain (correspondence above still applies)
    if fails(ci["status"]) != spec["status"] or ci["status"] == "error":
        chk.violation("C04:status_code_conformance:verdict-differs-from-documentation",
                      f"status_code_conformance {'reports' if fails(ci['status']) else 'passes'} status {resp['status']} "
                      f"although it is {'documented' if not spec['status'] else 'not documented'}", rep)
    reported = False
    if wf["media"] and wf["ct_plain"]:
        if ci["content_type"] == "error" or fails(ci["content_type"]) != spec["content_type"]:
            sig = attribute("content_type", [(asf["lookup"] and m["matched"] == "range", KF_RANGE_DEFS)],
                            "C04:content_type_conformance:verdict-differs-from-documentation")
            chk.violation(sig, f"content_type_conformance {'reports' if fails(ci['content_type']) else 'passes'} a response "
                          f"whose Content-Type {'is covered by' if not spec['content_type'] else 'is covered by none of'} "
                          f"the documented media types (matched by {m['matched']} key)", rep)
            reported = True
    if ci["headers"] == "error" or fails(ci["headers"]) != spec["headers"]:
        sig = attribute("headers", [(asf["lookup"] and m["matched"] == "range", KF_RANGE_DEFS),
                                    (asf["hdrRef"] and not wf["no_required_ref_header"], KF_HDR_REF)],
                        "C04:response_headers_conformance:verdict-differs-from-documentation")
        chk.violation(sig, f"response_headers_conformance {'reports' if fails(ci['headers']) else 'passes'} a response whose "
                      f"documented headers {'conform' if not spec['headers'] else 'do not conform'} "
                      f"(matched by {m['matched']} key)", rep)
        reported = True
    if ci["body"] == "error":
        if not wf["ct_ok"] and asf["ctError"] and model["body"] == "error":
            chk.violation(KF_CT_ERROR, "validate_response lets a ValueError escape for a malformed Content-Type", rep)
        else:
            chk.violation("C04:response_schema_conformance:unexpected-exception",
                          f"response_schema_conformance raised {impl['body']}", rep)
        reported = True
    elif wf["media"] and wf["ct_plain"] and wf["ct_ok"] and fails(ci["body"]) != spec["body"]:
        sig = attribute("body", [(asf["lookup"] and m["matched"] == "range", KF_RANGE_BODY),
                                 (asf["media"] and not G.is_v2(raw), KF_FIRST_MEDIA)],
                        "C04:response_schema_conformance:verdict-differs-from-documentation")
        chk.violation(sig, f"response_schema_conformance {'reports' if fails(ci['body']) else 'passes'} a body that "
                      f"{'conforms to' if not spec['body'] else 'violates'} the schema documented for its status code and "
                      f"media type (matched by {m['matched']} key)", rep)
        reported = True
    if (not reported and wf["media"] and wf["ct_plain"] and ci["all"] != "error" and wf["produces"]
            and fails(ci["all"]) != spec["deviates"]):
        chk.violation("C04:validate_response:overall-verdict-differs-from-documentation",
                      f"the four conformance checks together {'report' if fails(ci['all']) else 'pass'} a response that "
                      f"{'deviates' if spec['deviates'] else 'conforms'}", rep)


def run_pairs(chk, mechanism, pairs, variants):
    """pairs: [(raw, resp)] — loads each distinct document once."""
    drv = chk.driver()
    reqs = [("check", request_for(raw, resp, variants)) for raw, resp in pairs]
    outs = drv.batch(reqs)
    ops: dict = {}
    for (raw, resp), m in zip(pairs, outs):
        if isinstance(m, dict) and "__err__" in m:
            raise InfraError(f"model error {m} on {json.dumps(raw)} {resp}")
        key = id(raw)
        if key not in ops:
            ops[key] = load_operation(raw)
        impl = run_impl(ops[key], resp)
        judge(chk, mechanism, raw, resp, m, impl, variants)


# ---- witnesses of the known defect sites (also kernel-checked in lean/SV/Props/C04.lean) ----------------------------

OBJ = {"type": "object", "required": ["id"], "properties": {"id": {"type": "integer"}}}


def _doc3(responses, components=None):
    raw = {"openapi": "3.0.2", "info": {"title": "t", "version": "1"}, "paths": {"/x": {"get": {"responses": responses}}}}
    if components:
        raw["components"] = components
    return raw


W_RANGE = _doc3({"2XX": {"description": "d", "content": {"application/json": {"schema": OBJ}},
                         "headers": {"X-Rate": {"required": True, "schema": {"type": "integer"}}}}})
W_MEDIA = _doc3({"200": {"description": "d", "content": {"application/xml": {"schema": {"type": "string"}},
                                                          "application/json": {"schema": OBJ}}}})
W_HDRREF = _doc3({"200": {"description": "d", "headers": {"X-Rate": {"$ref": "#/components/headers/H0"}}}},
                 {"headers": {"H0": {"required": True, "schema": {"type": "integer"}}}})
W_CT = _doc3({"200": {"description": "d", "content": {"application/json": {"schema": OBJ}}}})

WITNESSES = [
    (W_RANGE, {"status": 200, "headers": {"Content-Type": "text/plain"}, "content": b"{}"}),
    (W_RANGE, {"status": 200, "headers": {"Content-Type": "application/json", "X-Rate": "1"}, "content": b"{}"}),
    (W_MEDIA, {"status": 200, "headers": {"Content-Type": "application/json"}, "content": b'{"id": 1}'}),
    (W_MEDIA, {"status": 200, "headers": {"Content-Type": "application/json"}, "content": b'"x"'}),
    (W_HDRREF, {"status": 200, "headers": {}, "content": b""}),
    (W_CT, {"status": 200, "headers": {"Content-Type": "garbage"}, "content": b'{"id": 1}'}),
]


def detect_variants(chk):
    def impl(raw, resp):
        return run_impl(load_operation(raw), resp)
    v = {}
    a = impl(*WITNESSES[0])
    b = impl(*WITNESSES[1])
    v["lookup"] = "asFound" if not fails(a["content_type"]) and not fails(a["headers"]) and not fails(b["body"]) else "repaired"
    a, b = impl(*WITNESSES[2]), impl(*WITNESSES[3])
    v["media"] = "asFound" if fails(a["body"]) and not fails(b["body"]) else "repaired"
    v["hdrRef"] = "asFound" if not fails(impl(*WITNESSES[4])["headers"]) else "repaired"
    v["ctError"] = "asFound" if isinstance(impl(*WITNESSES[5])["body"], str) else "repaired"
    return v


# ---- the pure helpers ----------------------------------------------------------------------------------------------

def py_key_matches(key, status):
    """independent oracle for the specification's `keyMatches`: regex over the zero-padded decimal spelling"""
    if not key or not all(c in "0123456789xX" for c in key):
        return False
    s = str(status)
    if len(s) > len(key):
        return False
    return re.fullmatch("".join("[0-9]" if c in "xX" else c for c in key), s.zfill(len(key))) is not None


def expand_corr(chk, n):
    rng = chk.rng
    alphabet = "0123456789xX"
    keys = ["".join(p) for k in range(0, 3) for p in itertools.product("029xX", repeat=k)]
    keys += ["".join(rng.choice(alphabet) for _ in range(rng.randint(1, 4))) for _ in range(n)]
    keys += ["default", "abc", "2a0", "20O", "2XY", "x", "X", "XXXX", "0200", "00"]
    cases = [(k, rng.choice([0, 5, 20, 99, 100, 200, 209, 290, 299, 300, 404, 999, 1000, 2000, rng.randrange(0, 1200)])) for k in keys]
    outs = chk.driver().batch([("expand", {"key": k, "status": s}) for k, s in cases])
    for (k, s), m in zip(cases, outs):
        try:
            impl = list(expand_status_code(k))
        except ValueError:
            impl = "error"
        chk.case("expand_status_code", key=[k, s], nontrivial=impl != "error", sample={"key": k, "status": s, "covers": m["covers"]})
        chk.feature("expand:" + ("error" if impl == "error" else f"len{len(k)}"))
        if impl != m["model"]:
            chk.disagreement("expand_status_code", {"key": k}, m["model"] if m["model"] == "error" else m["model"][:12], impl if impl == "error" else impl[:12])
        if m["spec"] != py_key_matches(k, s):
            raise InfraError(f"Lean keyMatches != regex oracle on key={k!r} status={s}: {m['spec']}")
        if m["wf"] and impl != "error" and (s in impl) != m["spec"]:
            chk.violation("C04:expand_status_code:differs-from-range-semantics",
                          f"expand_status_code({k!r}) {'contains' if s in impl else 'lacks'} {s}", {"key": k, "status": s})


def parse_corr(chk, n):
    rng = chk.rng
    alphabet = ["a", "A", "/", ";", '"', "\\", " ", "=", "*", "+", "json", "application", "text", "\t", "x", "Z"]
    cases = list(G.MEDIA + G.MEDIA_BAD + G.CT_OTHER + G.CT_BAD)
    cases += ["".join(rng.choice(alphabet) for _ in range(rng.randint(0, 7))) for _ in range(n // 3)]
    ws = ["", "", "", " ", "\t", "  "]
    toks = ["application", "text", "Application", "*", "json", "JSON", "problem+json", "xml", "plain", "x", "a\"b", "vnd.a+json", ""]
    params = ["charset=utf-8", "q=0.5", "a=\"b;c\"", "a=\"b\\\";c\"", "\"", "", "x", "a=\"b"]
    for _ in range(n - n // 3):
        s = rng.choice(ws) + rng.choice(toks) + rng.choice(ws) + rng.choice(["/", "/", "/", "", "//"]) + rng.choice(toks) + rng.choice(ws)
        for _ in range(rng.choice([0, 0, 1, 1, 2])):
            s += ";" + rng.choice(ws) + rng.choice(params)
        cases.append(s)
    outs = chk.driver().batch([("parse", {"s": s}) for s in cases])
    for s, m in zip(cases, outs):
        media_types.parse.cache_clear() if rng.random() < 0.01 else None
        try:
            impl = list(media_types.parse(s))
        except ValueError:
            impl = None
        chk.case("media_types.parse", key=s, nontrivial=impl is not None, sample={"s": s, "impl": impl})
        chk.feature("parse:" + ("error" if impl is None else "ok") + ("" if m["plain"] else ":early-quote"))
        if impl != m["model"]:
            chk.disagreement("media_types.parse", {"s": s}, m["model"], impl)
        # independent oracle for the reference parser: requests' own Content-Type tokenizer
        tok = _parse_content_type_header(s)[0]
        ref = [p.lower() for p in tok.split("/", 1)] if "/" in tok else None
        if all(ord(c) < 128 for c in s) and "\x0b" not in s and ref != m["spec"]:
            raise InfraError(f"Lean refParse != requests tokenizer on {s!r}: {m['spec']} vs {ref}")
        if m["plain"] and impl != m["spec"]:
            chk.violation("C04:media_types.parse:differs-from-type-subtype-reading",
                          f"media_types.parse({s!r}) = {impl}, type/subtype reading = {m['spec']}", {"s": s, "impl": impl})
        try:
            ij = media_types.is_json(s)
        except ValueError:
            ij = False
        if ij != m["json"]:
            chk.disagreement("media_types.parse", {"s": s, "fn": "is_json"}, m["json"], ij)


def coerce_corr(chk):
    schemas = [{"type": t} for t in ("string", "integer", "number", "boolean", "null", "array", "object")]
    schemas += [{}, {"type": ["integer", "null"]}, {"enum": ["1"]}, {"type": "integer", "minimum": 0}]
    values = G.HEADER_VALUES + ["00", "-0", "+0", "3.25", "10", "-10", "y", "N", "On", "TRUE", "nul", "1.5.5", "--1", "+-1", "-"]
    cases = [(v, s) for v in values for s in schemas]
    outs = chk.driver().batch([("coerce", {"value": v, "schema": s}) for v, s in cases])
    for (v, s), m in zip(cases, outs):
        with_default = dict(s)
        with_default.setdefault("type", "string")
        impl = oas_checks._coerce_header_value(v, with_default)
        if isinstance(impl, float) and impl == int(impl):
            impl = int(impl)
        chk.case("_coerce_header_value", key=[v, s], nontrivial=not isinstance(impl, str) or s.get("type") == "string",
                 sample={"value": v, "schema": s, "impl": impl})
        chk.feature(f"coerce:{type(impl).__name__}")
        same = type(impl) is type(m) and impl == m if not isinstance(impl, (int, float)) or isinstance(impl, bool) \
            else (not isinstance(m, bool) and isinstance(m, (int, float)) and impl == m)
        if not same:
            chk.disagreement("_coerce_header_value", {"value": v, "schema": s}, m, impl)


def undecodable_body(chk, variants):
    """Implementation-level replay only (no model counterpart): body bytes that are not UTF-8."""
    resp = {"status": 200, "headers": {"Content-Type": "application/json"}, "content": b"\xff\xfe{"}
    impl = run_impl(load_operation(W_CT), resp)
    chk.case("undecodable-body", key="ff fe", nontrivial=True, sample={"impl": impl})
    if isinstance(impl["body"], str):
        chk.violation(KF_UNDECODABLE, f"response_schema_conformance raised {impl['body']} for a body that is not UTF-8",
                      {"in": {"doc": W_CT, "resp": {**resp, "content": base64.b64encode(resp["content"]).decode()}}, "impl": impl})
    elif not fails(impl["body"]):
        chk.violation("C04:validate_response:undecodable-body-passed", "a JSON response whose body is not decodable passed",
                      {"in": {"doc": W_CT, "resp": {**resp, "content": base64.b64encode(resp["content"]).decode()}}, "impl": impl})


def write_only(chk, variants):
    """Implementation-level replay of the OpenAPI reading of `writeOnly` on the response side (the conversion to JSON
    Schema is a parameter of the model, so there is no correspondence here): exhaustive over 1-3 writeOnly properties,
    typed/untyped object schemas and all subsets of present properties."""
    names = ["a", "b", "c"]
    pairs, meta = [], []
    for typed in (True, False):
        for n_wo in (1, 2, 3):
            props = {n: ({"type": "string", "writeOnly": True} if i < n_wo else {"type": "string"}) for i, n in enumerate(names)}
            props["d"] = {"type": "string"}
            schema = {"properties": props}
            if typed:
                schema["type"] = "object"
            raw = _doc3({"200": {"description": "d", "content": {"application/json": {"schema": schema}}}})
            for k in range(5):
                for present in itertools.combinations(names + ["d"], k):
                    body = json.dumps({n: "x" for n in present}).encode()
                    pairs.append((raw, {"status": 200, "headers": {"Content-Type": "application/json"}, "content": body}))
                    meta.append((typed, n_wo, [n for n in present if n in names[:n_wo]]))
    outs = chk.driver().batch([("check", request_for(raw, resp, variants)) for raw, resp in pairs])
    ops: dict = {}
    for (raw, resp), m, (typed, n_wo, wo_present) in zip(pairs, outs, meta):
        op = ops.setdefault(id(raw), load_operation(raw))
        impl = run_impl(op, resp)
        wire = {"doc": raw, "resp": {**resp, "content": base64.b64encode(resp["content"]).decode()}}
        chk.case("writeOnly", key=wire, nontrivial=bool(wo_present), sample={"in": wire, "impl": impl["body"], "spec": m["spec"]["body"]})
        chk.feature(f"writeOnly:typed={typed}:n={n_wo}:present={len(wo_present)}")
        if m["spec"]["body"] != bool(wo_present):
            raise InfraError(f"Lean validF(response) disagrees with the writeOnly reading on {wire}")
        if fails(impl["body"]) == m["spec"]["body"]:
            continue
        rep = {"in": wire, "impl": impl, "spec": m["spec"]}
        if not fails(impl["body"]) and not typed:
            chk.violation(KF_WO_UNTYPED, "a response carrying a writeOnly property passes when the schema has `properties` "
                          "but no `type: object`", rep)
        elif not fails(impl["body"]) and typed and n_wo >= 2 and len(wo_present) < n_wo:
            chk.violation(KF_WO_PAIR, f"a response carrying {len(wo_present)} of {n_wo} writeOnly properties passes", rep)
        else:
            chk.violation("C04:response_schema_conformance:writeOnly-verdict-differs",
                          f"response_schema_conformance {'reports' if fails(impl['body']) else 'passes'} a body whose writeOnly "
                          f"properties present are {wo_present}", rep)


# ---- entry points --------------------------------------------------------------------------------------------------

def run(chk):
    rng = chk.rng
    selfcheck(chk, chk.budget(150, 1500))
    variants = detect_variants(chk)
    chk.variants.update(variants)
    chk.assumptions += [
        "jsonschema.validate(to_json_schema_recursive(S), v) = validF(oas=response) S v on the generated fragment "
        "(nullable, at most one writeOnly property per typed object, local $ref, no pattern+length): cross-checked by "
        "every correspondence case, not proved (converter.py is C01's proof subject)",
        "response keys are strings over [0-9xX] or 'default' (Python's int() additionally accepts '+', '_', blanks, "
        "non-ASCII digits); all text is ASCII; numeric header values follow [+-]?[0-9]+(.[0-9]+)?",
        "body bytes are UTF-8; json.loads is the trusted decoder of the body for model and specification",
        "`$ref`'d responses/headers are resolved by the harness' own pointer walk before the model sees them "
        "(jsonschema.RefResolver is third party)",
        "Swagger 2.0: the overall verdict is judged only when a documented schema comes with a non-empty `produces` "
        "(producesWf; otherwise validate_response asks for a Content-Type that nothing documents)",
    ]
    chk.trusted += ["lean/SV/Spec/JsonSchema.lean (shared reference semantics; differentially checked against jsonschema "
                    "in this run)", "harness/gens/c04_docs.py wire_doc/wire_resp (document → model input)"]
    chk.proved += [
        "expand_total / expand_mem / expand_2XX: n ∈ expand_status_code(k) ⇔ k covers n arithmetically, for every key over "
        "[0-9xX] of any length (and 'default' covers nothing); explicit_key_covers: str(n) covers n",
        "status_exact: status_code_conformance raises UndefinedStatusCode ⇔ no explicit key, range key or default "
        "documents the status; never crashes on well-formed keys",
        "lookup_repaired / lookup_asFound_partial: the lookup = explicit > range > default (as found: iff noRangeOnly)",
        "parse_plain, parse_none_iff, parse_params_ignored, rangeMatch_covers: media_types.parse = type/subtype reading "
        "when no quote precedes the first ';'",
        "content_type_exact_repaired, headers_exact_repaired, body_exact_repaired, verdict_repaired: checks report ⇔ "
        "deviates and no exception escapes, for every validity oracle V, well-formed document and response",
        "verdict_asFound_partial: the same for the code as found under noRangeOnly ∧ singleMedia ∧ noRequiredRefHeader ∧ "
        "ctNoCrash; verdict_asFound_full_false + asFound_range_only_miss / _body_miss, asFound_first_media_false_alarm / "
        "_miss, asFound_ref_header_miss, asFound_malformed_content_type_crash (kernel-checked witnesses)",
    ]
    chk.partial += [
        "JSON-Schema validation itself is a parameter V of the theorems (third-party jsonschema + converter.to_json_schema); "
        "its agreement with the reference semantics validF(oas=response) is sampled on every case, not proved",
        "undecodable (non-UTF-8) bodies and the writeOnly conversion are outside the model; checked by implementation-level "
        "replay only (mechanisms undecodable-body, writeOnly)",
        "per-aspect body theorem needs a readable Content-Type; with a missing/unreadable one only the overall verdict is "
        "proved (the content-type aspect then reports)",
    ]
    chk.sampled_only += ["resolution of `$ref`'d response / header definitions", "Swagger 2.0 `produces` inheritance",
                         "run_checks' de-duplication of failures (compared as class sets)"]
    # 1. witnesses / corpus first
    run_pairs(chk, "witness", WITNESSES, variants)
    undecodable_body(chk, variants)
    write_only(chk, variants)
    # 2. the pure helpers
    expand_corr(chk, chk.budget(400, 4000))
    parse_corr(chk, chk.budget(1500, 20000))
    coerce_corr(chk)
    # 3. generated (document, response) pairs
    pairs = []
    for _ in range(chk.budget(1400, 20000)):
        raw = G.gen_doc(rng)
        for _ in range(4):
            pairs.append((raw, G.gen_response(rng, raw)))
    for i in range(0, len(pairs), 400):
        run_pairs(chk, "generated", pairs[i:i + 400], variants)
    chk.exhaustive = False


def replay(chk, data):
    print(data.get("what"))
    rp = data["replay"]
    inp = rp.get("in") or rp.get("input") or rp
    print("input:", json.dumps(inp)[:2000])
    print("recorded impl:", rp.get("impl"))
    if isinstance(inp, dict) and "doc" in inp:
        raw = inp["doc"]
        resp = dict(inp["resp"])
        resp["content"] = base64.b64decode(resp["content"])
        variants = detect_variants(chk)
        print("variants in force:", variants)
        print("impl now:", run_impl(load_operation(raw), resp))
        try:
            m = chk.driver().one("check", request_for(raw, resp, variants))
            print("model:", m["model"])
            print("spec:", m["spec"], "wf:", m["wf"], "matched:", m["matched"])
        except ValueError:
            print("model: (body not UTF-8: outside the model)")
    elif isinstance(inp, dict) and "key" in inp:
        try:
            print("impl now:", list(expand_status_code(inp["key"]))[:20])
        except ValueError as e:
            print("impl now: ValueError", e)
        print("model/spec:", chk.driver().one("expand", {"key": inp["key"], "status": inp.get("status", 200)}))
    elif isinstance(inp, dict) and "s" in inp:
        try:
            print("impl now:", media_types.parse(inp["s"]))
        except ValueError as e:
            print("impl now: ValueError", e)
        print("model/spec:", chk.driver().one("parse", {"s": inp["s"]}))
    elif isinstance(inp, dict) and "value" in inp:
        s = dict(inp["schema"])
        s.setdefault("type", "string")
        print("impl now:", oas_checks._coerce_header_value(inp["value"], s))
        print("model:", chk.driver().one("coerce", inp))
    return 0
