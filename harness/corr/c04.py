"""C04 — response conformance checks agree with the API documentation.

Correspondence: real `status_code_conformance`, `content_type_conformance`, `response_headers_conformance`,
`response_schema_conformance` run through `case.validate_response(response, checks=[…])` on hand-built `Response`
objects against documents loaded with `schemathesis.openapi.from_dict`, versus the Lean model
(lean/SV/Model/C04.lean) on the same (document, response) pair; plus the pure helpers `expand_status_code`,
`media_types.parse`, `_coerce_header_value` on their own.
Formats: the documents carry `format` keywords (headers and bodies, all three flavours); the truth of "string conforms
to format" is an oracle table computed with the format predicates of the jsonschema library (third party, like `re`
for patterns) and cross-checked against a hand-written pool; WHICH formats are enforced is the model's
(`checkerFmt (headerChecker fl)`) and the specification's (`assertedFormats`) business.
Replay: the Lean *specification* `deviatesF` (lean/SV/Spec/C04.lean, over the shared JSON-Schema reference semantics)
judges the failures the real checks reported; small independent Python oracles cross-check the specification.
"""
from __future__ import annotations

import base64
import itertools
import json
import re
import warnings

import jsonschema
import requests
import schemathesis
from requests.utils import _parse_content_type_header
from schemathesis.core import media_types
from schemathesis.core.failures import Failure, FailureGroup
from schemathesis.core.transport import Response
from schemathesis.specs.openapi import checks as oas_checks
from schemathesis.specs.openapi.utils import expand_status_code

from harness.core import InfraError
from harness.gens import c04_docs as G
from harness.gens.schemas import lean_env, selfcheck

CHECKS = [("status", oas_checks.status_code_conformance), ("content_type", oas_checks.content_type_conformance),
          ("headers", oas_checks.response_headers_conformance), ("body", oas_checks.response_schema_conformance)]

KF_RANGE_DEFS = "C04:_get_response_definitions:range-key-ignored"
KF_RANGE_BODY = "C04:validate_response:range-key-ignored"
KF_FIRST_MEDIA = "C04:get_response_schema:first-media-type-schema-applied"
KF_HDR_REF = "C04:response_headers_conformance:required-flag-read-off-unresolved-$ref"
KF_CT_ERROR = "C04:validate_response:malformed-content-type-raises-ValueError"
KF_UNDECODABLE = "C04:validate_response:undecodable-body-raises-UnicodeDecodeError"
KF_WO_PAIR = "C04:to_json_schema:several-writeOnly-properties-forbidden-only-together"
KF_WO_UNTYPED = "C04:to_json_schema:writeOnly-ignored-without-type-object"
KF_HDR_NULLABLE = "C04:response_headers_conformance:nullable-header-type-defaulted-beside-anyOf"
KF_HDR_SCHEMA_REF = "C04:response_headers_conformance:$ref-header-schema-never-coerced"
KF_HDR_TYPE_LIST = "C04:response_headers_conformance:type-list-header-never-coerced"
KF_HDR_KEYWORD = "C04:response_headers_conformance:const-dropped-from-3.1-header-schema"
KF_IS_VALID = "C04:is_response_valid:FailureGroup-escapes"
KF_INT_KEYS = "C04:_get_response_definitions:integer-key-ignored"

# the format predicates of the jsonschema library: the truth F of "string conforms to format" (third party)
FORMAT_TRUTH = jsonschema.Draft202012Validator.FORMAT_CHECKER

_REQ = requests.Request("GET", "http://127.0.0.1/x").prepare()


def load_operation(raw):
    with warnings.catch_warnings():
        warnings.simplefilter("ignore")
        return schemathesis.openapi.from_dict(G.clone(raw))["/x"]["GET"]


def real_response(resp):
    return Response(status_code=resp["status"], headers={k: [v] for k, v in resp["headers"].items()},
                    content=resp["content"], request=_REQ, elapsed=0.1, verify=False)


def _classes(fn, single_failure=False):
    try:
        fn()
        return []
    except FailureGroup as g:
        return sorted({type(e).__name__ for e in g.exceptions})
    except Exception as e:  # noqa: BLE001 - the class of an escaping exception is the observable
        if single_failure and isinstance(e, Failure):
            return [type(e).__name__]
        return f"error:{type(e).__name__}"


def _is_valid(op, response):
    try:
        return bool(op.is_response_valid(response))
    except BaseException as e:  # noqa: BLE001 - FailureGroup is a BaseExceptionGroup
        if isinstance(e, (KeyboardInterrupt, SystemExit)):
            raise
        return f"error:{type(e).__name__}"


def run_impl(op, resp):
    """Per-check and combined verdicts of the real code: sorted failure class names, or 'error:<Class>'."""
    out = {}
    for name, check in CHECKS:
        case = op.Case()
        out[name] = _classes(lambda: case.validate_response(real_response(resp), checks=[check]))
    case = op.Case()
    out["all"] = _classes(lambda: case.validate_response(real_response(resp), checks=[c for _, c in CHECKS]))
    # the other two observation points: APIOperation.validate_response / is_response_valid
    out["op_validate"] = _classes(lambda: op.validate_response(real_response(resp)), single_failure=True)
    out["is_valid"] = _is_valid(op, real_response(resp))
    return out


def canon_model(m):
    return {k: ("error" if v == "error" else sorted(set(v))) for k, v in m.items()}


def canon_impl(i):
    return {k: ("error" if isinstance(v, str) else v) for k, v in i.items() if k not in ("op_validate", "is_valid")}


def fails(v):
    return v == "error" or isinstance(v, str) or bool(v)


def nullable_name(raw):
    return "x-nullable" if G.is_v2(raw) else "nullable"


def fmt_table(raw, inst):
    """[[format, string, bool]] for every format named in the document and every string of the response"""
    out = []
    for f in sorted(G.formats_in(raw)):
        if f not in FORMAT_TRUTH.checkers:
            continue  # no predicate exists for the name: nothing can enforce it
        for v in sorted(G.strings_in(inst)):
            out.append([f, v, FORMAT_TRUTH.conforms(v, f)])
    return out


def request_for(raw, resp, variants):
    inst = [G.wire_resp(resp)["body"], G.header_strings(resp)]
    env = lean_env(raw, inst, oas="response", nullable=nullable_name(raw), root=raw)
    env["fmt"] = fmt_table(raw, inst)
    return {"doc": G.wire_doc(raw), "resp": G.wire_resp(resp), "env": env, "variants": variants}


def matched_headers(raw, resp):
    """[(name, schema as written)] of the documented headers that the response carries, in the definition the
    documented lookup order (explicit > range > default) selects — for telling the known header shapes apart"""
    responses = {str(k): v for k, v in G.op_of(raw)["responses"].items()}
    status = str(resp["status"])
    d = responses.get(status)
    if d is None:
        for k, v in responses.items():
            if py_key_matches(k, resp["status"]):
                d = v
                break
    if d is None:
        d = responses.get("default")
    if d is None:
        return []
    d = G.resolve_local(raw, d)[0]
    present = {k.lower() for k in resp["headers"]}
    out = []
    for name, hd in (d.get("headers") or {}).items():
        if name.lower() in present:
            out.append((name, G.header_schema_of(raw, G.resolve_local(raw, hd)[0])))
    return out


def header_shapes(raw, resp):
    nn = nullable_name(raw)
    v31 = not G.is_v2(raw) and str(raw.get("openapi", "")).startswith("3.1")
    shapes = set()
    for _, s in matched_headers(raw, resp):
        if not isinstance(s, dict):
            continue
        if s.get(nn) is True:
            shapes.add("nullable")
        if "$ref" in s:
            shapes.add("schema-ref")
        if isinstance(s.get("type"), list):
            shapes.add("type-list")
        if v31 and "const" in s:
            shapes.add("const")
    return shapes


def ct_class(resp):
    ct = next((v for k, v in resp["headers"].items() if k.lower() == "content-type"), None)
    if ct is None:
        return "absent"
    try:
        main, sub = media_types.parse(ct)
    except ValueError:
        return "malformed"
    return "json" if main == "application" and (sub == "json" or sub.endswith("+json")) else "other"


# ---- judging one (document, response) pair ------------------------------------------------------------------------

def judge(chk, mechanism, raw, resp, m, impl, variants):
    wire = {"doc": raw, "resp": {**resp, "content": base64.b64encode(resp["content"]).decode()}}
    model, spec, wf = canon_model(m["model"]), m["spec"], m["wf"]
    repaired = canon_model(m["repaired"])
    ci = canon_impl(impl)
    nontrivial = m["matched"] != "none" or fails(impl["status"])
    chk.case(mechanism, key=wire, nontrivial=nontrivial, sample={"in": wire, "impl": impl, "spec": spec})
    chk.feature(f"matched={m['matched']}")
    chk.feature("version=" + ("2.0" if G.is_v2(raw) else raw["openapi"]))
    chk.feature(f"content-type={ct_class(resp)}")
    chk.feature("body=" + ("malformed" if G.wire_resp(resp)["body"] == ["malformed"] else "json"))
    chk.feature(f"deviates={spec['deviates']}")
    shapes = header_shapes(raw, resp)
    for sh in sorted(shapes):
        chk.feature(f"header-shape={sh}")
    fmts = G.formats_in(raw)
    if fmts:
        chk.feature("format=" + ("draft4-known" if fmts & D4_FORMATS else "") + ("+newer" if fmts & (ASSERTED - D4_FORMATS) else "")
                    + ("+annotation" if fmts - ASSERTED else ""))
    for name, _ in CHECKS:
        chk.feature(f"{name}:" + ("error" if ci[name] == "error" else ",".join(ci[name]) or "pass"))
    # ---- correspondence: model in the variants the tree exhibits vs implementation
    for name in ("status", "content_type", "headers", "body", "all"):
        if ci[name] != model[name]:
            chk.disagreement(mechanism, {"check": name, **wire}, model[name], impl[name])
    # ---- replay: the specification judges what the implementation reported
    asf = {k: v == "asFound" for k, v in variants.items()}
    rep = {"in": wire, "impl": impl, "spec": spec}

    def attribute(name, candidates, generic):
        """known site only if the model in the variants in force reproduces the implementation and the fully repaired
        model meets the specification"""
        explained = model[name] == ci[name] and fails(repaired[name]) == spec[name]
        if explained:
            for cond, sig in candidates:
                if cond:
                    return sig
        return generic

    if not wf["keys"]:
        return  # ill-formed status keys: outside the specification's domain (correspondence above still applies)
    if fails(ci["status"]) != spec["status"] or ci["status"] == "error":
        chk.violation("C04:status_code_conformance:verdict-differs-from-documentation",
                      f"status_code_conformance {'reports' if fails(ci['status']) else 'passes'} status {resp['status']} "
                      f"although it is {'documented' if not spec['status'] else 'not documented'}", rep)
    reported = False
    if wf["media"] and wf["ct_plain"]:
        if ci["content_type"] == "error" or fails(ci["content_type"]) != spec["content_type"]:
            sig = attribute("content_type", [(asf["lookup"] and m["matched"] == "range", KF_RANGE_DEFS)],
                            "C04:content_type_conformance:verdict-differs-from-documentation")
            chk.violation(sig, f"content_type_conformance {'reports' if fails(ci['content_type']) else 'passes'} a response "
                          f"whose Content-Type {'is covered by' if not spec['content_type'] else 'is covered by none of'} "
                          f"the documented media types (matched by {m['matched']} key)", rep)
            reported = True
    if ci["headers"] == "error" or fails(ci["headers"]) != spec["headers"]:
        flip = {site: fails(canon_model(m["flip"])[site]) == spec["headers"] for site in m["flip"]}
        cands = [(asf["lookup"] and m["matched"] == "range" and flip["lookup"], KF_RANGE_DEFS),
                 (asf["hdrRef"] and not wf["no_required_ref_header"] and flip["hdrRef"], KF_HDR_REF),
                 (asf["hdrType"] and "nullable" in shapes and flip["hdrType"], KF_HDR_NULLABLE),
                 (asf["hdrType"] and "schema-ref" in shapes and flip["hdrType"], KF_HDR_SCHEMA_REF),
                 (asf["hdrType"] and "type-list" in shapes and flip["hdrType"], KF_HDR_TYPE_LIST),
                 (asf["hdrKw"] and "const" in shapes and flip["hdrKw"], KF_HDR_KEYWORD)]
        # several known sites at once: no single repair explains the verdict, the shapes say which sites are involved
        cands += [(asf["lookup"] and m["matched"] == "range", KF_RANGE_DEFS),
                  (asf["hdrRef"] and not wf["no_required_ref_header"], KF_HDR_REF),
                  (asf["hdrType"] and "nullable" in shapes, KF_HDR_NULLABLE),
                  (asf["hdrType"] and "schema-ref" in shapes, KF_HDR_SCHEMA_REF),
                  (asf["hdrType"] and "type-list" in shapes, KF_HDR_TYPE_LIST),
                  (asf["hdrKw"] and "const" in shapes, KF_HDR_KEYWORD)]
        sig = attribute("headers", cands, "C04:response_headers_conformance:verdict-differs-from-documentation")
        chk.violation(sig, f"response_headers_conformance {'reports' if fails(ci['headers']) else 'passes'} a response whose "
                      f"documented headers {'conform' if not spec['headers'] else 'do not conform'} "
                      f"(matched by {m['matched']} key)", rep)
        reported = True
    if ci["body"] == "error":
        if not wf["ct_ok"] and asf["ctError"] and model["body"] == "error":
            chk.violation(KF_CT_ERROR, "validate_response lets a ValueError escape for a malformed Content-Type", rep)
        else:
            chk.violation("C04:response_schema_conformance:unexpected-exception",
                          f"response_schema_conformance raised {impl['body']}", rep)
        reported = True
    elif wf["media"] and wf["ct_plain"] and wf["ct_ok"] and fails(ci["body"]) != spec["body"]:
        sig = attribute("body", [(asf["lookup"] and m["matched"] == "range", KF_RANGE_BODY),
                                 (asf["media"] and not G.is_v2(raw), KF_FIRST_MEDIA)],
                        "C04:response_schema_conformance:verdict-differs-from-documentation")
        chk.violation(sig, f"response_schema_conformance {'reports' if fails(ci['body']) else 'passes'} a body that "
                      f"{'conforms to' if not spec['body'] else 'violates'} the schema documented for its status code and "
                      f"media type (matched by {m['matched']} key)", rep)
        reported = True
    # ---- the other observation points: APIOperation.validate_response is what response_schema_conformance runs, and
    # is_response_valid is its boolean reading
    if impl["op_validate"] != impl["body"]:
        chk.violation("C04:APIOperation.validate_response:differs-from-response_schema_conformance",
                      f"operation.validate_response gives {impl['op_validate']}, response_schema_conformance {impl['body']}", rep)
    if ci["body"] != "error":
        if isinstance(impl["is_valid"], str):
            sig = KF_IS_VALID if impl["is_valid"] == "error:FailureGroup" and len(ci["body"]) >= 2 else \
                "C04:is_response_valid:unexpected-exception"
            chk.violation(sig, f"operation.is_response_valid raised {impl['is_valid'][6:]} instead of returning False "
                          f"(validate_response reports {ci['body']})", rep)
        elif impl["is_valid"] != (not fails(ci["body"])):
            chk.violation("C04:is_response_valid:differs-from-validate_response",
                          f"operation.is_response_valid = {impl['is_valid']} although validate_response reports {ci['body']}", rep)
    if (not reported and wf["media"] and wf["ct_plain"] and ci["all"] != "error" and wf["produces"]
            and fails(ci["all"]) != spec["deviates"]):
        chk.violation("C04:validate_response:overall-verdict-differs-from-documentation",
                      f"the four conformance checks together {'report' if fails(ci['all']) else 'pass'} a response that "
                      f"{'deviates' if spec['deviates'] else 'conforms'}", rep)


def run_pairs(chk, mechanism, pairs, variants):
    """pairs: [(raw, resp)] — loads each distinct document once."""
    drv = chk.driver()
    reqs = [("check", request_for(raw, resp, variants)) for raw, resp in pairs]
    outs = drv.batch(reqs)
    ops: dict = {}
    for (raw, resp), m in zip(pairs, outs):
        if isinstance(m, dict) and "__err__" in m:
            raise InfraError(f"model error {m} on {json.dumps(raw)} {resp}")
        key = id(raw)
        if key not in ops:
            ops[key] = load_operation(raw)
        impl = run_impl(ops[key], resp)
        judge(chk, mechanism, raw, resp, m, impl, variants)


# ---- witnesses of the known defect sites (also kernel-checked in lean/SV/Props/C04.lean) ----------------------------

OBJ = {"type": "object", "required": ["id"], "properties": {"id": {"type": "integer"}}}


def _doc3(responses, components=None):
    raw = {"openapi": "3.0.2", "info": {"title": "t", "version": "1"}, "paths": {"/x": {"get": {"responses": responses}}}}
    if components:
        raw["components"] = components
    return raw


W_RANGE = _doc3({"2XX": {"description": "d", "content": {"application/json": {"schema": OBJ}},
                         "headers": {"X-Rate": {"required": True, "schema": {"type": "integer"}}}}})
W_MEDIA = _doc3({"200": {"description": "d", "content": {"application/xml": {"schema": {"type": "string"}},
                                                          "application/json": {"schema": OBJ}}}})
W_HDRREF = _doc3({"200": {"description": "d", "headers": {"X-Rate": {"$ref": "#/components/headers/H0"}}}},
                 {"headers": {"H0": {"required": True, "schema": {"type": "integer"}}}})
W_CT = _doc3({"200": {"description": "d", "content": {"application/json": {"schema": OBJ}}}})

W_HDR_CONST = _doc3({"200": {"description": "d", "headers": {"X-Rate": {"schema": {"const": "a"}}}}})
W_HDR_CONST["openapi"] = "3.1.0"
W_HDR_NULLABLE = _doc3({"200": {"description": "d", "headers": {"X-Rate": {"schema": {"type": "integer", "nullable": True}}}}})
W_HDR_SCHEMA_REF = _doc3({"200": {"description": "d", "headers": {"X-Rate": {"schema": {"$ref": "#/components/schemas/A"}}}}},
                         {"schemas": {"A": {"type": "integer"}}})
W_HDR_TYPE_LIST = _doc3({"200": {"description": "d", "headers": {"X-Rate": {"schema": {"type": ["integer", "null"]}}}}})
W_HDR_TYPE_LIST["openapi"] = "3.1.0"
W_UUID = _doc3({"200": {"description": "d", "content": {"application/json": {"schema": {"type": "string", "format": "uuid"}}},
                        "headers": {"X-Rate": {"schema": {"type": "string", "format": "uuid"}}}}})
GOOD_UUID = "123e4567-e89b-12d3-a456-426614174000"

WITNESSES = [
    (W_RANGE, {"status": 200, "headers": {"Content-Type": "text/plain"}, "content": b"{}"}),
    (W_RANGE, {"status": 200, "headers": {"Content-Type": "application/json", "X-Rate": "1"}, "content": b"{}"}),
    (W_MEDIA, {"status": 200, "headers": {"Content-Type": "application/json"}, "content": b'{"id": 1}'}),
    (W_MEDIA, {"status": 200, "headers": {"Content-Type": "application/json"}, "content": b'"x"'}),
    (W_HDRREF, {"status": 200, "headers": {}, "content": b""}),
    (W_CT, {"status": 200, "headers": {"Content-Type": "garbage"}, "content": b'{"id": 1}'}),
    (W_HDR_CONST, {"status": 200, "headers": {"X-Rate": "b"}, "content": b""}),
    (W_HDR_NULLABLE, {"status": 200, "headers": {"X-Rate": "5"}, "content": b""}),
    (W_HDR_SCHEMA_REF, {"status": 200, "headers": {"X-Rate": "5"}, "content": b""}),
    (W_HDR_TYPE_LIST, {"status": 200, "headers": {"X-Rate": "5"}, "content": b""}),
    # format_enforced_witness: violating / conforming uuid in header and body; the two-failure response of is_response_valid
    (W_UUID, {"status": 200, "headers": {"Content-Type": "application/json", "X-Rate": "zzzzzzzz-zzzz-zzzz-zzzz-zzzzzzzzzzzz"}, "content": b'"nope"'}),
    (W_UUID, {"status": 200, "headers": {"Content-Type": "application/json", "X-Rate": GOOD_UUID}, "content": json.dumps(GOOD_UUID).encode()}),
    (W_CT, {"status": 200, "headers": {}, "content": b"{}"}),
]


def detect_variants(chk):
    def impl(raw, resp):
        return run_impl(load_operation(raw), resp)
    v = {}
    a = impl(*WITNESSES[0])
    b = impl(*WITNESSES[1])
    v["lookup"] = "asFound" if not fails(a["content_type"]) and not fails(a["headers"]) and not fails(b["body"]) else "repaired"
    a, b = impl(*WITNESSES[2]), impl(*WITNESSES[3])
    v["media"] = "asFound" if fails(a["body"]) and not fails(b["body"]) else "repaired"
    v["hdrRef"] = "asFound" if not fails(impl(*WITNESSES[4])["headers"]) else "repaired"
    v["ctError"] = "asFound" if isinstance(impl(*WITNESSES[5])["body"], str) else "repaired"
    v["hdrKw"] = "asFound" if not fails(impl(*WITNESSES[6])["headers"]) else "repaired"
    v["hdrType"] = "asFound" if all(fails(impl(*WITNESSES[i])["headers"]) for i in (7, 8, 9)) else "repaired"
    return v


# ---- format checkers: the registration tables of the model vs the library, the truth oracle vs the hand-written pool ----

D4_FORMATS: set = set()
ASSERTED: set = set()


def format_tables(chk):
    t = chk.driver().one("formats", {})
    ASSERTED.update(t["asserted"])
    D4_FORMATS.update(t["drafts"]["Draft4Validator"])
    # the specification's list is written from the standard; so is the pool of the generator
    if set(t["asserted"]) != set(G.FORMAT_POOL):
        raise InfraError(f"assertedFormats (Lean) and FORMAT_POOL (generator) name different formats: "
                         f"{sorted(set(t['asserted']) ^ set(G.FORMAT_POOL))}")
    for name, formats in t["drafts"].items():
        lib = set(getattr(jsonschema, name).FORMAT_CHECKER.checkers)
        chk.case("format-checkers", key=name, nontrivial=True, sample={"draft": name, "model": sorted(formats), "library": sorted(lib)})
        if lib != set(formats):
            # third-party registration table / optional dependencies of this environment, not the code under test
            raise InfraError(f"jsonschema.{name}.FORMAT_CHECKER knows {sorted(lib)}, the model says {sorted(formats)}: "
                             "update Draft.formats (lean/SV/Model/C04.lean) or install the format dependencies")
    for f, (ok, bad) in G.FORMAT_POOL.items():
        for v, truth in [(x, True) for x in ok] + [(x, False) for x in bad]:
            chk.case("format-truth", key=[f, v], nontrivial=True, sample={"format": f, "value": v, "conforms": truth})
            if FORMAT_TRUTH.conforms(v, f) != truth:
                raise InfraError(f"format oracle: jsonschema says {v!r} {'conforms to' if not truth else 'violates'} "
                                 f"{f!r}, the hand-written pool says the opposite")
    for f in G.FORMATS_ANNOTATION:
        if f in FORMAT_TRUTH.checkers:
            raise InfraError(f"annotation-only format {f!r} has a predicate in this jsonschema")


# ---- the pure helpers ----------------------------------------------------------------------------------------------

def py_key_matches(key, status):
    """independent oracle for the specification's `keyMatches`: regex over the zero-padded decimal spelling"""
    if not key or not all(c in "0123456789xX" for c in key):
        return False
    s = str(status)
    if len(s) > len(key):
        return False
    return re.fullmatch("".join("[0-9]" if c in "xX" else c for c in key), s.zfill(len(key))) is not None


def expand_corr(chk, n):
    rng = chk.rng
    alphabet = "0123456789xX"
    keys = ["".join(p) for k in range(0, 3) for p in itertools.product("029xX", repeat=k)]
    keys += ["".join(rng.choice(alphabet) for _ in range(rng.randint(1, 4))) for _ in range(n)]
    keys += ["default", "abc", "2a0", "20O", "2XY", "x", "X", "XXXX", "0200", "00"]
    cases = [(k, rng.choice([0, 5, 20, 99, 100, 200, 209, 290, 299, 300, 404, 999, 1000, 2000, rng.randrange(0, 1200)])) for k in keys]
    outs = chk.driver().batch([("expand", {"key": k, "status": s}) for k, s in cases])
    for (k, s), m in zip(cases, outs):
        try:
            impl = list(expand_status_code(k))
        except ValueError:
            impl = "error"
        chk.case("expand_status_code", key=[k, s], nontrivial=impl != "error", sample={"key": k, "status": s, "covers": m["covers"]})
        chk.feature("expand:" + ("error" if impl == "error" else f"len{len(k)}"))
        if impl != m["model"]:
            chk.disagreement("expand_status_code", {"key": k}, m["model"] if m["model"] == "error" else m["model"][:12], impl if impl == "error" else impl[:12])
        if m["spec"] != py_key_matches(k, s):
            raise InfraError(f"Lean keyMatches != regex oracle on key={k!r} status={s}: {m['spec']}")
        if m["wf"] and impl != "error" and (s in impl) != m["spec"]:
            chk.violation("C04:expand_status_code:differs-from-range-semantics",
                          f"expand_status_code({k!r}) {'contains' if s in impl else 'lacks'} {s}", {"key": k, "status": s})


def parse_corr(chk, n):
    rng = chk.rng
    alphabet = ["a", "A", "/", ";", '"', "\\", " ", "=", "*", "+", "json", "application", "text", "\t", "x", "Z"]
    cases = list(G.MEDIA + G.MEDIA_BAD + G.CT_OTHER + G.CT_BAD)
    cases += ["".join(rng.choice(alphabet) for _ in range(rng.randint(0, 7))) for _ in range(n // 3)]
    ws = ["", "", "", " ", "\t", "  "]
    toks = ["application", "text", "Application", "*", "json", "JSON", "problem+json", "xml", "plain", "x", "a\"b", "vnd.a+json", "",
            "x-ndjson", "xjson", "json5", "geo+json-seq"]
    params = ["charset=utf-8", "q=0.5", "a=\"b;c\"", "a=\"b\\\";c\"", "\"", "", "x", "a=\"b"]
    for _ in range(n - n // 3):
        s = rng.choice(ws) + rng.choice(toks) + rng.choice(ws) + rng.choice(["/", "/", "/", "", "//"]) + rng.choice(toks) + rng.choice(ws)
        for _ in range(rng.choice([0, 0, 1, 1, 2])):
            s += ";" + rng.choice(ws) + rng.choice(params)
        cases.append(s)
    outs = chk.driver().batch([("parse", {"s": s}) for s in cases])
    for s, m in zip(cases, outs):
        media_types.parse.cache_clear() if rng.random() < 0.01 else None
        try:
            impl = list(media_types.parse(s))
        except ValueError:
            impl = None
        chk.case("media_types.parse", key=s, nontrivial=impl is not None, sample={"s": s, "impl": impl})
        chk.feature("parse:" + ("error" if impl is None else "ok") + ("" if m["plain"] else ":early-quote"))
        if impl != m["model"]:
            chk.disagreement("media_types.parse", {"s": s}, m["model"], impl)
        # independent oracle for the reference parser: requests' own Content-Type tokenizer
        tok = _parse_content_type_header(s)[0]
        ref = [p.lower() for p in tok.split("/", 1)] if "/" in tok else None
        if all(ord(c) < 128 for c in s) and "\x0b" not in s and ref != m["spec"]:
            raise InfraError(f"Lean refParse != requests tokenizer on {s!r}: {m['spec']} vs {ref}")
        if m["plain"] and impl != m["spec"]:
            chk.violation("C04:media_types.parse:differs-from-type-subtype-reading",
                          f"media_types.parse({s!r}) = {impl}, type/subtype reading = {m['spec']}", {"s": s, "impl": impl})
        try:
            ij = media_types.is_json(s)
        except ValueError:
            ij = False
        if ij != m["json"]:
            chk.disagreement("media_types.parse", {"s": s, "fn": "is_json"}, m["json"], ij)
        # replay (RFC 6839 structured syntax suffix): a media type is JSON iff its subtype is `json` or ends in `+json`;
        # `application/x-ndjson`, `text/xjson` are not, and their bodies must not be read as one JSON document
        if m["plain"] and m["spec"] is not None and len(m["spec"]) == 2:
            main_, sub = m["spec"]
            suffix = sub == "json" or sub.endswith("+json")
            # (whether a JSON-suffixed subtype under another top-level type than `application` counts is left to the code)
            if (ij and not suffix) or (main_ == "application" and suffix and not ij):
                chk.violation("C04:media_types.is_json:differs-from-json-or-plus-json-suffix",
                              f"is_json({s!r}) = {ij}; the subtype is {sub!r}", {"s": s, "is_json": ij})


def coerce_corr(chk):
    schemas = [{"type": t} for t in ("string", "integer", "number", "boolean", "null", "array", "object")]
    schemas += [{}, {"type": ["integer", "null"]}, {"enum": ["1"]}, {"type": "integer", "minimum": 0}]
    values = G.HEADER_VALUES + ["00", "-0", "+0", "3.25", "10", "-10", "y", "N", "On", "TRUE", "nul", "1.5.5", "--1", "+-1", "-"]
    cases = [(v, s) for v in values for s in schemas]
    outs = chk.driver().batch([("coerce", {"value": v, "schema": s}) for v, s in cases])
    for (v, s), m in zip(cases, outs):
        with_default = dict(s)
        with_default.setdefault("type", "string")
        impl = oas_checks._coerce_header_value(v, with_default)
        if isinstance(impl, float) and impl == int(impl):
            impl = int(impl)
        chk.case("_coerce_header_value", key=[v, s], nontrivial=not isinstance(impl, str) or s.get("type") == "string",
                 sample={"value": v, "schema": s, "impl": impl})
        chk.feature(f"coerce:{type(impl).__name__}")
        same = type(impl) is type(m) and impl == m if not isinstance(impl, (int, float)) or isinstance(impl, bool) \
            else (not isinstance(m, bool) and isinstance(m, (int, float)) and impl == m)
        if not same:
            chk.disagreement("_coerce_header_value", {"value": v, "schema": s}, m, impl)


def undecodable_body(chk, variants):
    """Implementation-level replay only (no model counterpart): body bytes that are not UTF-8."""
    resp = {"status": 200, "headers": {"Content-Type": "application/json"}, "content": b"\xff\xfe{"}
    impl = run_impl(load_operation(W_CT), resp)
    chk.case("undecodable-body", key="ff fe", nontrivial=True, sample={"impl": impl})
    if isinstance(impl["body"], str):
        chk.violation(KF_UNDECODABLE, f"response_schema_conformance raised {impl['body']} for a body that is not UTF-8",
                      {"in": {"doc": W_CT, "resp": {**resp, "content": base64.b64encode(resp["content"]).decode()}}, "impl": impl})
    elif not fails(impl["body"]):
        chk.violation("C04:validate_response:undecodable-body-passed", "a JSON response whose body is not decodable passed",
                      {"in": {"doc": W_CT, "resp": {**resp, "content": base64.b64encode(resp["content"]).decode()}}, "impl": impl})


def int_keyed(raw):
    """the same document with its explicit status keys as integers (what a plain YAML loader produces)"""
    out = G.clone(raw)
    op = G.op_of(out)
    op["responses"] = {(int(k) if isinstance(k, str) and k.isdigit() and not (len(k) > 1 and k[0] == "0") else k): v
                       for k, v in op["responses"].items()}
    return out


def integer_keys(chk, n):
    """Implementation-level metamorphic replay (no model counterpart): the verdicts do not depend on whether an explicit
    status key is the string "200" or the integer 200 (status_code_conformance and validate_response stringify the
    keys themselves)."""
    rng = chk.rng
    for _ in range(n):
        raw = G.gen_doc(rng)
        if not any(str(k).isdigit() for k in G.op_of(raw)["responses"]):
            continue
        op_s, op_i = load_operation(raw), load_operation(int_keyed(raw))
        for _ in range(3):
            resp = G.gen_response(rng, raw)
            a, b = run_impl(op_s, resp), run_impl(op_i, resp)
            wire = {"doc": raw, "integer_keys": True, "resp": {**resp, "content": base64.b64encode(resp["content"]).decode()}}
            differing = sorted(k for k in a if a[k] != b[k])
            chk.case("integer-keys", key=wire, nontrivial=any(fails(v) for v in a.values()),
                     sample={"in": wire, "string_keys": a, "integer_keys": b})
            chk.feature("integer-keys:" + (",".join(differing) or "same"))
            if not differing:
                continue
            rep = {"in": wire, "impl": b, "string_keys": a}
            if set(differing) <= {"content_type", "headers", "all"}:
                chk.violation(KF_INT_KEYS, f"with the status key as an integer {differing} give {[b[k] for k in differing]}, with "
                              f"the same key as a string {[a[k] for k in differing]}", rep)
            else:
                chk.violation("C04:responses:verdict-depends-on-key-type",
                              f"{differing} differ between integer and string status keys: {[b[k] for k in differing]} vs "
                              f"{[a[k] for k in differing]}", rep)


def write_only(chk, variants):
    """Implementation-level replay of the OpenAPI reading of `writeOnly` on the response side (the conversion to JSON
    Schema is a parameter of the model, so there is no correspondence here): exhaustive over 1-3 writeOnly properties,
    typed/untyped object schemas and all subsets of present properties."""
    names = ["a", "b", "c"]
    pairs, meta = [], []
    for typed in (True, False):
        for n_wo in (1, 2, 3):
            props = {n: ({"type": "string", "writeOnly": True} if i < n_wo else {"type": "string"}) for i, n in enumerate(names)}
            props["d"] = {"type": "string"}
            schema = {"properties": props}
            if typed:
                schema["type"] = "object"
            raw = _doc3({"200": {"description": "d", "content": {"application/json": {"schema": schema}}}})
            for k in range(5):
                for present in itertools.combinations(names + ["d"], k):
                    body = json.dumps({n: "x" for n in present}).encode()
                    pairs.append((raw, {"status": 200, "headers": {"Content-Type": "application/json"}, "content": body}))
                    meta.append((typed, n_wo, [n for n in present if n in names[:n_wo]]))
    outs = chk.driver().batch([("check", request_for(raw, resp, variants)) for raw, resp in pairs])
    ops: dict = {}
    for (raw, resp), m, (typed, n_wo, wo_present) in zip(pairs, outs, meta):
        op = ops.setdefault(id(raw), load_operation(raw))
        impl = run_impl(op, resp)
        wire = {"doc": raw, "resp": {**resp, "content": base64.b64encode(resp["content"]).decode()}}
        chk.case("writeOnly", key=wire, nontrivial=bool(wo_present), sample={"in": wire, "impl": impl["body"], "spec": m["spec"]["body"]})
        chk.feature(f"writeOnly:typed={typed}:n={n_wo}:present={len(wo_present)}")
        if m["spec"]["body"] != bool(wo_present):
            raise InfraError(f"Lean validF(response) disagrees with the writeOnly reading on {wire}")
        if fails(impl["body"]) == m["spec"]["body"]:
            continue
        rep = {"in": wire, "impl": impl, "spec": m["spec"]}
        if not fails(impl["body"]) and not typed:
            chk.violation(KF_WO_UNTYPED, "a response carrying a writeOnly property passes when the schema has `properties` "
                          "but no `type: object`", rep)
        elif not fails(impl["body"]) and typed and n_wo >= 2 and len(wo_present) < n_wo:
            chk.violation(KF_WO_PAIR, f"a response carrying {len(wo_present)} of {n_wo} writeOnly properties passes", rep)
        else:
            chk.violation("C04:response_schema_conformance:writeOnly-verdict-differs",
                          f"response_schema_conformance {'reports' if fails(impl['body']) else 'passes'} a body whose writeOnly "
                          f"properties present are {wo_present}", rep)



def response_side_documents(chk):
    """The response-side reading of a documented schema must not depend on HOW the document writes it: inline or behind a
    reference, OpenAPI 3 or Swagger 2.0 (`x-writeOnly`), one file or several.  Designed family, independent oracle (no model):
    schema {id: integer readOnly required, name: string required, password: string writeOnly}; a response body deviates iff it
    carries `password` or lacks `id` / `name`."""
    import tempfile
    import os
    names = ["id", "name", "password"]

    def schema_for(wo):
        return {"type": "object", "properties": {"id": {"type": "integer", "readOnly": True}, "name": {"type": "string"},
                                                  "password": {"type": "string", wo: True}}, "required": ["id", "name"]}
    flavours = []
    s3, s2 = schema_for("writeOnly"), schema_for("x-writeOnly")
    flavours.append(("openapi3-inline", _doc3({"200": {"description": "d", "content": {"application/json": {"schema": s3}}}})))
    flavours.append(("openapi3-ref", _doc3({"200": {"description": "d", "content": {"application/json": {"schema": {"$ref": "#/components/schemas/U"}}}}},
                                           {"schemas": {"U": s3}})))
    v2 = lambda schema, defs=None: {"swagger": "2.0", "info": {"title": "t", "version": "1"}, **({"definitions": defs} if defs else {}),  # noqa: E731
                                    "paths": {"/x": {"get": {"produces": ["application/json"],
                                                             "responses": {"200": {"description": "d", "schema": schema}}}}}}
    flavours.append(("swagger2-inline", v2(s2)))
    flavours.append(("swagger2-ref", v2({"$ref": "#/definitions/U"}, {"U": s2})))
    flavours.append(("swagger2-inline-array", v2({"type": "array", "items": s2})))
    for label, raw in flavours:
        op = load_operation(raw)
        for k in range(4):
            for present in itertools.combinations(names, k):
                obj = {n: (1 if n == "id" else "x") for n in present}
                body = json.dumps([obj] if label.endswith("array") else obj).encode()
                resp = {"status": 200, "headers": {"Content-Type": "application/json"}, "content": body}
                impl = run_impl(op, resp)
                deviates = "password" in present or "id" not in present or "name" not in present
                chk.case("response-side-conversion", key=[label, list(present)], nontrivial=True,
                         sample={"flavour": label, "present": list(present), "impl": impl["body"], "deviates": deviates})
                chk.feature(f"response-side-conversion:{label}")
                if fails(impl["body"]) != deviates:
                    chk.violation(f"C04:response_schema_conformance:readOnly-writeOnly-reading-depends-on-document-form:{label}",
                                  f"a response body with properties {list(present)} {'is reported' if fails(impl['body']) else 'passes'} "
                                  f"although it {'deviates from' if deviates else 'conforms to'} the documented schema (id readOnly+required, "
                                  f"name required, password writeOnly) written as {label}", {"doc": raw, "present": list(present), "impl": impl})
    # several files: the same local reference text denotes different schemas in different files
    with tempfile.TemporaryDirectory(prefix="verif-c04-") as d:
        root = _doc3({"200": {"description": "d", "content": {"application/json": {"schema": {
            "type": "object", "required": ["billing", "customer"],
            "properties": {"billing": {"$ref": "#/components/schemas/Address"},
                           "customer": {"$ref": "customer.json#/components/schemas/Customer"}}}}}}},
            {"schemas": {"Address": {"type": "object", "required": ["street"], "properties": {"street": {"type": "string"}},
                                     "additionalProperties": False}}})
        customer = {"components": {"schemas": {
            "Customer": {"type": "object", "required": ["address"], "properties": {"address": {"$ref": "#/components/schemas/Address"}}},
            "Address": {"type": "object", "required": ["city"], "properties": {"city": {"type": "string"}}, "additionalProperties": False}}}}
        with open(os.path.join(d, "root.json"), "w") as f:
            json.dump(root, f)
        with open(os.path.join(d, "customer.json"), "w") as f:
            json.dump(customer, f)
        with warnings.catch_warnings():
            warnings.simplefilter("ignore")
            op = schemathesis.openapi.from_path(os.path.join(d, "root.json"))["/x"]["GET"]
        # the same two files, validated from two threads at once (engine workers do that): each thread has its own operation,
        # whose schema lives in its own file; a verdict must not depend on what the other thread is resolving
        import threading
        root2 = json.loads(json.dumps(root))
        root2["paths"]["/y"] = {"get": {"responses": {"200": {"description": "d", "content": {"application/json": {"schema": {
            "$ref": "customer.json#/components/schemas/Customer"}}}}}}}
        root2["paths"]["/x"]["get"]["responses"]["200"]["content"]["application/json"]["schema"] = {"$ref": "#/components/schemas/Address"}
        with open(os.path.join(d, "root2.json"), "w") as f:
            json.dump(root2, f)
        with warnings.catch_warnings():
            warnings.simplefilter("ignore")
            sch2 = schemathesis.openapi.from_path(os.path.join(d, "root2.json"))
        opx, opy = sch2["/x"]["GET"], sch2["/y"]["GET"]
        plan = {"x": (opx, [({"street": "s"}, False), ({"city": "c"}, True)]),
                "y": (opy, [({"address": {"city": "c"}}, False), ({"address": {"street": "s"}}, True)])}
        wrong, n_rounds = [], 400 if not chk.thorough else 3000
        barrier = threading.Barrier(2)

        def work(tag):
            op_, items = plan[tag]
            barrier.wait()
            for i in range(n_rounds):
                body_, dev = items[i % 2]
                resp_ = real_response({"status": 200, "headers": {"Content-Type": "application/json"}, "content": json.dumps(body_).encode()})
                try:
                    op_.Case().validate_response(resp_, checks=[oas_checks.response_schema_conformance])
                    failed = False
                except BaseException as e:  # noqa: BLE001 - FailureGroup
                    if isinstance(e, (KeyboardInterrupt, SystemExit)):
                        raise
                    failed = True
                if failed != dev:
                    wrong.append((tag, body_, failed))
        import sys as _sys
        ts = [threading.Thread(target=work, args=(t,)) for t in ("x", "y")]
        old_interval = _sys.getswitchinterval()
        _sys.setswitchinterval(1e-5)       # let the two validations interleave at (almost) every bytecode boundary
        try:
            for t in ts:
                t.start()
            for t in ts:
                t.join()
        finally:
            _sys.setswitchinterval(old_interval)
        chk.case("response-side-conversion", key=["multi-file-two-threads", n_rounds], nontrivial=True,
                 sample={"flavour": "multi-file, two threads", "validations": 2 * n_rounds, "wrong_verdicts": len(wrong)})
        chk.feature("response-side-conversion:multi-file-two-threads")
        if wrong:
            tag, body_, failed = wrong[0]
            chk.violation("C04:response_schema_conformance:verdict-depends-on-what-another-thread-validates",
                          f"{len(wrong)} of {2 * n_rounds} validations run from two threads on a two-file description gave the wrong "
                          f"verdict; first: GET /{tag} body {body_} {'reported' if failed else 'passed'}",
                          {"root.json": root2, "customer.json": customer, "first_wrong": [tag, body_, failed], "wrong": len(wrong)})
        for billing, address, deviates in [({"street": "s"}, {"city": "c"}, False), ({"street": "s"}, {"street": "s"}, True),
                                           ({"city": "c"}, {"city": "c"}, True), ({"city": "c"}, {"street": "s"}, True)]:
            body = json.dumps({"billing": billing, "customer": {"address": address}}).encode()
            # more than once on the same loaded schema: whatever the first validation leaves behind must not change the next
            for rep in range(2):
                impl = run_impl(op, {"status": 200, "headers": {"Content-Type": "application/json"}, "content": body})
                chk.case("response-side-conversion", key=["multi-file", billing, address, rep], nontrivial=True,
                         sample={"flavour": "multi-file", "billing": billing, "address": address, "impl": impl["body"]})
                chk.feature("response-side-conversion:multi-file")
                if fails(impl["body"]) != deviates:
                    chk.violation("C04:response_schema_conformance:same-reference-text-in-two-files-resolved-to-one-schema",
                                  f"body billing={billing} customer.address={address} {'is reported' if fails(impl['body']) else 'passes'}: "
                                  "`#/components/schemas/Address` means one schema in root.json and another in customer.json",
                                  {"root": root, "customer.json": customer, "billing": billing, "address": address, "impl": impl})


# ---- entry points --------------------------------------------------------------------------------------------------

def run(chk):
    rng = chk.rng
    selfcheck(chk, chk.budget(150, 1500))
    format_tables(chk)
    variants = detect_variants(chk)
    chk.variants.update(variants)
    chk.assumptions += [
        "jsonschema.validate(to_json_schema_recursive(S), v) = validF(oas=response) S v on the generated fragment "
        "(nullable, at most one writeOnly property per typed object, local $ref, format, no pattern+length): "
        "cross-checked by every correspondence case, not proved (converter.py is C01's proof subject)",
        "the truth of 'string s conforms to format f' is the predicate jsonschema registers for f (third party, the same "
        "function in every draft's checker): an oracle table like `re` for patterns, cross-checked against a hand-written "
        "pool of conforming / violating values per format; which formats are ENFORCED is modelled (Draft.formats, "
        "headerChecker, bodyChecker) and specified (assertedFormats = the 19 defined formats of the 2020-12 vocabulary)",
        "Draft.formats equals the registration table of the installed jsonschema for Draft 4/6/7/2019-09/2020-12 "
        "(checked at the start of every run; a difference is an infrastructure error, not a violation)",
        "response keys are strings over [0-9xX] or 'default' (Python's int() additionally accepts '+', '_', blanks, "
        "non-ASCII digits); all text is ASCII; numeric header values follow [+-]?[0-9]+(.[0-9]+)?",
        "body bytes are UTF-8; json.loads is the trusted decoder of the body for model and specification",
        "`$ref`'d responses/headers are resolved by the harness' own pointer walk before the model sees them "
        "(jsonschema.RefResolver is third party)",
        "Swagger 2.0: the overall verdict is judged only when a documented schema comes with a non-empty `produces` "
        "(producesWf; otherwise validate_response asks for a Content-Type that nothing documents)",
    ]
    chk.trusted += ["lean/SV/Spec/JsonSchema.lean (shared reference semantics; differentially checked against jsonschema "
                    "in this run)", "harness/gens/c04_docs.py wire_doc/wire_resp (document → model input)"]
    chk.proved += [
        "expand_total / expand_mem / expand_2XX: n ∈ expand_status_code(k) ⇔ k covers n arithmetically, for every key over "
        "[0-9xX] of any length (and 'default' covers nothing); explicit_key_covers: str(n) covers n",
        "status_exact: status_code_conformance raises UndefinedStatusCode ⇔ no explicit key, range key or default "
        "documents the status; never crashes on well-formed keys",
        "lookup_repaired / lookup_asFound_partial: the lookup = explicit > range > default (as found: iff noRangeOnly)",
        "parse_plain, parse_none_iff, parse_params_ignored, rangeMatch_covers: media_types.parse = type/subtype reading "
        "when no quote precedes the first ';'",
        "content_type_exact_repaired, headers_exact_repaired, body_exact_repaired, verdict_repaired: checks report ⇔ "
        "deviates and no exception escapes, for every validity oracle V, well-formed document and response",
        "verdict_asFound_partial: the same for the code as found under noRangeOnly ∧ singleMedia ∧ noRequiredRefHeader ∧ "
        "ctNoCrash ∧ plainHeaders; verdict_asFound_full_false + asFound_range_only_miss / _body_miss, "
        "asFound_first_media_false_alarm / _miss, asFound_ref_header_miss, asFound_malformed_content_type_crash, "
        "asFound_nullable_typed_header_false_alarm, asFound_ref_header_schema_false_alarm, "
        "asFound_type_list_header_false_alarm, asFound_const_header_miss (kernel-checked witnesses)",
        "header_value_asFound_partial: keyword filter + nullable→anyOf + type default + coercion by the top-level type = "
        "the documented reading (some reading of the text as a value of a documented type validates) on plain header schemas",
        "checker_formats_exact, header_checker_exact, body_checker_exact: the checker handed to both jsonschema.validate "
        "calls enforces exactly the defined formats of the 2020-12 vocabulary, for every flavour and every truth F of the "
        "format predicates; newest_checker_greatest: every older checker knows a subset; own_checker_gap: the validator "
        "class's own checker (Draft 4 for 2.0/3.0) would leave 11 defined formats (uuid, date, time, duration, …) unenforced",
        "verdict_formats_repaired / verdict_formats_asFound_partial: the verdict theorems with validity as a function of "
        "the format predicate it is handed (every W, every F); format_enforced_witness: violating / conforming uuid in "
        "header and body in all three flavours, and the miss with the validator class's own checker",
    ]
    chk.partial += [
        "JSON-Schema validation itself is a parameter V of the theorems (third-party jsonschema + converter.to_json_schema); "
        "its agreement with the reference semantics validF(oas=response) is sampled on every case, not proved",
        "undecodable (non-UTF-8) bodies, the writeOnly conversion and integer status keys are outside the model; checked by "
        "implementation-level replay only (mechanisms undecodable-body, writeOnly, integer-keys)",
        "header schemas: only the top level of as_json_schema is modelled (keyword filter, nullable→anyOf, type default); "
        "nested conversion and the pattern/length merge (update_quantifiers) stay inside V",
        "per-aspect body theorem needs a readable Content-Type; with a missing/unreadable one only the overall verdict is "
        "proved (the content-type aspect then reports)",
    ]
    chk.sampled_only += ["resolution of `$ref`'d response / header definitions and header schemas", "Swagger 2.0 `produces` inheritance",
                         "run_checks' de-duplication of failures (compared as class sets)",
                         "APIOperation.validate_response = response_schema_conformance and is_response_valid = its boolean "
                         "reading (compared on every generated pair)",
                         "independence of the verdicts from the type (str / int) of explicit status keys"]
    # 1. witnesses / corpus first
    run_pairs(chk, "witness", WITNESSES, variants)
    undecodable_body(chk, variants)
    write_only(chk, variants)
    response_side_documents(chk)
    integer_keys(chk, chk.budget(60, 600))
    # 2. the pure helpers
    expand_corr(chk, chk.budget(400, 4000))
    parse_corr(chk, chk.budget(1500, 20000))
    coerce_corr(chk)
    # 3. generated (document, response) pairs
    pairs = []
    for _ in range(chk.budget(1400, 20000)):
        raw = G.gen_doc(rng)
        for _ in range(4):
            pairs.append((raw, G.gen_response(rng, raw)))
    for i in range(0, len(pairs), 400):
        run_pairs(chk, "generated", pairs[i:i + 400], variants)
    chk.exhaustive = False


def replay(chk, data):
    print(data.get("what"))
    rp = data["replay"]
    inp = rp.get("in") or rp.get("input") or rp
    print("input:", json.dumps(inp)[:2000])
    print("recorded impl:", rp.get("impl"))
    if isinstance(inp, dict) and "doc" in inp:
        raw = inp["doc"]
        resp = dict(inp["resp"])
        resp["content"] = base64.b64decode(resp["content"])
        if inp.get("integer_keys"):
            print("impl now, string keys :", run_impl(load_operation(raw), resp))
            print("impl now, integer keys:", run_impl(load_operation(int_keyed(raw)), resp))
            return 0
        variants = detect_variants(chk)
        print("variants in force:", variants)
        print("impl now:", run_impl(load_operation(raw), resp))
        try:
            m = chk.driver().one("check", request_for(raw, resp, variants))
            print("model:", m["model"])
            print("spec:", m["spec"], "wf:", m["wf"], "matched:", m["matched"])
        except ValueError:
            print("model: (body not UTF-8: outside the model)")
    elif isinstance(inp, dict) and "key" in inp:
        try:
            print("impl now:", list(expand_status_code(inp["key"]))[:20])
        except ValueError as e:
            print("impl now: ValueError", e)
        print("model/spec:", chk.driver().one("expand", {"key": inp["key"], "status": inp.get("status", 200)}))
    elif isinstance(inp, dict) and "s" in inp:
        try:
            print("impl now:", media_types.parse(inp["s"]))
        except ValueError as e:
            print("impl now: ValueError", e)
        print("model/spec:", chk.driver().one("parse", {"s": inp["s"]}))
    elif isinstance(inp, dict) and "value" in inp:
        s = dict(inp["schema"])
        s.setdefault("type", "string")
        print("impl now:", oas_checks._coerce_header_value(inp["value"], s))
        print("model:", chk.driver().one("coerce", inp))
    return 0
