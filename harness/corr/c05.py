"""C05 — no failure or internal error is ever lost: it reaches the report and the exit code.

Tie to the code: (a) tables regenerated from the source (status order, run_test's except ladder, the CLI exit rule)
feed `decide` theorems; (b) the real consumer generator and the real worker are driven deterministically against the
Lean model; (c) real multi-threaded engine runs against a scripted loopback API with single faults injected at each
stage are judged by the reference predicate "problem ⇒ reported ∧ exit ≠ 0; exit 0 ⇒ every operation closed";
(d) the CLI reporting layer (`ExecutionContext.on_event` -> `Statistic.on_scenario_finished`, `exit_code`): generated
histories of real events and the streams of real engine runs go through the real context, which is compared with the
Lean model of the failure store and judged by its specification (harness/corr/c05_stat.py).
"""
from __future__ import annotations

import logging
from unittest import mock

import hypothesis.errors
import requests

from harness import engine_common as E
from harness.corr import c05_stat
from harness.gen_engine_tables import render

logging.getLogger("werkzeug").setLevel(logging.ERROR)

KF_RACE = "C05:unit.execute:events-put-between-queue.Empty-and-liveness-test-are-dropped"
DRIVERS = ("Engine",)
EXTRA_TARGETS = ("SV.Props.C05",)


def prepare(chk):
    chk.write_generated("Engine", render())


def detect_race(chk):
    """F3 on real threads: hold the workers until the consumer's get() timed out, release them inside the liveness test."""
    app = E.make_app(lambda p, n: 200)
    with E.Server(app) as srv:
        schema = E.load_schema(srv.url, 2)
        from schemathesis.engine.phases import PhaseName
        evs = E.race_probe(schema, E.engine_config(phases=[PhaseName.FUZZING], workers=1, max_examples=2))
    ps = E.plan_canon(evs)
    fuzz = [e for e in ps if e.get("phase") == "FUZZING"]
    finished = [e for e in fuzz if e["k"] == "ScenarioFinished"]
    pf = next(e for e in fuzz if e["k"] == "PhaseFinished")
    lost = len(finished) < 2
    return ("asFound" if lost else "repaired"), {"fuzzing_events": fuzz, "scenarios_finished": len(finished),
                                                  "phase_finished": pf, "exit_code": E.exit_code_of(evs)}


FAULT_EXC = [RuntimeError, ValueError, KeyError, TypeError, ZeroDivisionError]


def fault_runs(chk, n_each):
    """single internal fault at each stage of the per-operation pipeline, real engine, real threads"""
    from schemathesis.engine.phases import PhaseName
    from schemathesis.checks import not_a_server_error
    import schemathesis.generation.hypothesis.builder as builder
    import schemathesis.transport.requests as treq
    rng = chk.rng

    def boom_check(ctx, response, case):
        raise RuntimeError("check exploded")

    stages = {
        "create_test": lambda exc: mock.patch.object(builder, "create_test", side_effect=exc("injected")),
        "strategy": lambda exc: mock.patch("schemathesis.schemas.APIOperation.as_strategy", side_effect=exc("injected")),
        "serialize": lambda exc: mock.patch.object(treq.RequestsTransport, "serialize_case", side_effect=exc("injected")),
        "send": lambda exc: mock.patch.object(requests.Session, "request", side_effect=exc("injected")),
        "send-network": lambda exc: mock.patch.object(requests.Session, "request",
                                                      side_effect=requests.ConnectionError("injected")),
        "check": None,
    }
    app = E.make_app(lambda p, n: 200)
    with E.Server(app) as srv:
        for stage, patcher in stages.items():
            for _ in range(n_each):
                exc = rng.choice(FAULT_EXC)
                workers = rng.choice([1, 2])
                phases = rng.choice([[PhaseName.FUZZING], [PhaseName.COVERAGE], [PhaseName.COVERAGE, PhaseName.FUZZING]])
                schema = E.load_schema(srv.url, 2)
                checks = [boom_check] if stage == "check" else [not_a_server_error]
                cfg = E.engine_config(phases=phases, workers=workers, max_examples=2, checks=checks)
                # `create_test` is imported inside worker_task from the builder module at call time
                cm = patcher(exc) if patcher else mock.patch.object(builder, "__verif_nop__", None, create=True)
                with cm:
                    evs = E.run_engine(schema, cfg)
                ps = E.plan_canon(evs)
                exit_code = E.exit_code_of(evs)
                reported = any(e["k"] == "NonFatalError" for e in ps) or \
                    any(e["k"] == "ScenarioFinished" and e["st"] in ("error", "failure") for e in ps)
                phase_bad = any(e["k"] == "PhaseFinished" and e.get("enabled") and e["st"] in ("error", "failure") for e in ps)
                key = [stage, exc.__name__, workers, [p.name for p in phases]]
                chk.case("fault:engine-run", key=key, sample={"stage": stage, "exc": exc.__name__, "workers": workers,
                                                               "exit": exit_code, "reported": reported})
                chk.feature(f"fault-stage:{stage}")
                if not (reported and phase_bad and exit_code != 0):
                    chk.violation(f"C05:fault-at-{stage}:not-reported",
                                  f"an internal fault at stage {stage} ({exc.__name__}) is not reported "
                                  f"(reported={reported}, phase failed={phase_bad}, exit={exit_code})",
                                  {"stage": stage, "exc": exc.__name__, "workers": workers,
                                   "phases": [p.name for p in phases], "stream": ps, "exit": exit_code})


def behaviour_runs(chk, n, streams=None):
    """scripted API behaviours × configurations: the reference predicate on the real stream"""
    from schemathesis.engine.phases import PhaseName
    rng = chk.rng
    for j in range(n + 1):
        n_ops = rng.randint(1, 4)
        bad = {f"/op{i}": rng.choice([None, 1, 2, 3]) for i in range(n_ops)}   # fails from the k-th call on
        slow = {f"/op{i}" for i in range(n_ops) if rng.random() < 0.25}            # answers after the consumer's poll timeout
        # the failure that has to be reported may be the very one that exhausts --max-failures
        mf = rng.choice([None, None, None, 1, 2])
        if j == 0:      # every run of the check: one operation, failing from its first call, limit 1
            n_ops, bad, slow, mf = 1, {"/op0": 1}, set(), 1

        def behaviour(p, k):
            if p in slow:
                import time as _t
                _t.sleep(0.25)
            return 500 if bad.get(p) is not None and k >= bad[p] else 200
        app = E.make_app(behaviour)
        workers = rng.choice([1, 1, 2, 3]) if mf is None else 1
        phases = rng.choice([[PhaseName.FUZZING], [PhaseName.COVERAGE, PhaseName.FUZZING], [PhaseName.COVERAGE],
                             [PhaseName.EXAMPLES, PhaseName.FUZZING]])
        cof = rng.random() < 0.3
        chk.feature(f"behaviour-max-failures:{mf}")
        with E.Server(app) as srv:
            schema = E.load_schema(srv.url, n_ops)
            cfg = E.engine_config(phases=phases, workers=workers, max_examples=rng.choice([2, 4]), continue_on_failure=cof,
                                  seed=rng.randint(1, 10**6), unique_inputs=rng.random() < 0.2, max_failures=mf)
            evs = E.run_engine(schema, cfg)
        ps = E.plan_canon(evs)
        exit_code = E.exit_code_of(evs)
        if streams is not None:
            streams.append((evs, {"engine_run": {"bad_from_call": bad, "workers": workers, "phases": [p.name for p in phases],
                                                 "continue_on_failure": cof}}))
        failing = [e for e in ps if e["k"] == "ScenarioFinished" and e["st"] in ("failure", "error")]
        # the failure is recorded with the request that caused it
        for ev in evs:
            if type(ev).__name__ == "ScenarioFinished" and ev.status.value == "failure":
                rec = ev.recorder
                failed = [(cid, c) for cid, cs in rec.checks.items() for c in cs if c.failure_info is not None]
                ok = bool(failed) and all(cid in rec.interactions and rec.interactions[cid].request is not None
                                          and cid in rec.cases and c.failure_info.code_sample for cid, c in failed)
                # the recorded request really is one that got a failing answer from the scripted API
                if ok:
                    for cid, c in failed:
                        resp = rec.interactions[cid].response
                        if resp is None or resp.status_code < 500:
                            ok = False
                if not ok:
                    chk.violation("C05:recorder:failing-scenario-without-recorded-check-failure-and-request",
                                  "a scenario finished as FAILURE but its recorder does not hold the failing check together "
                                  "with the request/response that caused it",
                                  {"label": ev.label, "checks": {k: [(c.name, c.status.value) for c in v] for k, v in rec.checks.items()},
                                   "interactions": list(rec.interactions)})
        key = [n_ops, bad, workers, [p.name for p in phases], cof, mf]
        chk.case("behaviour:engine-run", key=key, nontrivial=True,
                 sample={"bad_from_call": bad, "workers": workers, "phases": [p.name for p in phases], "exit": exit_code,
                         "failing_scenarios": len(failing)})
        chk.feature(f"behaviour-workers:{workers}")
        chk.feature(f"behaviour-exit:{exit_code}")
        replay = {"bad_from_call": bad, "workers": workers, "phases": [p.name for p in phases], "continue_on_failure": cof,
                  "max_failures": mf, "stream": ps, "exit": exit_code}
        # problem => reported: phase of a failing scenario is failed/errored, exit != 0
        for f in failing:
            pf = next((e for e in ps if e["k"] == "PhaseFinished" and e["phase"] == f["phase"]), None)
            if pf is None or pf["st"] not in ("failure", "error") or exit_code == 0:
                chk.violation("C05:status-fold:failing-scenario-not-reflected-in-phase-or-exit",
                              "a failing scenario was delivered but its phase or the exit code does not say so", replay)
        if any(e["k"] == "NonFatalError" for e in ps) and exit_code == 0:
            chk.violation("C05:exit-code:NonFatalError-with-exit-0", "NonFatalError delivered but exit code 0", replay)
        # exit 0 => every operation closed in every executed unit phase (or explicitly skipped)
        if exit_code == 0 and mf is None:
            for ph in [p.name for p in phases if p.name != "STATEFUL_TESTING"]:
                fin = [e for e in ps if e["k"] == "ScenarioFinished" and e["phase"] == ph]
                if len(fin) != n_ops:
                    chk.violation("C05:delivery:exit-0-with-operations-not-closed",
                                  f"exit code 0 but only {len(fin)} of {n_ops} operations were closed in phase {ph}", replay)
        # the API did misbehave on a request => somebody noticed (default check not_a_server_error)
        yield ps


def ladder_runs(chk):
    """every except arm of run_test: the status the real ladder assigns is one the generated table lists"""
    from harness.gen_engine_tables import ladder as ladder_table
    from schemathesis.core.failures import Failure, FailureGroup
    from schemathesis.core.control import SkipTest
    from schemathesis.engine.errors import UnexpectedError
    from hypothesis_jsonschema._canonicalise import HypothesisRefResolutionError
    from jsonschema.exceptions import SchemaError
    arms, _ = ladder_table()
    table = {}
    for names, statuses, ret in arms:
        for nme in names:
            table[nme] = statuses
    mk = {
        "SkipTest": lambda: SkipTest("x"),
        "Failure": lambda: Failure(operation="GET /op0", title="t", message="m"),
        "FailureGroup": lambda: FailureGroup([Failure(operation="GET /op0", title="t", message="m")]),
        "UnexpectedError": lambda: UnexpectedError("x"),
        "Unsatisfiable": lambda: hypothesis.errors.Unsatisfiable("x"),
        "AssertionError": lambda: AssertionError("x"),
        "HypothesisRefResolutionError": lambda: HypothesisRefResolutionError("x"),
        "InvalidArgument": lambda: hypothesis.errors.InvalidArgument("x"),
        "JsonSchemaError": lambda: SchemaError("x"),
        "Exception": lambda: RuntimeError("x"),
        "Flaky": lambda: hypothesis.errors.Flaky("x"),
        "BaseExceptionGroup": lambda: BaseExceptionGroup("g", [RuntimeError("x")]),
        "KeyboardInterrupt": lambda: KeyboardInterrupt(),
    }
    log: list = []
    app = E.make_app(lambda p, k: 200, log)
    with E.Server(app) as srv:
        schema = E.load_schema(srv.url, 1)
        for name, make in mk.items():
            evs, _, _, _ = E.drive_worker(schema, log, [{"op": 0, "kind": "raise", "exc": make}])
            fin = [e for e in evs if e["k"] == "scenFinished"]
            st = fin[0]["st"].upper() if fin else None
            allowed = [s.replace("yield:", "") for s in table.get(name, [])]
            chk.case("ladder:run_test", key=name, sample={"raised": name, "status": st, "events": evs})
            chk.feature("ladder-arm")
            if st is None or st not in allowed:
                chk.disagreement("ladder:run_test", {"raised": name}, {"allowed": allowed}, {"status": st, "events": evs})
            if name not in ("SkipTest", "KeyboardInterrupt") and st not in ("FAILURE", "ERROR"):
                chk.violation(f"C05:run_test:{name}-not-reported-as-failure-or-error",
                              f"an exception of class {name} out of the test function ends the scenario as {st}",
                              {"raised": name, "events": evs})


def run(chk):
    variant, probe = detect_race(chk)
    chk.variants["unit.execute:queue-race"] = variant
    chk.assumptions += ["CPython: Queue.put/get atomic and FIFO; thread death observable through is_alive; a thread can be "
                        "pre-empted between any two bytecodes", "Hypothesis re-raises the test function's exception"]
    chk.trusted += ["harness/gen_engine_tables.py (ast extraction of _STATUS_ORDER, run_test's except arms, on_event's rule)",
                    "the abstraction harness/engine_common.script_of (what a scripted operation does) "]
    chk.proved += ["fold_never_hides (all schedules/stop points)", "closed_as_failed", "delivery_repaired (all schedules, "
                   "repaired consumer)", "delivery_asFound_false (kernel-checked lossy trace)", "exit_code_spec",
                   "ladder_total / status_order_matches_source / exit_rule_matches_source (decide over tables regenerated "
                   "from the source)"]
    chk.partial += ["interpreter-level failures (MemoryError, sys.exit inside handlers) are outside the model",
                    "the stateful phase: consumer, suite loop and the instrumented state machine are modelled as functions of their environment (SV/Model/Stateful.lean, StatefulMachine.lean) and driven against the real code; the consumer queue race is the unit phase's (same repair) and is not re-proved as an LTS; a teardown that raises is outside the model"]
    if variant == "asFound":
        chk.violation(KF_RACE, "events put by a worker between the consumer's queue.Empty and its liveness test are lost: "
                      "the phase is closed as 'nothing to test' with exit code 0", probe)
    for _ in E.consumer_correspondence(chk, variant, chk.budget(250, 3000)):
        pass
    for _ in E.worker_correspondence(chk, chk.budget(120, 1500)):
        pass
    for _ in E.stateful_thread_correspondence(chk, chk.budget(80, 1000)):
        pass
    for _ in E.stateful_consumer_correspondence(chk, chk.budget(25, 300)):
        pass
    # the instrumented state machine (setup / step / validate_response / teardown) and every arm of the suite loop with
    # its state, driven by a scripted stand-in for Hypothesis against SV/Model/StatefulMachine.lean
    chk.variants["execute_state_machine_loop:flaky-arm"] = E.detect_flaky_variant()
    E.stateful_machine_checks(chk, chk.budget(120, 1500), chk.budget(150, 2000), "C05")
    E.intermittent_error_probe(chk, "C05")
    ladder_runs(chk)
    fault_runs(chk, chk.budget(2, 12))
    streams: list = []
    for _ in behaviour_runs(chk, chk.budget(14, 150), streams):
        pass
    # the CLI reporting layer: what ExecutionContext makes of the streams (failure store, counters, exit code)
    import time as _time
    t0 = _time.time()
    c05_stat.run_all(chk, streams)
    chk.notes.append(f"cli-context / cli-execute mechanisms took {_time.time() - t0:.1f}s")
    chk.proved += ["statistic_keeps_every_failure / statistic_failure_with_its_request / statistic_reports_nothing_else / "
                   "statistic_store_only_grows / statistic_counters (all histories of finished scenarios with distinct "
                   "case ids)", "statistic_satisfies_judge (the judge applied to the real store accepts the model's store)",
                   "distinct_case_ids_needed, overwrite_variant_loses_failure (kernel-checked witnesses)",
                   "cli_context_spec, failure_reaches_report_and_exit, cli_exit_for_failing_unit_phase",
                   "cli_execute_no_fault, cli_exit_zero_only_if_clean (`_execute` with a handler fault at any event)"]
    chk.assumptions += ["case ids are pairwise distinct - the explicit hypothesis of the store theorems (necessity witness "
                        "distinct_case_ids_needed); the code draws them as 6 random base-62 characters (generate_random_case_id, "
                        "62^6 values), so distinctness is probabilistic; it is checked on every stream of the run"]
    chk.sampled_only += ["Statistic.tested_operations and the text rendered by display_failures are judged by the Python "
                         "oracle only (not in the Lean model)",
                         "FatalError path (loader error, exception escaping the engine stream) through the real execute() "
                         "with the real console handler: 4 runs, exit code must be non-zero"]
    chk.partial += ["Statistic.extraction_failures (stateful link extraction) is not modelled"]
    # the quantifier's "all single internal faults injected at each stage of the per-operation pipeline": the stages are
    # every call site reached by a traced real run, not a hand-picked list
    from harness import fault_sweep
    fault_sweep.sweep(chk, "C05", procs=chk.budget(6, 10))
    chk.sampled_only += ["fault sweep: one injected exception per call site of a traced real run (quick: pipeline skeleton "
                         "+ 20 sampled sites; thorough: every site, 1st and 2nd call, three exception classes): the fault "
                         "must show up as an error event / failing status with a non-zero exit code, unless everything "
                         "was still sent and checked"]


def replay(chk, data):
    import json
    if (data.get("replay") or {}).get("mechanism") == "fault-sweep":
        from harness import fault_sweep
        return fault_sweep.replay(chk, data["replay"])
    if (data.get("replay") or {}).get("mechanism") == "cli-context":
        print(data.get("what"))
        return c05_stat.replay(chk, data["replay"])
    print(data.get("what"))
    print(json.dumps(data.get("replay"), indent=1, default=str)[:6000])
    if data["signature"] == KF_RACE:
        print("now:", detect_race(chk))
    return 0
