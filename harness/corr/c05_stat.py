"""C05, CLI reporting layer — `ExecutionContext.on_event` -> `Statistic.on_scenario_finished` / `exit_code`.

Model: lean/SV/Model/C05Stat.lean, spec: lean/SV/Spec/C05Stat.lean, driver: lean/Drivers/C05.lean, theorems in
lean/SV/Props/C05.lean (statistic_keeps_every_failure, statistic_failure_with_its_request, ...).

One path for every stream of real engine events (generated histories of real `ScenarioFinished` / `NonFatalError` /
`PhaseFinished` events, and the streams of real engine runs):

  real events --abstract()--> wire events (labels, case ids, failures by `Failure.__eq__`, code samples, responses
                              numbered by first appearance)
  real events --ExecutionContext.on_event--> ctx.statistic / ctx.exit_code --observe()--> wire store

  correspondence: wire store, counters, exit code == the Lean model run on the wire events
  replay:         the Lean specification (`judge`, `invented`, `exitCode`) and an independent Python oracle judge the
                  *real* store: every distinct failure of the history is held exactly once, under the label and case id
                  where it was first seen, with that case's response and code sample; the FAILURES section rendered by
                  the real `display_failures` shows it; a delivered error / failed enabled phase gives a non-zero exit.
"""
from __future__ import annotations

import io
from contextlib import redirect_stdout

import requests

from harness.core import InfraError
from harness.gens import c16_world as W

from schemathesis.cli.commands.run.context import ExecutionContext
from schemathesis.core.failures import Failure, ServerError
from schemathesis.core.transport import Response
from schemathesis.engine import Status, events
from schemathesis.engine.phases import Phase, PhaseName
from schemathesis.engine.recorder import ScenarioRecorder

PH = ["PROBING", "EXAMPLES", "COVERAGE", "FUZZING", "STATEFUL_TESTING"]
OPS = ["GET /a", "POST /a", "GET /b", "DELETE /users/{id}"]
STATEFUL = "Stateful tests"
LABELS = OPS + [STATEFUL]
N_FAIL = 4          # failure identities per operation
UNKNOWN = 9000

SIG = "C05:Statistic.on_scenario_finished:"
SIG_DROPPED = SIG + "stored-failure-dropped-when-a-later-scenario-of-the-label-brings-a-new-failure"
SIG_NEVER = SIG + "failure-of-a-failing-check-never-stored"
SIG_TWICE = SIG + "failure-stored-more-than-once"
SIG_ELSEWHERE = SIG + "failure-stored-away-from-the-case-where-it-was-first-seen"
SIG_INVENTED = SIG + "store-holds-a-failure-no-check-reported"
SIG_EXIT = "C05:ExecutionContext.on_event:exit-code-0-after-error-or-failed-enabled-phase"
SIG_RENDER = "C05:display_failures:failure-of-the-history-missing-from-FAILURES-section"


def make_failure(op: str, k: int) -> Failure:
    """the k-th failure identity of operation `op`: equal under `Failure.__eq__` iff same (op, k)"""
    if k == 0:
        return Failure(operation=op, title="Custom check failed: `c0`", message=f"msg {op} #0")
    if k == 1:
        return Failure(operation=op, title="Response violates schema", message=f"msg {op} #1")
    return ServerError(operation=op, status_code=500 + k - 2, message=f"msg {op} status {500 + k - 2}")


# ---- generated histories ---------------------------------------------------------------------------------------------

def gen_history(rng, on_protocol=True):
    """Abstract CLI history: phases in order, several scenarios per label (the same operation in several phases, many
    'Stateful tests' scenarios), repeated and new failures, cases without checks, errors, disabled phases."""
    hist = [{"kind": "started"}]
    n_ops = rng.choice([1, 2, 2, 3])
    for pi in (1, 2, 3, 4):
        if rng.random() < 0.2:
            continue
        enabled = rng.random() < 0.88
        worst = None
        for _ in range(rng.choice([0, 1, 2, 2, 3, 4])):
            r = rng.random()
            if r < 0.07:
                hist.append({"kind": "error", "phase": pi, "label": rng.randrange(n_ops)})
                worst = "error"
                continue
            if r < 0.1:
                hist.append({"kind": "other"})
                continue
            label = len(OPS) if pi == 4 else rng.randrange(n_ops)
            cases = []
            for _ in range(rng.choice([0, 1, 1, 2, 2, 3, 4])):
                r = rng.random()
                if r < 0.06:
                    cases.append({"op": label if pi != 4 else rng.randrange(n_ops), "io": "none", "checks": []})
                    continue
                if r < 0.12:
                    cases.append({"op": label if pi != 4 else rng.randrange(n_ops), "io": "request", "checks": []})
                    continue
                op = label if pi != 4 else rng.randrange(n_ops)
                checks = []
                for _ in range(rng.choice([1, 1, 2, 3])):
                    if rng.random() < 0.45:
                        # a unit scenario sees failures of its own operation, a stateful one of any operation
                        fop = op if pi != 4 or rng.random() < 0.7 else rng.randrange(n_ops)
                        checks.append([fop, rng.randrange(N_FAIL)])
                    else:
                        checks.append(None)
                cases.append({"op": op, "io": "response", "checks": checks, "child": pi == 4 and bool(cases) and rng.random() < 0.6})
            failing = any(c is not None for cs in cases for c in cs["checks"])
            if failing and (on_protocol or rng.random() < 0.8):
                status = "failure"
            else:
                status = rng.choice(["success", "success", "skip", "error"] if on_protocol else
                                    ["success", "failure", "skip", "error", "interrupted"])
            if status in ("failure", "error") and worst != "error":
                worst = status
            hist.append({"kind": "scenario", "phase": pi, "label": label, "status": status, "cases": cases})
        if on_protocol:
            pst = worst or rng.choice(["success", "skip"])
        else:
            pst = rng.choice(["success", "failure", "error", "skip", "interrupted"])
        hist.append({"kind": "phase", "phase": pi, "status": pst, "enabled": enabled})
    hist.append({"kind": "finished"})
    return hist


WITNESS = [  # SV.Props.C05.overwrite_variant_loses_failure: one operation, two phases, two different failures
    {"kind": "started"},
    {"kind": "scenario", "phase": 1, "label": 0, "status": "failure",
     "cases": [{"op": 0, "io": "response", "checks": [[0, 2]]}]},
    {"kind": "phase", "phase": 1, "status": "failure", "enabled": True},
    {"kind": "scenario", "phase": 3, "label": 0, "status": "failure",
     "cases": [{"op": 0, "io": "response", "checks": [[0, 1]]}]},
    {"kind": "phase", "phase": 3, "status": "failure", "enabled": True},
    {"kind": "finished"},
]


def realise(hist):
    """Real engine events for an abstract history (fresh case ids, one response and one code sample per case)."""
    evs = []
    n_case = 0
    for h in hist:
        k = h["kind"]
        if k == "started":
            evs.append(events.EngineStarted())
        elif k == "finished":
            evs.append(events.EngineFinished(running_time=1.0))
        elif k == "other":
            evs.append(events.SuiteStarted(phase=PhaseName.FUZZING))
        elif k == "error":
            evs.append(events.NonFatalError(error=RuntimeError("boom"), phase=PhaseName[PH[h["phase"]]],
                                            label=LABELS[h["label"]], related_to_operation=True))
        elif k == "phase":
            evs.append(events.PhaseFinished(phase=Phase(name=PhaseName[PH[h["phase"]]], is_supported=True,
                                                        is_enabled=h["enabled"]), status=Status(h["status"]), payload=None))
        else:
            rec = ScenarioRecorder(label=LABELS[h["label"]])
            prev = None
            for c in h["cases"]:
                n_case += 1
                case = W.operation(label=OPS[c["op"]]).Case()
                rec.record_case(parent_id=prev if c.get("child") else None, transition=None, case=case)
                prepared = requests.Request("GET", f"http://127.0.0.1/c{n_case}").prepare()
                if c["io"] == "response":
                    rec.record_response(case_id=case.id, response=Response(
                        status_code=500, headers={}, content=f"body of case {n_case}".encode(), request=prepared, elapsed=0.1,
                        verify=False, message="E"))
                elif c["io"] == "request":
                    rec.record_request(case_id=case.id, request=prepared)
                for chk_ in c["checks"]:
                    if chk_ is None:
                        rec.record_check_success(name="chk", case_id=case.id)
                    else:
                        rec.record_check_failure(name="chk", case_id=case.id,
                                                 code_sample=f"curl -X GET http://127.0.0.1/c{n_case}",
                                                 failure=make_failure(OPS[chk_[0]], chk_[1]))
                prev = case.id
            evs.append(W.scenario_finished(rec, Status(h["status"]), phase=PhaseName[PH[h["phase"]]]))
    return evs


# ---- real events -> wire ---------------------------------------------------------------------------------------------

class Tables:
    """identities of one stream, numbered by first appearance"""

    def __init__(self):
        self.labels, self.cases, self.fails, self.samples, self.resps = [], [], [], [], []

    @staticmethod
    def _of(lst, x, same, add):
        for i, y in enumerate(lst):
            if same(y, x):
                return i
        if not add:
            return UNKNOWN
        lst.append(x)
        return len(lst) - 1

    def label(self, x, add=True):
        return self._of(self.labels, x, lambda a, b: a == b, add)

    def case(self, x, add=True):
        return self._of(self.cases, x, lambda a, b: a == b, add)

    def fail(self, x, add=True):
        # the identity of a failure, stated here and NOT read off `Failure.__eq__` (that method is code under test): same
        # class, same operation, same distinguishing datum of the class
        def ident(f):
            return (type(f).__name__, getattr(f, "operation", None),
                    getattr(f, "status_code", None) if type(f).__name__ == "ServerError" else getattr(f, "_unique_key", None))
        return self._of(self.fails, x, lambda a, b: ident(a) == ident(b), add)

    def sample(self, x, add=True):
        return self._of(self.samples, x, lambda a, b: a == b, add)

    def resp(self, x, add=True):
        """a response is identified by what it says (status, body, URL), not by the Python object"""
        if x is None:
            return None
        key = (getattr(x, "status_code", None), bytes(getattr(x, "content", b"") or b""),
               getattr(getattr(x, "request", None), "url", None))
        return self._of(self.resps, key, lambda a, b: a == b, add)


def abstract(evs):
    """wire form of a stream of real engine events + identity tables"""
    T = Tables()
    wire, enabled = [], set()
    for ev in evs:
        k = type(ev).__name__
        if k == "ScenarioFinished":
            rec = ev.recorder
            cases = []
            for cid, node in rec.cases.items():
                checks = []
                for c in rec.checks.get(cid, []):
                    if c.failure_info is None:
                        checks.append(None)
                    else:
                        checks.append([T.fail(c.failure_info.failure), T.sample(c.failure_info.code_sample)])
                inter = rec.interactions.get(cid)
                cases.append({"id": T.case(cid), "checks": checks, "resp": T.resp(inter.response) if inter is not None else None})
            wire.append({"kind": "scenario", "phase": PH.index(ev.phase.name), "status": ev.status.value,
                         "recorder": {"label": T.label(rec.label), "cases": cases}})
        elif k == "NonFatalError":
            wire.append({"kind": "error", "phase": PH.index(ev.phase.name)})
        elif k == "PhaseFinished":
            i = PH.index(ev.phase.name.name)
            if ev.phase.is_enabled:
                enabled.add(i)
            wire.append({"kind": "phase", "phase": i, "status": ev.status.value, "enabled": bool(ev.phase.is_enabled)})
        elif k == "EngineStarted":
            wire.append({"kind": "started"})
        elif k == "EngineFinished":
            wire.append({"kind": "finished"})
        else:
            wire.append({"kind": "other"})
    return wire, sorted(enabled), T


def observe_store(ctx, T):
    """what a consumer iterating `ctx.statistic.failures` reads, in the identities of the stream"""
    store = []
    for label, groups in ctx.statistic.failures.items():
        gl = []
        for key, g in groups.items():
            gl.append([T.case(key, False), {"case": T.case(g.case_id, False), "sample": T.sample(g.code_sample, False),
                                            "failures": [T.fail(f, False) for f in g.failures], "resp": T.resp(g.response, False)}])
        store.append([T.label(label, False), gl])
    return store


def canon_store(store):
    """dict order and the order of the failures inside a group are presentation"""
    return sorted([l, sorted([c, {**g, "failures": sorted(g["failures"])}] for c, g in gs)] for l, gs in store if gs)


def run_ctx(evs, T):
    """the real CLI context over the stream; after every event, which failures the store holds"""
    ctx = ExecutionContext()
    snaps = []
    for ev in evs:
        ctx.on_event(ev)
        snaps.append({T.fail(f, False) for gs in ctx.statistic.failures.values() for g in gs.values() for f in g.failures})
    return ctx, snaps


def render(ctx):
    from schemathesis.cli.commands.run.handlers.output import display_failures
    buf = io.StringIO()
    with redirect_stdout(buf):
        display_failures(ctx)
    return buf.getvalue()


def oracle(wire):
    """independent of the Lean spec: failure -> (label, case, samples of that case, response) where it is first seen"""
    first = {}
    for ev in wire:
        if ev["kind"] != "scenario":
            continue
        for c in ev["recorder"]["cases"]:
            for chk_ in c["checks"]:
                if chk_ is not None and chk_[0] not in first:
                    first[chk_[0]] = {"label": ev["recorder"]["label"], "case": c["id"], "resp": c["resp"],
                                      "samples": [k[1] for k in c["checks"] if k is not None]}
    return first


def oracle_ok(first, store, f):
    holders = [(l, c, g) for l, gs in store for c, g in gs for x in g["failures"] if x == f]
    if len(holders) != 1:
        return False
    l, c, g = holders[0]
    e = first[f]
    return l == e["label"] and c == e["case"] and g["case"] == e["case"] and g["resp"] == e["resp"] and g["sample"] in e["samples"]


def engine_chain(chk, evs, rep):
    """on the stream of a real, uninterrupted engine run: a recorded failing check => its scenario finished
    FAILURE/ERROR => its (enabled) phase finished FAILURE/ERROR - the hypotheses of
    SV.Props.C05.failure_reaches_report_and_exit"""
    if any(type(e).__name__ == "Interrupted" for e in evs):
        return
    for ev in evs:
        if type(ev).__name__ != "ScenarioFinished":
            continue
        failing = [c.name for cs in ev.recorder.checks.values() for c in cs if c.failure_info is not None]
        if not failing:
            continue
        if ev.status not in (Status.FAILURE, Status.ERROR):
            chk.violation(f"C05:run_test:failing-check-recorded-but-scenario-finished-{ev.status.value}",
                          f"scenario {ev.label!r} ({ev.phase.name}) recorded failing checks {sorted(set(failing))} and finished "
                          f"{ev.status.value}", rep)
            continue
        pf = [e for e in evs if type(e).__name__ == "PhaseFinished" and e.phase.name == ev.phase]
        if not pf or not pf[-1].phase.is_enabled or pf[-1].status not in (Status.FAILURE, Status.ERROR):
            chk.violation("C05:status-fold:failing-check-without-failed-phase",
                          f"scenario {ev.label!r} ({ev.phase.name}) recorded failing checks but its phase finished "
                          f"{pf[-1].status.value if pf else 'never'}", rep)


def run_batched(chk, gens):
    """each mechanism is a generator: it yields its driver requests once and is sent the answers; one driver start"""
    pending, reqs = [], []
    for g in gens:
        try:
            r = next(g)
        except StopIteration:
            continue
        pending.append((g, len(reqs), len(r)))
        reqs += r
    answers = chk.driver("C05").batch(reqs)
    for g, off, n in pending:
        try:
            g.send(answers[off:off + n])
        except StopIteration:
            pass


def judge_streams(chk, mechanism, items, engine=False):
    run_batched(chk, [judge_streams_g(chk, mechanism, items, engine)])


def judge_streams_g(chk, mechanism, items, engine=False):
    """items: list of (real events, replay dict). Correspondence + replay for each stream."""
    if not items:
        return
    prepared = []
    for evs, replay in items:
        wire, enabled, T = abstract(evs)
        ctx, snaps = run_ctx(evs, T)
        store = observe_store(ctx, T)
        prepared.append((evs, replay, wire, enabled, T, ctx, snaps, store))
    answers = yield ([("stat", {"events": w, "enabled": en}) for _, _, w, en, *_ in prepared] +
                     [("judge", {"events": w, "enabled": en, "store": st}) for _, _, w, en, _, _, _, st in prepared])
    models, judged = answers[:len(prepared)], answers[len(prepared):]
    for (evs, replay, wire, enabled, T, ctx, snaps, store), m, j in zip(prepared, models, judged):
        if "__err__" in m or "__err__" in j:
            raise InfraError(f"C05 driver: {m} {j}")
        if not j["ids_distinct"]:
            raise InfraError("case ids of a generated stream are not distinct")
        scen = [e for e in wire if e["kind"] == "scenario"]
        labels = [e["recorder"]["label"] for e in scen]
        n_fail = len(j["verdicts"])
        chk.case(mechanism, key=wire, nontrivial=len(scen) > 1 and n_fail > 0,
                 sample={"scenarios": len(scen), "distinct_failures": n_fail, "exit": ctx.exit_code,
                         "groups": sum(len(gs) for _, gs in store)})
        chk.feature(f"cli:scenarios-per-stream:{min(len(scen), 6)}")
        chk.feature(f"cli:label-repeated:{len(labels) != len(set(labels))}")
        chk.feature(f"cli:distinct-failures:{min(n_fail, 6)}")
        rep = {"mechanism": "cli-context", **replay, "wire": wire, "enabled": enabled, "real_store": store}
        if engine:
            engine_chain(chk, evs, rep)
        # ---- correspondence: the model run on the same events
        ms = m["stat"]
        real = {"store": canon_store(store), "total": ctx.statistic.total_cases,
                "with_failures": ctx.statistic.cases_with_failures, "without_checks": ctx.statistic.cases_without_checks,
                "exit_nonzero": ctx.exit_code != 0}
        model = {"store": canon_store(ms["store"]), "total": ms["total"], "with_failures": ms["with_failures"],
                 "without_checks": ms["without_checks"], "exit_nonzero": m["exit"] != 0}
        um = getattr(ctx.statistic, "unique_failures_map", None)
        if isinstance(um, dict) and all(isinstance(c, str) for c in um.values()):
            real["unique"] = sorted([T.fail(f, False), T.case(c, False)] for f, c in um.items())
            model["unique"] = sorted(ms["unique"])
        if real != model:
            diff = [k for k in model if real.get(k) != model[k]]
            chk.disagreement(mechanism, {"events": wire, "enabled": enabled, "differs_in": diff},
                             {k: model[k] for k in diff}, {k: real[k] for k in diff})
        # ---- replay: the specification (Lean `judge`) and the independent oracle on the real store
        first = oracle(wire)
        if sorted(first) != sorted(v["failure"] for v in j["verdicts"]):
            raise InfraError(f"Lean spec and Python oracle disagree on the failures of the history: {sorted(first)} vs {j['verdicts']}")
        bad_store = False
        for v in j["verdicts"]:
            f = v["failure"]
            ok = v["count"] == 1 and v["held"]
            if ok != oracle_ok(first, store, f):
                raise InfraError(f"Lean spec and Python oracle disagree on failure {f}: {v} / store {store}")
            if ok:
                continue
            bad_store = True
            fo = T.fails[f]
            desc = f"{type(fo).__name__}({fo.operation!r}, {fo.message!r})"
            where = f"first seen in scenario {T.labels[first[f]['label']]!r}, case #{first[f]['case']}"
            if v["count"] == 0:
                seen_at = [i for i, s in enumerate(snaps) if f in s]
                if seen_at:
                    gone = next(i for i in range(seen_at[-1] + 1, len(snaps)) if f not in snaps[i])
                    chk.violation(SIG_DROPPED, f"failure {desc} ({where}) was in ctx.statistic.failures after event "
                                  f"{seen_at[0]} and is gone after event {gone} (a finished scenario labelled "
                                  f"{T.labels[wire[gone]['recorder']['label']]!r}): it never reaches the FAILURES section "
                                  "or the failure counters", {**rep, "lost_failure": f, "dropped_at_event": gone})
                else:
                    chk.violation(SIG_NEVER, f"failure {desc} ({where}) is carried by a failing check of the history but "
                                  "ctx.statistic.failures never holds it", {**rep, "lost_failure": f})
            elif v["count"] > 1:
                chk.violation(SIG_TWICE, f"failure {desc} is held {v['count']} times by ctx.statistic.failures",
                              {**rep, "failure": f})
            else:
                chk.violation(SIG_ELSEWHERE, f"failure {desc} ({where}) is stored, but not under that label / case id / "
                              "with that case's response and code sample", {**rep, "failure": f, "expected": first[f]})
        if j["invented"]:
            bad_store = True
            chk.violation(SIG_INVENTED, f"ctx.statistic.failures holds failures {j['invented']} that no failing check of "
                          "the history carries", rep)
        if not bad_store:
            if ctx.statistic.total_cases != j["total"]:
                chk.violation("C05:Statistic:total_cases-differs-from-the-cases-of-the-history",
                              f"total_cases={ctx.statistic.total_cases}, the history has {j['total']} cases", rep)
            if ctx.statistic.cases_without_checks != j["without_checks"]:
                chk.violation("C05:Statistic:cases_without_checks-differs-from-the-history",
                              f"cases_without_checks={ctx.statistic.cases_without_checks}, the history has "
                              f"{j['without_checks']} cases without checks", rep)
            if ctx.statistic.cases_with_failures != j["group_count"]:
                chk.violation("C05:Statistic:cases_with_failures-differs-from-the-groups-in-the-store",
                              f"cases_with_failures={ctx.statistic.cases_with_failures} but the store holds "
                              f"{j['group_count']} groups", rep)
            tested = {node.value.operation.label for ev in evs if type(ev).__name__ == "ScenarioFinished"
                      for cid, node in ev.recorder.cases.items() if ev.recorder.checks.get(cid)}
            if set(ctx.statistic.tested_operations) != tested:
                chk.violation("C05:Statistic:tested_operations-differs-from-the-operations-with-checked-cases",
                              f"tested_operations={sorted(ctx.statistic.tested_operations)}, operations with a checked case: "
                              f"{sorted(tested)}", rep)
            # what the user reads: the FAILURES section
            text = render(ctx)
            for f, e in first.items():
                fo = T.fails[f]
                msg = (fo.message or "").strip().splitlines()
                need = [T.cases[e["case"]], *([msg[0]] if msg else [])]
                missing = [s for s in need if s not in text]
                if not any(T.samples[k].splitlines()[0] in text for k in e["samples"]):
                    missing.append("the code sample of the case")
                if missing:
                    chk.violation(SIG_RENDER, f"the FAILURES section rendered by display_failures does not show {missing} of "
                                  f"failure {type(fo).__name__}({fo.operation!r})", {**rep, "failure": f, "text": text[:4000]})
                    break
        # ---- exit code
        if j["exit"] != 0 and ctx.exit_code == 0:
            chk.violation(SIG_EXIT, "a NonFatalError or an enabled phase finished FAILURE/ERROR was delivered to "
                          "ExecutionContext.on_event but exit_code is 0", rep)


def detect_start(chk):
    """Lean witness `overwrite_variant_loses_failure` on the real code"""
    evs = realise(WITNESS)
    wire, enabled, T = abstract(evs)
    ctx, _ = run_ctx(evs, T)
    held = {f for _, gs in observe_store(ctx, T) for _, g in gs for f in g["failures"]}
    v = "stored" if held == {0, 1} else "empty-or-other"
    chk.variants["Statistic.on_scenario_finished:per-label-start"] = v
    return v


def history_runs(chk, n):
    run_batched(chk, [history_runs_g(chk, n)])


def history_runs_g(chk, n):
    rng = chk.rng
    detect_start(chk)
    hists = [gen_history(rng, on_protocol=rng.random() < 0.8) for _ in range(n)]
    hists.sort(key=lambda h: sum(1 for e in h if e["kind"] == "scenario"))    # a failing input, if any, is a small one
    hists.append(WITNESS)
    items = [(realise(h), {"history": h}) for h in hists]
    yield from judge_streams_g(chk, "cli-context:generated-history", items)


# ---- real engine runs: one operation failing differently in several phases -------------------------------------------

def engine_phase_runs(chk, n):
    run_batched(chk, [engine_phase_runs_g(chk, n)])


def engine_phase_runs_g(chk, n):
    """Real engine (COVERAGE + FUZZING [+ STATEFUL], continue_on_failure) against an API whose 5xx status is a function
    of the input: the phases find different failures of the same operation; the whole real stream goes through the
    real CLI context."""
    from flask import Flask, request
    from harness import engine_common as E
    rng = chk.rng
    items = []
    for _ in range(n):
        mod = rng.choice([2, 3, 5])
        n_ops = rng.choice([1, 2])
        app = Flask("verif-c05-stat")

        @app.route("/openapi.json")
        def spec():
            return E.RAW

        @app.route("/<path:p>", methods=["GET"])
        def any_(p, mod=mod):
            q = request.args.get("q")
            try:
                v = int(q)
            except (TypeError, ValueError):
                return ("x", 500)
            return ("x", 501 + abs(v) % mod)
        phases = rng.choice([[PhaseName.COVERAGE, PhaseName.FUZZING], [PhaseName.FUZZING, PhaseName.COVERAGE],
                             [PhaseName.COVERAGE, PhaseName.FUZZING]])
        workers = rng.choice([1, 2])
        seed = rng.randint(1, 10**6)
        max_failures = rng.choice([None, None, None, 2, 4])
        with E.Server(app) as srv:
            schema = E.load_schema(srv.url, n_ops)
            cfg = E.engine_config(phases=phases, workers=workers, max_examples=8, continue_on_failure=True, seed=seed,
                                  max_failures=max_failures)
            evs = E.run_engine(schema, cfg)
        items.append((evs, {"engine_run": {"status_mod": mod, "n_ops": n_ops, "phases": [p.name for p in phases],
                                           "workers": workers, "seed": seed, "max_failures": max_failures}}))
    yield from judge_streams_g(chk, "cli-context:engine-run", items, engine=True)


# ---- `_execute`: the loop around on_event and the handlers, sys.exit ---------------------------------------------------

SIG_EXEC_FAULT = "C05:_execute:handler-fault-ends-with-exit-code-0"
SIG_EXEC_EXIT = "C05:_execute:exit-code-0-after-error-or-failed-enabled-phase"
SIG_EXEC_DELIVERY = "C05:_execute:event-not-delivered-to-a-handler"


def run_execute(evs, fault):
    """the real `_execute` (console handler left out) with a probing custom handler; fault = None | (k, abort)"""
    import contextlib
    from unittest import mock
    import click
    from schemathesis.cli.commands.run import executor as X
    from schemathesis.cli.commands.run.handlers.base import EventHandler
    from schemathesis.cli.commands.run.handlers.output import OutputHandler
    from schemathesis.core.output import OutputConfig
    from schemathesis.engine.config import EngineConfig, ExecutionConfig
    from schemathesis.filters import FilterSet
    seen = {"events": [], "started": 0, "shutdown": 0, "ctx": None}

    class Probe(EventHandler):
        def start(self, ctx):
            seen["started"] += 1
            seen["ctx"] = ctx

        def handle_event(self, ctx, event):
            seen["ctx"] = ctx
            seen["events"].append(event)
            if fault is not None and len(seen["events"]) - 1 == fault[0]:
                raise (click.Abort() if fault[1] else RuntimeError("handler exploded"))

        def shutdown(self, ctx):
            seen["shutdown"] += 1

    config = X.RunConfig(location="http://127.0.0.1/openapi.json", base_url=None, filter_set=FilterSet(),
                         engine=EngineConfig(execution=ExecutionConfig(seed=1)), wait_for_schema=None, rate_limit=None,
                         output=OutputConfig(), report=None, args=[], params={})
    real_init = X.initialize_handlers

    def init_without_console(config):
        return [h for h in real_init(config) if not isinstance(h, OutputHandler)]

    out = io.StringIO()
    with mock.patch.object(X, "initialize_handlers", init_without_console), mock.patch.object(X, "CUSTOM_HANDLERS", [Probe]), \
            redirect_stdout(out), contextlib.redirect_stderr(out):
        try:
            X._execute(iter(evs), config)
            outcome = 0                                   # returning without sys.exit: the process would exit 0
        except SystemExit as e:
            outcome = 0 if e.code is None else e.code
        except BaseException as e:  # noqa: BLE001
            outcome = "raised"
            seen["exc"] = type(e).__name__
    return outcome, seen


def execute_runs(chk, n):
    run_batched(chk, [execute_runs_g(chk, n)])


def execute_runs_g(chk, n):
    """generated histories x handler faults through the real `_execute`"""
    rng = chk.rng
    prepared = []
    # a run in which nothing else goes wrong, with a handler raising at each event in turn (and once not at all): the fault in
    # event handling is then the ONLY reason for a non-zero exit code
    clean = [{"kind": "started"},
             {"kind": "scenario", "phase": 1, "label": 0, "status": "success", "cases": [{"op": 0, "io": "response", "checks": [None]}]},
             {"kind": "phase", "phase": 1, "status": "success", "enabled": True},
             {"kind": "scenario", "phase": 3, "label": 0, "status": "success", "cases": [{"op": 0, "io": "response", "checks": [None, None]}]},
             {"kind": "scenario", "phase": 3, "label": 1, "status": "success", "cases": [{"op": 1, "io": "response", "checks": [None]}]},
             {"kind": "phase", "phase": 3, "status": "success", "enabled": True},
             {"kind": "finished"}]
    n_clean = len(realise(clean))
    plan = [(clean, None)] + [(clean, [k, False]) for k in range(n_clean)] + [(clean, [k, True]) for k in (0, n_clean - 1)]
    for _ in range(n):
        plan.append((gen_history(rng, on_protocol=rng.random() < 0.8), "random"))
    for hist, fault in plan:
        evs = realise(hist)
        if fault == "random":
            r = rng.random()
            fault = None if r < 0.45 else [rng.randrange(len(evs) + 2), rng.random() < 0.3]
        wire, enabled, T = abstract(evs)
        outcome, seen = run_execute(evs, fault)
        prepared.append((hist, evs, fault, wire, enabled, T, outcome, seen))
    models = yield [("execute", {"events": w, "enabled": en, "fault": f}) for _, _, f, w, en, *_ in prepared]
    for (hist, evs, fault, wire, enabled, T, outcome, seen), m in zip(prepared, models):
        if "__err__" in m:
            raise InfraError(f"C05 driver: {m}")
        mechanism = "cli-execute:_execute"
        hit = fault is not None and fault[0] < len(evs)
        chk.case(mechanism, key=[wire, fault], nontrivial=True,
                 sample={"events": len(evs), "fault": fault, "outcome": outcome, "model": m["outcome"]})
        chk.feature(f"execute:fault:{'none' if fault is None else ('beyond-stream' if not hit else ('abort' if fault[1] else 'raise'))}")
        rep = {"mechanism": "cli-context", "history": hist, "handler_fault": fault, "outcome": outcome}
        # the property speaks of a non-zero exit: `sys.exit(n != 0)` and an escaping exception are the same outcome
        canon = lambda o: "exit-0" if o == 0 else "nonzero"   # noqa: E731
        real, model = {"outcome": canon(outcome)}, {"outcome": canon(m["outcome"])}
        if not hit and seen["ctx"] is not None:
            real["store"] = canon_store(observe_store(seen["ctx"], T))
            model["store"] = canon_store(m["stat"]["store"])
        if real != model:
            chk.disagreement(mechanism, {"events": wire, "enabled": enabled, "fault": fault}, model, real)
        # ---- replay: exit code 0 only for a clean run without a fault in event handling
        spec_exit = drv_exit(wire, enabled)
        if outcome == 0 and hit:
            chk.violation(SIG_EXEC_FAULT, f"a handler raised {'click.Abort' if fault[1] else 'RuntimeError'} while event "
                          f"{fault[0]} was delivered and `_execute` ended with exit code 0", rep)
        elif outcome == 0 and spec_exit != 0:
            chk.violation(SIG_EXEC_EXIT, "the stream holds a NonFatalError or an enabled phase finished FAILURE/ERROR and "
                          "`_execute` ended with exit code 0", rep)
        n_expected = min(len(evs), fault[0] + 1) if fault is not None else len(evs)
        got = [id(e) for e in seen["events"]]
        if len(got) < n_expected or got != [id(e) for e in evs[:len(got)]]:
            chk.violation(SIG_EXEC_DELIVERY, f"the custom handler received {len(seen['events'])} events, the stream had "
                          f"{n_expected} up to the end / the fault (or they came in another order)", rep)


def run_all(chk, behaviour_streams):
    """every mechanism of the CLI reporting layer, one driver start"""
    run_batched(chk, [judge_streams_g(chk, "cli-context:behaviour-run", behaviour_streams, engine=True),
                      history_runs_g(chk, chk.budget(120, 1500)),
                      engine_phase_runs_g(chk, chk.budget(2, 16)),
                      execute_runs_g(chk, chk.budget(50, 600))])
    fatal_runs(chk)


def fatal_runs(chk):
    """the real `execute(config)` with the real console handler: an error while loading the schema, or an exception
    escaping the engine's event stream (-> FatalError), must end the process with a non-zero exit code"""
    import contextlib
    import json
    import os
    import tempfile
    import types
    from unittest import mock
    from harness import engine_common as E
    from schemathesis.cli.commands.run import executor as X
    from schemathesis.core.output import OutputConfig
    from schemathesis.engine.config import EngineConfig, ExecutionConfig
    from schemathesis.filters import FilterSet
    rng = chk.rng

    def run(location, patch=None):
        config = X.RunConfig(location=location, base_url="http://127.0.0.1:1", filter_set=FilterSet(),
                             engine=EngineConfig(execution=ExecutionConfig(seed=1)), wait_for_schema=None, rate_limit=None,
                             output=OutputConfig(), report=None, args=[], params={})
        out = io.StringIO()
        with redirect_stdout(out), contextlib.redirect_stderr(out), (patch or contextlib.nullcontext()):
            try:
                X.execute(config)
                return 0
            except SystemExit as e:
                return 0 if e.code is None else e.code
            except BaseException as e:  # noqa: BLE001
                return f"raised {type(e).__name__}"

    with tempfile.TemporaryDirectory(prefix="c05-") as d:
        good = os.path.join(d, "schema.json")
        with open(good, "w") as fd:
            json.dump(E.RAW, fd)
        bad = os.path.join(d, "bad.json")
        with open(bad, "w") as fd:
            fd.write("{not json")
        exc = rng.choice([RuntimeError, ValueError, KeyError, TypeError, ZeroDivisionError])

        def engine_raises_at_once(*a, **k):
            raise exc("engine exploded")

        def engine_raises_after_start(*a, **k):
            def gen():
                yield events.EngineStarted()
                raise exc("engine exploded")
            return types.SimpleNamespace(execute=gen)
        cases = [("loader:missing-file", os.path.join(d, "missing.json"), None),
                 ("loader:malformed-schema", bad, None),
                 ("engine:raises-before-first-event", good, mock.patch.object(X, "from_schema", engine_raises_at_once)),
                 ("engine:raises-after-EngineStarted", good, mock.patch.object(X, "from_schema", engine_raises_after_start))]
        for name, location, patch in cases:
            outcome = run(location, patch)
            chk.case("cli-execute:fatal-error", key=[name, exc.__name__], sample={"case": name, "outcome": outcome})
            chk.feature(f"execute:fatal:{name.split(':')[0]}")
            if outcome == 0:
                chk.violation(f"C05:execute:fatal-error-{name.split(':')[0]}-ends-with-exit-code-0",
                              f"{name} ({exc.__name__}): the run could not be prepared / the engine stream broke, and the "
                              "process exit code is 0", {"mechanism": "cli-fatal", "case": name, "exc": exc.__name__})


def drv_exit(wire, enabled):
    """`exitCode` of the engine model (SV.Model.Plan), here in Python as the independent oracle of the exit rule"""
    for e in wire:
        if e["kind"] == "error" or (e["kind"] == "phase" and e["phase"] in enabled and e["status"] in ("failure", "error")):
            return 1
    return 0


def replay(chk, rep):
    import json
    if "history" in rep:
        evs = realise(rep["history"])
        wire, enabled, T = abstract(evs)
        ctx, snaps = run_ctx(evs, T)
        store = observe_store(ctx, T)
        drv = chk.driver("C05")
        m = drv.one("stat", {"events": wire, "enabled": enabled})
        j = drv.one("judge", {"events": wire, "enabled": enabled, "store": store})
        print("history:", json.dumps(rep["history"]))
        print("real store :", json.dumps(canon_store(store)))
        print("model store:", json.dumps(canon_store(m["stat"]["store"])))
        print("real exit:", ctx.exit_code, "model exit:", m["exit"])
        print("spec verdicts on the real store:", json.dumps(j["verdicts"]), "invented:", j["invented"])
        print(render(ctx))
        if "handler_fault" in rep:
            outcome, seen = run_execute(realise(rep["history"]), rep["handler_fault"])
            print("_execute with handler fault", rep["handler_fault"], "->", outcome, "events delivered:", len(seen["events"]))
    else:
        print(json.dumps(rep, indent=1, default=str)[:6000])
    return 0
