"""C06 — the HTTP request on the wire is exactly the generated test case.

Correspondence: the real `quote_all`, `prepare_path`, `prepare_url`, the style serializers of
`specs/openapi/serialization.py`, `jsonify_python_specific_types`, `_stringify_value`, `prepare_headers` and
`RequestsTransport.serialize_case` against the Lean model (lean/SV/Model/C06*.lean) on the same inputs.
Replay: what the real pipeline put on the wire (`requests.Request(**kwargs).prepare()`, WSGI environ, loopback server in
the thorough tier) is decoded by the Lean reference decoders (lean/SV/Spec/C06.lean) and by urllib, and compared with the
generated value.
"""
from __future__ import annotations

from urllib.parse import quote, quote_plus, unquote_to_bytes

from harness.core import InfraError

import copy
import itertools

from harness.gens.c06_pipeline import (AsgiRecorder, Loopback, Pipeline, Rejected, WsgiRecorder, cookie_pairs,
                                        observed_from_prepared)

import json as _json
from urllib.parse import parse_qsl, urlsplit

from requests.structures import CaseInsensitiveDict
from schemathesis.core import NOT_SET, SCHEMATHESIS_TEST_CASE_HEADER
from schemathesis.core.errors import InvalidSchema
from schemathesis.core.transport import USER_AGENT
from schemathesis.generation.hypothesis.builder import Template, _stringify_value
from schemathesis.specs.openapi.serialization import get_serializers_for_operation
from schemathesis.transport.prepare import prepare_headers, prepare_path, prepare_url
from schemathesis.transport.requests import REQUESTS_TRANSPORT
from schemathesis.transport.wsgi import WSGI_TRANSPORT
from schemathesis.specs.openapi import serialization as ser
from schemathesis.specs.openapi._hypothesis import jsonify_python_specific_types, quote_all

KF_PLUS = "C06:quote_all:space-in-path-value-sent-as-plus"

ALPHABET = ["a", "b", "Z", "0", "9", " ", "+", "%", "/", ".", "..", "~", "-", "_", "?", "#", "&", "=", ";", ",", ":", "@",
            "{", "}", "[", "]", "|", "\\", "\"", "'", "<", ">", "^", "`", "\t", "\n", "\x00", "\x7f", "é", "ß", "€", "日本",
            "😀", " ", "́", "%2F", "%2f", "%zz", "%4", "%%", "%25", "$", "!", "*", "(", ")"]


def B(s: str) -> list[int]:
    return list(s.encode("utf-8"))


def S(bs) -> str:
    return bytes(bs).decode("utf-8", "replace")


def gen_text(rng, max_len=6) -> str:
    r = rng.random()
    if r < 0.04:
        return rng.choice([".", "..", "", " ", "+", "%", "/", "...", ". .", "a b", "a+b"])
    return "".join(rng.choice(ALPHABET) for _ in range(rng.randrange(0, max_len + 1)))


def gen_bytes(rng, max_len=8) -> list[int]:
    return [rng.choice([rng.randrange(256), rng.choice(b"%+ ./aZ09~-_%%%")]) for _ in range(rng.randrange(0, max_len + 1))]


def guard(fn, *args, **kwargs):
    """call the implementation; an exception is an observation ("EXC:<type>"), never an infrastructure error"""
    try:
        return fn(*args, **kwargs)
    except Exception as e:  # noqa: BLE001
        return f"EXC:{type(e).__name__}"


def model_err(m, inp):
    if isinstance(m, dict) and "__err__" in m:
        raise InfraError(f"model error {m} on {inp}")


# ---- mechanism: urllib quoting primitives --------------------------------------------------------------------------

def corr_quote(chk, n):
    rng, drv = chk.rng, chk.driver()
    fns = {"quote": lambda s: quote(s), "quote_strict": lambda s: quote(s, safe=""), "quote_plus": lambda s: quote_plus(s)}
    texts = [gen_text(rng) for _ in range(n)] + ["".join(chr(c) for c in range(lo, lo + 32)) for lo in range(0, 256, 32)]
    reqs = [("quote", {"bs": B(t), "fn": fn}) for t in texts for fn in fns]
    outs = drv.batch(reqs)
    for (op, a), m in zip(reqs, outs):
        model_err(m, a)
        t = S(a["bs"])
        impl = B(fns[a["fn"]](t))
        chk.case("urllib.quote", key=[a["fn"], a["bs"]], nontrivial=bool(a["bs"]), sample={"fn": a["fn"], "text": t, "impl": S(impl)})
        chk.feature(f"quote:{a['fn']}")
        if impl != m:
            chk.disagreement("urllib.quote", {"fn": a["fn"], "text": t}, S(m), S(impl))
    # unquote: arbitrary byte strings, wire-like
    wires = [gen_bytes(rng) for _ in range(n)] + [B(quote(gen_text(rng))) for _ in range(n // 2)]
    outs = drv.batch([("unquote", {"bs": w}) for w in wires])
    for w, m in zip(wires, outs):
        model_err(m, w)
        impl = list(unquote_to_bytes(bytes(w)))
        chk.case("urllib.unquote_to_bytes", key=w, nontrivial=37 in w, sample={"wire": S(w), "impl": impl})
        chk.feature("unquote:strict-ok" if m["spec"] is not None else "unquote:malformed-escape")
        if impl != m["model"]:
            chk.disagreement("urllib.unquote_to_bytes", w, m["model"], impl)
        # the strict RFC decoder (specification) must agree with urllib wherever it is defined
        if m["spec"] is not None and m["spec"] != impl:
            raise InfraError(f"specification pctDecode disagrees with urllib.unquote_to_bytes on {w}: {m['spec']} vs {impl}")


def corr_utf8(chk, n):
    rng, drv = chk.rng, chk.driver()
    texts = [gen_text(rng, 5) for _ in range(n)] + ["\x7f\x80\u07ff\u0800\uffff\U00010000\U0010ffff", "\ud7ff\ue000"]
    outs = drv.batch([("utf8", {"s": t}) for t in texts])
    for t, m in zip(texts, outs):
        model_err(m, t)
        impl = list(t.encode("utf-8"))
        chk.case("str.encode(utf-8)", key=t, nontrivial=any(ord(c) > 127 for c in t), sample={"text": t, "impl": impl})
        if impl != m["bytes"]:
            chk.disagreement("str.encode(utf-8)", t, m["bytes"], impl)
        if m["back"] != t:
            raise InfraError(f"utf8Decode(utf8 s) != s for {t!r}")
    wires = [gen_bytes(rng, 5) for _ in range(n)]
    outs = drv.batch([("utf8_decode", {"bs": w}) for w in wires])
    for w, m in zip(wires, outs):
        try:
            oracle = bytes(w).decode("utf-8")
        except UnicodeDecodeError:
            oracle = None
        chk.case("utf8Decode(spec) vs bytes.decode", key=w, nontrivial=oracle is not None)
        if m != oracle:
            raise InfraError(f"specification utf8Decode disagrees with CPython on {w}: {m!r} vs {oracle!r}")


# ---- mechanism: quote_all ------------------------------------------------------------------------------------------

def detect_variant_quote_all() -> str:
    out = quote_all({"k": "a b"})["k"]
    return "asFound" if out == "a+b" else "repaired"


def pval_wire(v):
    return B(v) if isinstance(v, str) else v


def corr_quote_all(chk, n, variant):
    rng, drv = chk.rng, chk.driver()
    vals: list = ["a b", ".", "..", "...", "", " ", "+", "a+b", "%", "%20", "a/b", "é", "€ ", "{x}", True, False, None, 0, -7, 12345]
    vals += [gen_text(rng) for _ in range(n)]
    vals += [rng.choice([True, False, None, rng.randrange(-1000, 1000)]) for _ in range(max(4, n // 20))]
    outs = drv.batch([("quote_all", {"variant": variant, "val": pval_wire(v)}) for v in vals])
    impls = [guard(lambda v=v: quote_all({"k": v})["k"]) for v in vals]
    decode_segments(chk, [B(i) for v, i in zip(vals, impls) if isinstance(v, str) and isinstance(i, str)])
    for v, m, impl in zip(vals, outs, impls):
        model_err(m, v)
        if isinstance(v, str) and not isinstance(impl, str) or (isinstance(impl, str) and impl.startswith("EXC:") and not isinstance(v, str)):
            chk.disagreement("quote_all", {"value": v, "variant": variant}, m["quoted"], repr(impl))
            chk.violation("C06:quote_all:raised-or-changed-type", f"quote_all({v!r}) gave {impl!r}", {"mechanism": "quote_all", "value": v})
            continue
        impl_w = pval_wire(impl)
        chk.case("quote_all", key=pval_wire(v), nontrivial=isinstance(v, str) and v != "", sample={"value": v, "impl": impl})
        chk.feature("quote_all:" + ("str" if isinstance(v, str) else type(v).__name__))
        if isinstance(v, str):
            for ch, name in ((" ", "space"), ("%", "percent"), ("+", "plus"), ("/", "slash")):
                if ch in v:
                    chk.feature(f"quote_all:has-{name}")
            if v in (".", ".."):
                chk.feature("quote_all:dot-segment")
            if any(ord(c) > 127 for c in v):
                chk.feature("quote_all:non-ascii")
        if impl_w != m["quoted"] or type(impl) is not type(v if not isinstance(v, str) else ""):
            chk.disagreement("quote_all", {"value": v, "variant": variant}, m["quoted"], impl_w)
        # replay: a conforming server decodes the segment the real code produced
        if isinstance(v, str):
            wire = B(impl)
            dec = _seg_cache[tuple(wire)]
            oracle = list(unquote_to_bytes(bytes(wire)))
            if dec is not None and dec != oracle:
                raise InfraError(f"decodeSegment vs urllib on {wire}: {dec} vs {oracle}")
            if dec != B(v):
                if dec is not None and " " in v and S(dec) == v.replace(" ", "+"):
                    sig = KF_PLUS
                else:
                    sig = "C06:quote_all:path-value-not-recovered-from-segment"
                chk.violation(sig, f"path value {v!r} is written as {impl!r}, which a server decodes as "
                              f"{S(dec) if dec is not None else 'an invalid segment'!r}",
                              {"mechanism": "quote_all", "value": v, "wire": impl})


_seg_cache: dict = {}


def decode_segments(chk, wires):
    """batch version: fills the cache"""
    todo = [list(k) for k in {tuple(w) for w in wires} if k not in _seg_cache]
    outs = chk.driver().batch([("decode_segment", {"bs": w}) for w in todo])
    for w, o in zip(todo, outs):
        _seg_cache[tuple(w)] = o


# ---- values / containers of the text layer ------------------------------------------------------------------------

TEXT_ITEMS = ["a", "b", "ab", "x y", "", "1", "0", "a,b", "a.b", "a;b", "a=b", "a|b", "k=v,w", ".", ";", "é", "€,", "日本",
              "true", "None", "%", "+", "a&b", "[", "]", "a\tb", "😀"]
NAMES = ["p", "q", "id", "color", "a b", "x[y]", "é", "p.q", "n=1", "X-H"]
LOCS = ["path", "query", "header", "cookie"]
STYLES = [None, "simple", "label", "matrix", "form", "spaceDelimited", "pipeDelimited", "deepObject", "weird"]
EXPLODES = [None, False, True]
TYPES = ["string", "array", "object"]


def gen_prim(rng):
    r = rng.random()
    if r < 0.55:
        return rng.choice(TEXT_ITEMS)
    if r < 0.75:
        return rng.choice([0, 1, -1, 7, 42, -305, 10 ** 12])
    if r < 0.9:
        return rng.choice([True, False])
    return None


def gen_val(rng, ty=None):
    ty = ty or rng.choice(TYPES)
    if ty == "array":
        return [gen_prim(rng) for _ in range(rng.choice([0, 1, 1, 2, 2, 3, 4]))]
    if ty == "object":
        return {rng.choice(TEXT_ITEMS[:12] + ["k", "r", "g"]): gen_prim(rng) for _ in range(rng.choice([0, 1, 2, 2, 3]))}
    return gen_prim(rng)


def enc_val(v):
    if isinstance(v, (list, tuple)):
        return {"arr": list(v)}
    if isinstance(v, dict):
        return {"obj": [[k, x] for k, x in v.items()]}
    return v


def modelable(v) -> bool:
    """value shapes of the model: primitives, lists / dicts of primitives (no floats, no nesting)"""
    prim = lambda x: x is None or isinstance(x, (str, bool, int))  # noqa: E731
    if isinstance(v, list):
        return all(prim(x) for x in v)
    if isinstance(v, dict):
        return all(isinstance(k, str) and prim(x) for k, x in v.items())
    return prim(v)


def enc_container(c: dict):
    return [[k, enc_val(v)] for k, v in c.items()]


def canon_container(c):
    """what is compared: the ordered (key, value) list with exact Python types"""
    return [[k, enc_val(v)] for k, v in c.items()]


def typed(x):
    """JSON loses bool vs int only through ==; make the comparison type exact"""
    if isinstance(x, bool):
        return ("b", x)
    if isinstance(x, int):
        return ("i", x)
    if isinstance(x, list):
        return [typed(i) for i in x]
    if isinstance(x, dict):
        return {k: typed(v) for k, v in x.items()}
    return x


def raw_def(name, loc, ty, style, explode, content=None):
    d = {"name": name, "in": loc}
    if content is not None:
        d["content"] = {content: {"schema": {"type": ty}}}
        return d
    d["schema"] = {"type": ty}
    if style is not None:
        d["style"] = style
    if explode is not None:
        d["explode"] = explode
    return d


def wire_def(d):
    out = {"name": d["name"], "loc": d["in"]}
    if "content" in d:
        out["content"] = next(iter(d["content"])) == "application/json"
        out["ty"] = None
        return out
    out.update(ty=d["schema"].get("type"), style=d.get("style"), explode=d.get("explode"))
    return out


def impl_serialize(fn, defs, container):
    c = copy.deepcopy(container)
    try:
        f = fn(defs)
        out = c if f is None else f(c)
    except Exception as e:  # noqa: BLE001
        return f"EXC:{type(e).__name__}"
    return canon_container(out)


def corr_serialize3(chk, n, vt, vm, vs):
    rng, drv = chk.rng, chk.driver()
    cases = []
    # exhaustive: every cell of the table x a value of each shape
    vals = ["ab", 5, True, None, "", 0, ["x", "y"], [], [""], [1, True, None], {"r": "1", "g": "2"}, {}, {"k": True}, {"p": "own", "q": "1"}]
    for loc, style, explode, ty in itertools.product(LOCS, STYLES, EXPLODES, TYPES):
        for v in vals:
            cases.append(([raw_def("p", loc, ty, style, explode)], {"p": copy.deepcopy(v)}, "exhaustive"))
    for _ in range(n):
        k = rng.choice([1, 1, 2, 3])
        loc = rng.choice(LOCS)
        defs = []
        for _ in range(k):
            name = rng.choice(NAMES)
            ty = rng.choice(TYPES)
            content = rng.choice([None] * 12 + ["application/json", "text/plain"])
            defs.append(raw_def(name, loc, ty, rng.choice(STYLES), rng.choice(EXPLODES), content))
        container = {}
        for d in defs:
            if rng.random() < 0.9:
                ty = d.get("schema", {}).get("type", "string")
                container[d["name"]] = gen_val(rng, ty if rng.random() < 0.85 else None)
        if rng.random() < 0.2:
            container[rng.choice(NAMES)] = gen_prim(rng)
        cases.append((defs, container, "random"))
    reqs = [("serialize3", {"vt": vt, "vm": vm, "vs": vs, "defs": [wire_def(d) for d in defs], "container": enc_container(c)})
            for defs, c, _ in cases]
    outs = drv.batch(reqs)
    for (defs, c, kind), m in zip(cases, outs):
        model_err(m, (defs, c))
        impl = impl_serialize(ser.serialize_openapi3_parameters, defs, c)
        key = [[wire_def(d) for d in defs], enc_container(c)]
        chk.case("serialize_openapi3_parameters", key=key, nontrivial=m is not None and bool(c),
                 sample={"defs": defs, "container": c, "impl": impl})
        chk.feature(f"serialize3:{kind}")
        for d in defs:
            chk.feature(f"serialize3:loc={d['in']}")
        if m is None:
            chk.feature("serialize3:outside-model(repr/json)")
            continue
        if typed(impl) != typed(m):
            chk.disagreement("serialize_openapi3_parameters", {"defs": defs, "container": c, "vt": vt, "vm": vm, "vs": vs}, m, impl)
        # replay: `form` + `explode: true` spreads an object over entries named after its members - every member arrives,
        # also one that has the parameter's own name
        if len(defs) == 1 and isinstance(impl, list):
            d0 = defs[0]
            v0 = c.get(d0["name"])
            if d0["in"] == "query" and "content" not in d0 and d0.get("schema", {}).get("type") == "object" \
                    and d0.get("style") in (None, "form") and d0.get("explode") is True and isinstance(v0, dict) and v0 \
                    and all(isinstance(x, (str, int)) and not isinstance(x, bool) for x in v0.values()):
                got = {k for k, _ in impl}
                lost = [k for k in v0 if k not in got]
                if lost:
                    chk.violation("C06:extracted_object:member-of-an-exploded-form-object-missing-from-the-query",
                                  f"query parameter {d0['name']!r} = {v0!r} (form, explode): members {lost} are not among the entries "
                                  f"{sorted(got)}", {"mechanism": "serialize3", "defs": defs, "container": c, "impl": impl})


def corr_serialize2(chk, n, vs):
    rng, drv = chk.rng, chk.driver()
    cases = []
    for loc, fmt, ty in itertools.product(["query", "header", "path", "formData"], [None, "csv", "ssv", "tsv", "pipes", "multi", "x"],
                                          ["string", "array", "object", None]):
        for v in ["ab", 5, True, ["x", "y"], [], [1, None], ""]:
            d = {"name": "p", "in": loc}
            if ty:
                d["type"] = ty
            if fmt:
                d["collectionFormat"] = fmt
            cases.append(([d], {"p": copy.deepcopy(v)}))
    for _ in range(n):
        defs = []
        for _ in range(rng.choice([1, 2, 3])):
            d = {"name": rng.choice(NAMES), "in": rng.choice(["query", "header", "path", "formData"])}
            if rng.random() < 0.9:
                d["type"] = rng.choice(["string", "array", "integer", "object"])
            if rng.random() < 0.7:
                d["collectionFormat"] = rng.choice(["csv", "ssv", "tsv", "pipes", "multi"])
            defs.append(d)
        c = {d["name"]: gen_val(rng, "array" if d.get("type") == "array" and rng.random() < 0.85 else "string") for d in defs
             if rng.random() < 0.9}
        cases.append((defs, c))

    def wd(d):
        return {"name": d["name"], "isHeader": d["in"] == "header", "collection": d.get("type") in ("array", "object"),
                "fmt": d.get("collectionFormat", "csv")}
    outs = drv.batch([("serialize2", {"vs": vs, "defs": [wd(d) for d in defs], "container": enc_container(c)}) for defs, c in cases])
    for (defs, c), m in zip(cases, outs):
        model_err(m, (defs, c))
        impl = impl_serialize(ser.serialize_swagger2_parameters, defs, c)
        chk.case("serialize_swagger2_parameters", key=[defs, enc_container(c)], nontrivial=m is not None and bool(c),
                 sample={"defs": defs, "container": c, "impl": impl})
        for d in defs:
            chk.feature(f"serialize2:fmt={d.get('collectionFormat')}")
        if m is None:
            chk.feature("serialize2:outside-model(repr)")
            continue
        if typed(impl) != typed(m):
            chk.disagreement("serialize_swagger2_parameters", {"defs": defs, "container": c}, m, impl)


def detect_variant_jsonify() -> str:
    out = jsonify_python_specific_types({"k": [True, None]})["k"]
    return "repaired" if out == ["true", "null"] else "asFound"


def corr_jsonify_stringify(chk, n, vj):
    rng, drv = chk.rng, chk.driver()
    conts = [{"a": True, "b": None, "c": [True, None, 1], "d": {"x": False, "y": None, "z": "s"}, "e": 0, "f": "True"}]
    conts += [{rng.choice(NAMES): gen_val(rng) for _ in range(rng.choice([0, 1, 2, 3]))} for _ in range(n)]
    outs = drv.batch([("jsonify", {"v": vj, "container": enc_container(c)}) for c in conts])
    for c, m in zip(conts, outs):
        model_err(m, c)
        impl = guard(lambda c=c: canon_container(jsonify_python_specific_types(copy.deepcopy(c))))
        chk.case("jsonify_python_specific_types", key=enc_container(c), nontrivial=bool(c), sample={"container": c, "impl": impl})
        if typed(impl) != typed(m):
            chk.disagreement("jsonify_python_specific_types", c, m, impl)
    reqs = [("stringify", {"isQuery": q, "container": enc_container(c)}) for c in conts for q in (True, False)]
    outs = drv.batch(reqs)
    for (op, a), m in zip(reqs, outs):
        model_err(m, a)
        c = {k: (v["arr"] if isinstance(v, dict) and "arr" in v else dict(v["obj"]) if isinstance(v, dict) else v) for k, v in a["container"]}
        impl = guard(lambda c=c, a=a: canon_container(_stringify_value(copy.deepcopy(c), "query" if a["isQuery"] else "headers")))
        chk.case("_stringify_value", key=[a["isQuery"], a["container"]], nontrivial=bool(c), sample={"container": c, "impl": impl})
        if typed(impl) != typed(m):
            chk.disagreement("_stringify_value", {"container": c, "isQuery": a["isQuery"]}, m, impl)


def detect_variant_defaults() -> str:
    """absent style / explode must be read as their OpenAPI defaults (witnesses: path array, header object)"""
    g = ser.serialize_openapi3_parameters([raw_def("p", "path", "array", None, None)])
    b = g({"p": ["x", "y"]})["p"] if g is not None else ["x", "y"]
    h = ser.serialize_openapi3_parameters([raw_def("p", "header", "object", None, None)])
    c = h({"p": {"r": "1"}})["p"] if h is not None else None
    return "repaired" if (b == "x,y" and c == "r,1") else "asFound"


def detect_variant_matrix() -> str:
    """matrix, explode=false must carry `name=`"""
    f = ser.serialize_openapi3_parameters([raw_def("p", "path", "array", "matrix", False)])
    return "repaired" if f({"p": ["x", "y"]})["p"] == ";p=x,y" else "asFound"


def detect_variant_itemstr() -> str:
    f = ser.serialize_openapi3_parameters([raw_def("p", "query", "array", "form", False)])
    return "repaired" if f({"p": [True, None]})["p"] == "true,null" else "asFound"


# ---- end to end: real post-maps -> Case -> serialize_case -> requests.prepare -> reference decoders ---------------------

LEGAL_STYLES = {"path": [None, "simple", "label", "matrix"], "query": [None, "form", "spaceDelimited", "pipeDelimited", "deepObject"],
                "header": [None, "simple"], "cookie": [None, "form"]}
E2E_VALUES = {
    "string": ["ab", "a b", "a,b", "é€", 5, 0, True, False, None, "", ".", "..", "a.b", "x;y=z", "a+b", "100%", "a&b=c", "😀"],
    "array": [["x", "y"], ["a b", "c"], [1, 2], [True, None], [], [""], ["a,b", "c"], ["a.b"], ["x;y"], ["a|b", "c d"], ["é", "€"],
              ["only"], [0], ["a=b"]],
    "object": [{"r": "1", "g": "2"}, {"k": "a b"}, {"k": True}, {}, {"a,b": "c"}, {"k": "v=w"}, {"k=": "v"}, {"a.b": "c;d"},
               {"é": "€"}, {"k": 7, "n": None}],
}
KF = {
    "path-default-style": "C06:_serialize_path_openapi3:absent-style-array-or-object-sent-as-python-repr",
    "absent-explode": "C06:_serialize_openapi3:absent-explode-not-read-as-its-default",
    "matrix-name": "C06:matrix_array/matrix_object:explode-false-omits-parameter-name",
    "cookie-dropped": "C06:_serialize_cookie_openapi3:explode-true-array-or-object-dropped",
    "delimiter": "C06:style-join:delimiter-inside-item-or-key-not-escaped",
    "python-repr": "C06:str(item):boolean-or-null-sent-as-python-repr",
    "jsonify-list": "C06:jsonify_python_specific_types:boolean-or-null-inside-list-not-rewritten",
    "empty": "C06:style-join:empty-array-or-object-sent-as-empty-string",
    "label-falsy": "C06:label_primitive:falsy-value-sent-as-empty-string",
}


def has_bool_or_null(v) -> bool:
    items = v if isinstance(v, list) else list(v.values()) if isinstance(v, dict) else [v]
    return any(x is None or isinstance(x, bool) for x in items)


def spell_py(x) -> str:
    return "null" if x is None else ("true" if x else "false") if isinstance(x, bool) else str(x)


def delimiter_reason(shape: str | None, name: str, v) -> str | None:
    """mirror of Spec `Decodable` used only to *name* the reason of an already observed loss"""
    if shape is None:
        return None
    kind, _, d = shape.partition(":")
    delim = chr(int(d)) if d else {"pairs": ",", "labelPairs": ",", "labelKvs": ".", "matrixExploded": ";", "matrixPairs": ",",
                                    "matrixKvs": ";", "matrixList": ","}.get(kind)
    if isinstance(v, list):
        if not v or [spell_py(x) for x in v] == [""]:
            return "empty"
        if delim and any(delim in spell_py(x) for x in v):
            return "delimiter"
        if kind == "matrixExploded" and ";" in name:
            return "delimiter"
    elif isinstance(v, dict):
        if not v:
            return "empty"
        kv = kind in ("kvs", "labelKvs", "matrixKvs")
        for k, x in v.items():
            if delim and (delim in k or delim in spell_py(x)):
                return "delimiter"
            if kv and "=" in k:
                return "delimiter"
    else:
        if kind == "labelPlain" and v is None:
            return "label-falsy"
        if kind == "matrixPlain" and v is None:
            return "label-falsy"
    return None


def known_bad_reason(cell) -> str:
    if cell["loc"] == "path" and cell["style"] is None:
        return "path-default-style"
    if cell["explode"] is None and not (cell["loc"] == "path" and cell["style"] == "matrix"):
        return "absent-explode"
    return "matrix-name"


def dval_of_py(v):
    if isinstance(v, list):
        return {"arr": [spell_py(x) for x in v]}
    if isinstance(v, dict):
        return {"obj": [[k, spell_py(x)] for k, x in v.items()]}
    return spell_py(v)


def e2e_styles(chk, variants, n_random, front="strategy"):
    rng = chk.rng
    vq, vt, vm, vs, vj = variants
    drv = chk.driver()
    base = "http://127.0.0.1:8080/api"
    cases = []  # (cell, name, value, template, pipeline)
    pipes: dict = {}

    def pipe_for(loc, style, explode, ty, name):
        key = (loc, style, explode, ty, name)
        if key not in pipes:
            template = f"/u/{{{name}}}/x" if loc == "path" else "/u"
            d = raw_def(name, loc, ty, style, explode)
            if loc == "path":
                d["required"] = True
            pipes[key] = Pipeline([d], template, base)
        return pipes[key]

    for loc in LOCS:
        for style, explode, ty in itertools.product(LEGAL_STYLES[loc], EXPLODES, TYPES):
            for v in E2E_VALUES[ty]:
                cases.append(({"loc": loc, "style": style, "explode": explode, "ty": ty}, "p", v))
    simple_names = ["p", "id", "color", "X-H"]
    for _ in range(n_random):
        loc = rng.choice(LOCS)
        ty = rng.choice(TYPES)
        cell = {"loc": loc, "style": rng.choice(LEGAL_STYLES[loc]), "explode": rng.choice(EXPLODES), "ty": ty}
        cases.append((cell, rng.choice(simple_names), gen_val(rng, ty)))

    # phase A: the real pipeline
    observed = []
    for cell, name, v in cases:
        pl = pipe_for(cell["loc"], cell["style"], cell["explode"], cell["ty"], name)
        try:
            if front == "strategy":
                case = pl.case({cell["loc"]: {name: copy.deepcopy(v)}})
            else:   # coverage phase: Template._serialize builds the Case arguments
                cname = {"path": "path_parameters", "query": "query", "header": "headers", "cookie": "cookies"}[cell["loc"]]
                if not hasattr(pl, "serializers"):
                    pl.serializers = get_serializers_for_operation(pl.operation)
                kwargs = Template(pl.serializers)._serialize({cname: {name: copy.deepcopy(v)}})
                if cell["loc"] == "path" and kwargs[cname].get(name) in ("", None) and v in ("", None, [], {}):
                    raise Rejected("empty path value")   # the generators of the coverage phase never emit it
                case = pl.operation.Case(**kwargs)
            prep = pl.prepared(case)
            observed.append(observed_from_prepared(prep, base, pl.template))
        except Rejected:
            observed.append("REJECTED")
        except Exception as e:  # noqa: BLE001
            observed.append(f"EXC:{type(e).__name__}")
    # phase B: path segments through the Lean segment decoder
    seg_wires = []
    for (cell, name, v), obs in zip(cases, observed):
        if isinstance(obs, dict) and cell["loc"] == "path" and obs["segments"] is not None:
            seg_wires.append(B(obs["segments"][name]))
    decode_segments(chk, seg_wires)
    # observed text of the parameter
    texts = []
    for (cell, name, v), obs in zip(cases, observed):
        t = None
        if isinstance(obs, dict):
            loc = cell["loc"]
            if loc == "path":
                if obs["segments"] is not None:
                    dec = _seg_cache[tuple(B(obs["segments"][name]))]
                    t = None if dec is None else [S(dec)]
                    if dec is not None and list(unquote_to_bytes(obs["segments"][name])) != dec:
                        raise InfraError("decodeSegment vs urllib")
            elif loc == "query":
                t = [val for k, val in obs["query"] if k == name]
            elif loc == "header":
                t = [obs["headers"][name]] if name in obs["headers"] else []
            else:
                t = [val for k, val in obs["cookies"] if k == name]
        texts.append(t)
    # phase C: model + specification
    reqs = [("cell", {"vt": vt, "vm": vm, "vs": vs, "cell": cell, "name": name, "val": enc_val(v)}) for cell, name, v in cases]
    models = drv.batch(reqs)
    dec_reqs, dec_idx = [], []
    for i, ((cell, name, v), t) in enumerate(zip(cases, texts)):
        if t is not None and len(t) == 1:
            dec_reqs.append(("decode_cell", {"cell": cell, "name": name, "w": t[0]}))
            dec_idx.append(i)
    dec_out = dict(zip(dec_idx, drv.batch(dec_reqs)))
    # phase D: compare and judge
    for i, ((cell, name, v), obs, t, m) in enumerate(zip(cases, observed, texts, models)):
        model_err(m, (cell, name, v))
        loc = cell["loc"]
        tag = f"{loc}/{cell['style']}/{cell['explode']}/{cell['ty']}"
        mech = "pipeline:requests" if front == "strategy" else "pipeline:coverage-template"
        if obs == "REJECTED":
            chk.case(mech, key=[cell, name, enc_val(v)], nontrivial=False)
            chk.feature("e2e:rejected-by-is_valid-filter")
            # the filter sits behind the serializer: a value whose text (by the model) is a legal, non-empty path segment
            # can only be filtered out because the real serializer produced another text - the value can never be sent
            w = m["wire"]
            if front == "strategy" and loc == "path" and isinstance(w, str) and m["shape_ok"] and m["single"] \
                    and w not in ("", "/") and not any(ch in w for ch in "/{}") and not any(0xD800 <= ord(ch) <= 0xDFFF for ch in w):
                chk.violation(f"C06:pipeline:{tag}:value-filtered-out-although-its-text-is-a-legal-path-segment",
                              f"{tag}: parameter {name}={v!r} is written {w!r} by the declared style, but the generated case is "
                              f"rejected by is_valid_path: the serializer produced an empty or unusable text for it",
                              {"mechanism": "e2e", "cell": cell, "name": name, "value": v, "model_wire": w})
            continue
        chk.case(mech, key=[cell, name, enc_val(v)], nontrivial=True,
                 sample={"cell": cell, "name": name, "value": v, "observed": t, "model_wire": m["wire"]})
        chk.feature(f"e2e:loc={loc}")
        chk.feature(f"e2e:style={cell['style']}")
        chk.feature(f"e2e:type={cell['ty']}")
        if isinstance(obs, str) and front != "strategy" and obs in ("EXC:InvalidHeader", "EXC:UnicodeEncodeError"):
            chk.feature(f"e2e:template:{obs}(no is_valid filter in this phase; not judged)")
            continue
        if isinstance(obs, str):
            chk.feature(f"e2e:{obs}")
            chk.violation(f"C06:pipeline:{tag}:{obs}", f"the real pipeline raised {obs} for a generated value",
                          {"mechanism": "e2e", "cell": cell, "name": name, "value": v})
            continue
        if not m["shape_ok"]:
            chk.feature("e2e:value-of-another-type(not judged)")
            continue
        replay = {"mechanism": "e2e", "cell": cell, "name": name, "value": v, "observed": t,
                  "url": obs["raw_path"] + ("?" + obs["raw_query"] if obs["raw_query"] else "")}
        expected = m["coerce"]
        # -- correspondence: the model's text is what the wire carries (after percent-decoding)
        if m["wire"] is not None and front == "strategy":
            chk.case("pipeline:cellWire", key=[cell, name, enc_val(v)], nontrivial=True)
            mw = m["wire"]
            if loc == "path" and vq == "asFound":
                mw = mw.replace(" ", "+")
            path_filtered_empty = loc == "path" and m["wire"] == ""
            if not path_filtered_empty and t != [mw]:
                chk.disagreement("pipeline:cellWire", {"cell": cell, "name": name, "value": v}, [mw], t)
        # -- replay: decode what was observed with the reference decoder of the declared style
        if m["single"]:
            got = dec_out[i]["decoded"] if i in dec_out else None
            if got == expected:
                chk.feature("e2e:single-string:recovered")
                continue
            if loc == "path" and vq == "asFound" and isinstance(t, list) and len(t) == 1 and " " in (m["wire"] or ""):
                sig, why = KF_PLUS, "space sent as '+' in the path"
            elif m["known_bad"]:
                r = "matrix-name" if (m["bad_matrix"] and vm == "asFound" and not (m["bad_defaults"] and vt == "asFound")) \
                    else known_bad_reason(cell)
                sig, why = KF[r], r
            elif has_bool_or_null(v) and vs == "asFound":
                sig, why = KF["python-repr"], "python repr of a boolean / null"
            else:
                r = delimiter_reason(m["shape"], name, v)
                if r is not None:
                    sig, why = KF[r], r
                else:
                    sig, why = f"C06:e2e:{loc}/{m['eff_style'].rsplit('.', 1)[-1]}/{cell['ty']}:value-not-recovered", "unexplained"
            # a known finding must also be *explained by the model*: the model predicts exactly the observed text
            explained = front != "strategy" or (
                m["wire"] is not None and (t == [m["wire"]] or (loc == "path" and t == [m["wire"].replace(" ", "+")])))
            if sig in KF.values() and m["wire"] is not None and not explained:
                sig = f"C06:e2e:{loc}/{m['eff_style'].rsplit('.', 1)[-1]}/{cell['ty']}:value-not-recovered"
            chk.feature(f"e2e:lost:{why}")
            chk.violation(sig, f"{tag}: parameter {name}={v!r} is sent as {t!r}; the {cell['style'] or 'default'} decoder reads "
                          f"{got!r}, expected {expected!r}", replay)
        else:
            judge_spread(chk, cell, name, v, obs, t, m, vj, vs, tag, replay)


def e2e_swagger2(chk, variants, n_random):
    """Swagger 2.0 `collectionFormat`: csv / ssv / tsv / pipes are one string split on the delimiter, multi is repeated"""
    rng, drv = chk.rng, chk.driver()
    vq, vt, vm, vs, vj = variants
    base = "http://127.0.0.1:8080/api"
    delim = {"csv": ",", "ssv": " ", "tsv": "\t", "pipes": "|", None: ","}
    cases, pipes = [], {}
    arrays = [["x", "y"], ["a b", "c"], [1, 2], [True, None], [], [""], ["a,b", "c"], ["a|b"], ["t\tu"], ["é"]]
    for loc, fmt in itertools.product(["query", "header", "path"], [None, "csv", "ssv", "tsv", "pipes", "multi"]):
        if fmt == "multi" and loc != "query":
            continue
        for v in arrays:
            cases.append((loc, fmt, v))
    for _ in range(n_random):
        loc = rng.choice(["query", "header", "path"])
        cases.append((loc, rng.choice([None, "csv", "ssv", "tsv", "pipes"] + (["multi"] if loc == "query" else [])), gen_val(rng, "array")))
    observed = []
    for loc, fmt, v in cases:
        if (loc, fmt) not in pipes:
            d = {"name": "p", "in": loc, "type": "array", "items": {"type": "string"}}
            if fmt:
                d["collectionFormat"] = fmt
            if loc == "path":
                d["required"] = True
            pipes[(loc, fmt)] = Pipeline([d], "/u/{p}/x" if loc == "path" else "/u", base, swagger2=True)
        pl = pipes[(loc, fmt)]
        try:
            case = pl.case({loc: {"p": copy.deepcopy(v)}})
            observed.append(observed_from_prepared(pl.prepared(case), base, pl.template))
        except Rejected:
            observed.append("REJECTED")
        except Exception as e:  # noqa: BLE001
            observed.append(f"EXC:{type(e).__name__}")
    texts = []
    for (loc, fmt, v), obs in zip(cases, observed):
        t = None
        if isinstance(obs, dict):
            if loc == "path" and obs["segments"] is not None:
                t = [unquote_to_bytes(obs["segments"]["p"]).decode("utf-8", "replace")]
            elif loc == "query":
                t = [val for k, val in obs["query"] if k == "p"]
            elif loc == "header":
                t = [obs["headers"]["p"]] if "p" in obs["headers"] else []
        texts.append(t)
    reqs, idx = [], []
    for i, ((loc, fmt, v), t) in enumerate(zip(cases, texts)):
        if fmt != "multi" and t is not None and len(t) == 1:
            reqs.append(("decode_list", {"d": ord(delim[fmt]), "w": t[0]}))
            idx.append(i)
    decs = dict(zip(idx, drv.batch(reqs)))
    for i, ((loc, fmt, v), obs, t) in enumerate(zip(cases, observed, texts)):
        tag = f"swagger2/{loc}/{fmt}"
        if obs == "REJECTED":
            chk.case("pipeline:swagger2", key=[loc, fmt, v], nontrivial=False)
            continue
        chk.case("pipeline:swagger2", key=[loc, fmt, v], nontrivial=True, sample={"in": loc, "collectionFormat": fmt, "value": v, "observed": t})
        chk.feature(f"swagger2:fmt={fmt}")
        replay = {"mechanism": "swagger2", "loc": loc, "fmt": fmt, "value": v, "observed": t}
        if isinstance(obs, str):
            chk.violation(f"C06:pipeline:{tag}:{obs}", f"the real pipeline raised {obs}", replay)
            continue
        want = [spell_py(x) for x in v]
        got = t if fmt == "multi" else (decs[i]["arr"] if i in decs else None)
        if got == want:
            chk.feature("swagger2:recovered")
            continue
        if loc == "path" and vq == "asFound" and any(" " in spell_py(x) for x in v) and got == [w.replace(" ", "+") for w in want]:
            sig = KF_PLUS
        elif fmt == "ssv" and loc == "path" and vq == "asFound" and got is not None and "+".join(want) == "".join(t or []):
            sig = KF_PLUS
        elif has_bool_or_null(v) and (vs == "asFound" if fmt != "multi" else vj == "asFound"):
            sig = KF["python-repr"] if fmt != "multi" else KF["jsonify-list"]
        elif not v or want == [""]:
            sig = KF["empty"] if fmt != "multi" or want == [""] else f"C06:e2e:{tag}:value-not-recovered"
            if fmt == "multi" and not v:
                continue   # no entry at all = empty list
        elif any(delim.get(fmt, ",") in w for w in want) and fmt != "multi":
            sig = KF["delimiter"]
        else:
            sig = f"C06:e2e:{tag}:value-not-recovered"
        chk.violation(sig, f"{tag}: p={v!r} is sent as {t!r}, decoded {got!r}, expected {want!r}", replay)


def judge_spread(chk, cell, name, v, obs, t, m, vj, vs, tag, replay):
    """cells whose value travels as several entries (exploded form arrays / objects, deepObject, exploded cookies)"""
    loc, ty = cell["loc"], cell["ty"]
    eff_style = m["eff_style"].rsplit(".", 1)[-1]
    if loc == "query" and eff_style == "form" and ty == "array":
        want = [spell_py(x) for x in v]
        if t == want:
            chk.feature("e2e:form-exploded-array:recovered")
        elif has_bool_or_null(v) and vj == "asFound":
            chk.violation(KF["jsonify-list"], f"{tag}: {name}={v!r} is sent as {t!r}, expected entries {want!r}", replay)
        else:
            chk.violation(f"C06:e2e:{tag}:exploded-array-not-recovered", f"{name}={v!r} sent as {t!r}, expected {want!r}", replay)
    elif loc == "query" and eff_style == "form" and ty == "object":
        want = [(k, spell_py(x)) for k, x in v.items()]
        got = [(k, x) for k, x in obs["query"]]
        if (got == want and v) or (not v and got == [(name, "")]):
            chk.feature("e2e:form-exploded-object:recovered")
        elif cell["explode"] is None:
            chk.violation(KF["absent-explode"], f"{tag}: {name}={v!r} is sent as {got!r}, expected {want!r}", replay)
        else:
            chk.violation(f"C06:e2e:{tag}:exploded-object-not-recovered", f"{name}={v!r} sent as {got!r}, expected {want!r}", replay)
    elif loc == "query" and eff_style == "deepObject" and ty == "object":
        want = [(f"{name}[{k}]", spell_py(x)) for k, x in v.items()]
        got = [(k, x) for k, x in obs["query"]]
        if got == want and v or (not v and got == [(name, "")]):
            chk.feature("e2e:deepObject:recovered")
        else:
            chk.violation(f"C06:e2e:{tag}:deepObject-not-recovered", f"{name}={v!r} sent as {got!r}, expected {want!r}", replay)
    elif loc == "query" and eff_style in ("spaceDelimited", "pipeDelimited") and ty == "array":
        want = [spell_py(x) for x in v]   # exploded: same as form
        if t == want:
            chk.feature("e2e:delimited-exploded-array:recovered")
        elif has_bool_or_null(v) and vj == "asFound":
            chk.violation(KF["jsonify-list"], f"{tag}: {name}={v!r} is sent as {t!r}, expected entries {want!r}", replay)
        else:
            chk.violation(f"C06:e2e:{tag}:exploded-array-not-recovered", f"{name}={v!r} sent as {t!r}, expected {want!r}", replay)
    elif loc == "cookie" and ty in ("array", "object"):
        if not t:
            chk.violation(KF["cookie-dropped"], f"{tag}: cookie {name}={v!r} is not sent at all", replay)
        elif cell["explode"] is None:
            chk.violation(KF["absent-explode"], f"{tag}: cookie {name}={v!r} is sent as {t!r}", replay)
        else:
            chk.feature("e2e:cookie-exploded(not judged)")
    else:
        chk.feature("e2e:cell-without-defined-form(not judged)")


# ---- query parameters spread over several entries: model (SV/Model/C06Entries.lean) vs the real pipeline -----------------

def corr_entries(chk, n, variants):
    """`cellEntries` of the three spread cells (form+explode array / object, deepObject) against the query entries of the
    request the real pipeline prepares (strategy post-maps -> Case -> requests.prepare()), entry for entry"""
    rng, drv = chk.rng, chk.driver()
    vq, vt, vm, vs, vj = variants
    base = "http://127.0.0.1:8080/api"
    cells = [({"loc": "query", "style": "form", "explode": True, "ty": "array"}, "array"),
             ({"loc": "query", "style": "form", "explode": True, "ty": "object"}, "object"),
             ({"loc": "query", "style": "deepObject", "explode": True, "ty": "object"}, "object")]
    pipes, work = {}, []
    prims = [True, False, None, 0, -3, 12, "", "a", "a b", "x&y=z", "é", "[k]", "%41"]
    for i in range(n):
        cell, ty = cells[i % 3]
        name = rng.choice(["p", "ids", "f", "q[x]"])
        if ty == "array":
            v = [rng.choice(prims) for _ in range(rng.randint(0 if i % 9 else 1, 4))]
        else:
            keys = rng.sample(["a", "b", "k k", "[z]", "a[b]", "é"], rng.randint(1, 3))
            v = {k: rng.choice(prims) for k in keys}
        key = (cell["style"], ty, name)
        if key not in pipes:
            pipes[key] = Pipeline([raw_def(name, "query", ty, cell["style"], True)], "/u", base)
        pl = pipes[key]
        try:
            prep = pl.prepared(pl.case({"query": {name: copy.deepcopy(v)}}))
            got = [[k, x] for k, x in observed_from_prepared(prep, base, pl.template)["query"]]
        except Rejected:
            got = "REJECTED"
        except Exception as e:  # noqa: BLE001
            got = f"EXC:{type(e).__name__}"
        work.append((cell, name, v, got))
    outs = drv.batch([("cell_entries", {"vt": vt, "vm": vm, "vs": vs, "cell": c, "name": nm, "value": enc_val(v)})
                      for c, nm, v, _ in work])
    for (cell, name, v, got), m in zip(work, outs):
        model_err(m, (cell, name, v))
        chk.case("query:entries", key=[cell["style"], cell["ty"], name, enc_val(v)], nontrivial=bool(v),
                 sample={"cell": cell, "name": name, "value": v, "impl": got})
        chk.feature(f"entries:{cell['style']}:{cell['ty']}")
        if isinstance(got, str):
            chk.feature(f"entries:{got}")
            continue
        if m is None:
            continue
        # an empty array gives no entry at all on both sides
        if got != m:
            chk.disagreement("query:entries", {"cell": cell, "name": name, "value": v}, m, got)


# ---- prepare_path / prepare_url / get_full_path -------------------------------------------------------------------------

ORIGINS = ["http://127.0.0.1:8080", "https://example.com", "http://localhost"]
BASE_PATHS_CLEAN = ["", "/", "/api", "/api/", "/api/v1", "/a-b_c~d/v.2", "/é"]
BASE_PATHS_UNCLEAN = ["/a%2Fb", "/a%20b", "/api//v1", "/api/./v1", "/api/../v2", "/%41pi"]
URL_TEMPLATES = ["/users/{id}", "/users/{id}/", "/", "/{a}/{b}", "/files/{id}.json", "/u/{id}/x", "users/{id}", "/café/{id}",
                 "/a/./{id}", "/a//{id}", "//x/{id}", "/x y/{id}", "/a%2Fb/{id}", "/a/../{id}"]
KF_BASE_PCT = "C06:prepare_url:percent-encoded-reserved-character-in-base-url-decoded"
KF_BASE_EMPTY_SEG = "C06:prepare_url:empty-segment-in-base-path-removed"


def template_pieces(t: str):
    out, i = [], 0
    while i < len(t):
        if t[i] == "{":
            j = t.index("}", i)
            out.append(["var", B(t[i + 1:j])])
            i = j + 1
        else:
            j = t.find("{", i)
            j = len(t) if j < 0 else j
            out.append(["lit", B(t[i:j])])
            i = j
    return out


def clean_segments(segs, base: bool) -> bool:
    """mirror of Spec BaseOk / PathOk (only used to decide which cases the exact-concatenation law is *required* for)"""
    if base:
        return all(s and s not in (".", "..") and "/" not in s and "%" not in s for s in segs)
    return bool(segs) and all("/" not in s and s not in (".", "..") for s in segs) and all(s for s in segs[:-1])


def decoded_segments(path: str):
    """RFC 3986 equivalence of two paths: same segments after percent-decoding each one"""
    return [unquote_to_bytes(seg) for seg in path.split("/")]


def corr_url(chk, n, vq):
    rng, drv = chk.rng, chk.driver()
    pipes = {}
    cases = []
    for _ in range(n):
        t = rng.choice(URL_TEMPLATES)
        names = [S(p[1]) for p in template_pieces(t) if p[0] == "var"]
        params = {}
        for nm in names:
            r = rng.random()
            raw = gen_text(rng, 4) if r < 0.7 else rng.choice([".", "..", "a b", 5, True, None, "x"])
            params[nm] = raw
        if rng.random() < 0.05 and names:
            params.pop(names[0])
        base = rng.choice(ORIGINS) + rng.choice(BASE_PATHS_CLEAN * 3 + BASE_PATHS_UNCLEAN)
        cases.append((t, params, base))
    reqs_path, reqs_url, meta = [], [], []
    for t, params, base in cases:
        if t not in pipes:
            names = [S(p[1]) for p in template_pieces(t) if p[0] == "var"]
            defs = [{"name": nm, "in": "path", "required": True, "schema": {"type": "string"}} for nm in names]
            pipes[t] = Pipeline(defs, t, "http://127.0.0.1/x")
        quoted = quote_all(jsonify_python_specific_types(dict(params)))  # what the strategies hand over (order irrelevant here)
        try:
            formatted = prepare_path(t, quoted)
        except InvalidSchema:
            formatted = None
        except Exception as e:  # noqa: BLE001
            chk.violation(f"C06:prepare_path:raised-{type(e).__name__}", f"prepare_path({t!r}, {quoted!r}) raised {e!r}",
                          {"mechanism": "url", "template": t, "params": params, "base": base})
            continue
        reqs_path.append(("prepare_path", {"pieces": template_pieces(t), "params": [[B(k), pval_wire(v)] for k, v in quoted.items()]}))
        url = None
        if formatted is not None:
            case = pipes[t].operation.Case(path_parameters=quoted)
            url = guard(prepare_url, case, base)
            if not isinstance(url, str) or url.startswith("EXC:"):
                chk.violation(f"C06:prepare_url:raised", f"prepare_url({base!r}, {formatted!r}) gave {url!r}",
                              {"mechanism": "url", "template": t, "params": params, "base": base})
                continue
            sp = urlsplit(base)
            reqs_url.append(("prepare_url", {"bpath": B(sp.path), "path": B(formatted)}))
        meta.append((t, params, base, quoted, formatted, url))
    outs_path = drv.batch(reqs_path)
    outs_url = iter(drv.batch(reqs_url))
    for (t, params, base, quoted, formatted, url), mp in zip(meta, outs_path):
        model_err(mp, (t, params))
        chk.case("prepare_path", key=[t, sorted((k, repr(v)) for k, v in params.items())], nontrivial="{" in t,
                 sample={"template": t, "params": quoted, "impl": formatted})
        impl_p = None if formatted is None else B(formatted)
        if impl_p != mp:
            chk.disagreement("prepare_path", {"template": t, "params": quoted}, None if mp is None else S(mp), formatted)
        if formatted is None:
            chk.feature("url:missing-path-parameter")
            continue
        mu = next(outs_url)
        model_err(mu, (t, base))
        sp = urlsplit(base)
        origin = f"{sp.scheme}://{sp.netloc}"
        chk.case("prepare_url", key=[t, base, formatted], nontrivial=True, sample={"base": base, "path": formatted, "impl": url})
        base_clean = clean_segments([x for x in sp.path.strip("/").split("/") if True] if sp.path.strip("/") else [], True)
        path_clean = clean_segments(formatted.lstrip("/").split("/"), False) and not formatted.startswith("//") \
            and (formatted.startswith("/") or True)
        chk.feature("url:base-" + ("clean" if base_clean else "unclean"))
        chk.feature("url:path-" + ("clean" if path_clean else "unclean"))
        if not url.startswith(origin) or B(url[len(origin):]) != mu:
            chk.disagreement("prepare_url", {"base": base, "path": formatted}, S(mu), url)
        # replay: the URL-join statement on what the real code returned
        want = origin + sp.path.rstrip("/") + "/" + formatted.lstrip("/")
        if base_clean and path_clean:
            if url != want:
                chk.violation("C06:prepare_url:not-base-plus-path", f"prepare_url({base!r}, {formatted!r}) = {url!r}, expected {want!r}",
                              {"mechanism": "url", "template": t, "params": {k: v for k, v in params.items()}, "base": base})
        elif path_clean and decoded_segments(url[len(origin):]) != decoded_segments(want[len(origin):]):
            if "%" in sp.path:
                sig = KF_BASE_PCT
            elif "//" in sp.path:
                sig = KF_BASE_EMPTY_SEG
            else:
                sig = None   # dot-segments of the base are normalised away: RFC 3986 equivalent, not judged
            if sig:
                chk.violation(sig, f"prepare_url({base!r}, {formatted!r}) = {url!r}: the configured base path is altered",
                              {"mechanism": "url", "template": t, "params": {k: v for k, v in params.items()}, "base": base})


# ---- headers / content type / body ---------------------------------------------------------------------------------------

HEADER_NAMES = ["X-A", "x-a", "X-B", "Content-Type", "content-type", "User-Agent", "user-agent", "Accept", "Authorization",
                "X-Schemathesis-TestCaseId", "x-schemathesis-testcaseid", "X-Long-Name"]
MEDIA = [None, "application/json", "text/plain", "application/x-www-form-urlencoded", "multipart/form-data",
         "application/octet-stream", "text/json"]


def corr_headers(chk, n):
    rng, drv = chk.rng, chk.driver()
    body_schema = {mt: {"type": "object"} for mt in MEDIA if mt}
    pl = Pipeline([], "/u", "http://127.0.0.1:8080/api", body=body_schema, method="post")
    cases = []
    for _ in range(n):
        def hdrs(p_none):
            if rng.random() < p_none:
                return None
            return {rng.choice(HEADER_NAMES): rng.choice(["1", "two", "x y", ""]) for _ in range(rng.choice([0, 1, 2, 3]))}
        case_h, cfg = hdrs(0.25), hdrs(0.3)
        mt = rng.choice(MEDIA)
        body_set = rng.random() < 0.7
        cases.append((case_h, cfg, mt, body_set))
    reqs, impls, metas = [], [], []
    for case_h, cfg, mt, body_set in cases:
        body = NOT_SET
        if body_set:
            body = {"a": "1"} if mt in (None, "application/json", "text/json", "application/x-www-form-urlencoded", "multipart/form-data") else b"x"
        case = pl.operation.Case(headers=case_h, body=body, media_type=mt or "application/json")
        case.media_type = mt
        for t, transport in (("requests", REQUESTS_TRANSPORT), ("wsgi", WSGI_TRANSPORT)):
            try:
                kw = transport.serialize_case(case, headers=cfg, **({"base_url": pl.base_url} if t == "requests" else {}))
                impl = [[k, v] for k, v in kw["headers"].items()]
            except Exception as e:  # noqa: BLE001
                impl = f"EXC:{type(e).__name__}"
            a = {"t": t, "caseH": None if case_h is None else [[k, v] for k, v in CaseInsensitiveDict(case_h).items()],
                 "cfg": None if cfg is None else [[k, v] for k, v in cfg.items()],
                 "ua": ["User-Agent", USER_AGENT], "tcid": [SCHEMATHESIS_TEST_CASE_HEADER, case.id],
                 "mediaType": mt, "multipart": mt == "multipart/form-data", "bodySet": body_set, "extra": []}
            reqs.append(("headers", a))
            impls.append(impl)
            metas.append((t, case_h, cfg, mt, body_set, case.id))
    outs = drv.batch(reqs)
    for (op, a), impl, m, (t, case_h, cfg, mt, body_set, cid) in zip(reqs, impls, outs, metas):
        model_err(m, a)
        chk.case(f"serialize_case.headers[{t}]", key=[t, a["caseH"], a["cfg"], mt, body_set], nontrivial=bool(case_h or cfg),
                 sample={"case_headers": case_h, "configured": cfg, "media_type": mt, "body": body_set, "impl": impl})
        chk.feature(f"headers:media={mt}")
        if isinstance(impl, str):
            chk.feature(f"headers:{impl}")
            continue
        if impl != m:
            chk.disagreement(f"serialize_case.headers[{t}]", a, m, impl)
        # replay (specification written directly from the property statement)
        low = lambda d: {k.lower() for k in (d or {})}  # noqa: E731
        allowed = low(case_h) | low(cfg) | {"user-agent", SCHEMATHESIS_TEST_CASE_HEADER.lower(), "content-type"}
        got = {k.lower(): v for k, v in impl}
        extra = set(got) - allowed
        if extra:
            chk.violation(f"C06:serialize_case[{t}]:unexpected-header", f"headers {sorted(extra)} are neither generated, configured "
                          "nor documented additions", {"mechanism": "headers", **a})
        for k, v in (case_h or {}).items():
            if k.lower() in low(cfg):
                continue
            last = [vv for kk, vv in (case_h or {}).items() if kk.lower() == k.lower()][-1]
            if got.get(k.lower()) != last and not (t == "wsgi" and k.lower() == "content-type" and mt and body_set):
                chk.violation(f"C06:serialize_case[{t}]:generated-header-lost", f"generated header {k}={v!r} is sent as {got.get(k.lower())!r}",
                              {"mechanism": "headers", **a})
        if t == "requests" and mt and mt != "multipart/form-data" and body_set and "content-type" not in (low(case_h) | low(cfg)):
            if got.get("content-type") != mt:
                chk.violation("C06:serialize_case[requests]:content-type-differs-from-media-type",
                              f"Content-Type {got.get('content-type')!r} for media type {mt!r}", {"mechanism": "headers", **a})


BODIES = [{"a": 1, "b": [True, None, "x"], "c": {"d": "é"}}, [1, 2, {"k": "v"}], "text € body", 5, True, None, {"a b": "c&d=e", "f": ""}, {}]


def replay_bodies(chk, n):
    """JSON, form and text bodies round-trip through the prepared request; Content-Type equals the media type"""
    rng = chk.rng
    media = {"application/json": {}, "application/x-www-form-urlencoded": {"type": "object"}, "text/plain": {"type": "string"}}
    pl = Pipeline([], "/u", "http://127.0.0.1:8080/api", body=media, method="post")
    for i in range(n):
        mt = rng.choice(list(media))
        if mt == "application/json":
            body = rng.choice(BODIES) if rng.random() < 0.5 else {gen_text(rng, 3): gen_val(rng) for _ in range(rng.randrange(0, 4))}
        elif mt == "text/plain":
            body = gen_text(rng, 8)
        else:
            body = {gen_text(rng, 3) or "k": rng.choice([gen_text(rng, 4), 5, "a b&c=d"]) for _ in range(rng.randrange(0, 4))}
        case = pl.operation.Case(body=copy.deepcopy(body), media_type=mt)
        prep = guard(pl.prepared, case)
        if isinstance(prep, str):
            chk.violation(f"C06:body[{mt}]:{prep}", f"preparing body {body!r} raised {prep}", {"mechanism": "body", "media_type": mt, "body": body})
            continue
        raw = prep.body if isinstance(prep.body, (bytes, type(None))) else prep.body.encode("utf-8")
        chk.case(f"body[{mt}]", key=[mt, repr(body)], nontrivial=True, sample={"media_type": mt, "body": body, "wire": (raw or b"").decode("utf-8", "replace")})
        chk.feature(f"body:{mt}")
        ok = True
        if mt == "application/json":
            ok = _json.loads(raw) == body
        elif mt == "text/plain":
            ok = (raw or b"") == body.encode("utf-8")
        else:
            got = parse_qsl((raw or b"").decode("ascii"), keep_blank_values=True)
            ok = got == [(k, str(v)) for k, v in body.items()]
        if not ok:
            chk.violation(f"C06:body[{mt}]:not-recovered", f"body {body!r} sent as {raw!r}", {"mechanism": "body", "media_type": mt, "body": body})
        ct = prep.headers.get("Content-Type")
        if raw and ct != mt and not (mt == "application/x-www-form-urlencoded" and not body):
            chk.violation(f"C06:body[{mt}]:content-type", f"Content-Type {ct!r} for media type {mt!r}", {"mechanism": "body", "media_type": mt, "body": body})



# ---- coverage phase: one Template, a history of cases (shared containers) ---------------------------------------------------

CNAME = {"path": "path_parameters", "query": "query", "header": "headers", "cookie": "cookies"}


def corr_template_history(chk, n, variants):
    """SV/Model/C06Template.lean (`runT .entry`): the k-th case built from one `Template` carries the template's values
    serialized once, whatever cases were built before it.  Real side: one `Template` object, `add_parameter` for every
    value, then a random history of unmodified / with_body / with_parameter / with_container."""
    from schemathesis.generation import GenerationMode
    from schemathesis.generation.coverage import GeneratedValue
    rng, drv = chk.rng, chk.driver()
    vq, vt, vm, vs, _ = variants
    runs, reqs = [], []

    def gv(v):
        return GeneratedValue(value=copy.deepcopy(v), generation_mode=GenerationMode.POSITIVE, description="d", parameter=None,
                              location=None)
    for _ in range(n):
        locs = rng.sample(LOCS, rng.choice([1, 2, 2, 3]))
        if rng.random() < 0.6 and "path" not in locs:
            locs[0] = "path"
        all_defs, conts = [], {}
        for loc in locs:
            defs = []
            for nm in rng.sample(["p", "q", "id"], rng.choice([1, 2])):
                # half of the path parameters are plain (no style serializer at all): the case quote_all is alone with
                plain = rng.random() < 0.5
                ty = "string" if plain else rng.choice(TYPES)
                d = raw_def(nm, loc, ty, None if plain else rng.choice(LEGAL_STYLES[loc]), None if plain else rng.choice(EXPLODES))
                if loc == "path":
                    d["required"] = True
                defs.append(d)
            all_defs += defs
            conts[loc] = {d["name"]: gen_val(rng, d["schema"]["type"]) for d in defs}
        ops = []
        for _ in range(rng.randint(2, 5)):
            r = rng.random()
            loc = rng.choice(locs)
            if r < 0.45:
                ops.append({"op": "unmodified", "body": rng.random() < 0.3})
            elif r < 0.8:
                nm = rng.choice(list(conts[loc]))
                ty = next(d["schema"]["type"] for d in all_defs if d["in"] == loc and d["name"] == nm)
                ops.append({"op": "withParameter", "loc": loc, "name": nm, "value": gen_val(rng, ty)})
            else:
                c = {k: gen_val(rng, next(d["schema"]["type"] for d in all_defs if d["in"] == loc and d["name"] == k))
                     for k in conts[loc] if rng.random() < 0.8}
                ops.append({"op": "withContainer", "loc": loc, "container": c})
        template_url = "/u/" + "/".join("{%s}" % d["name"] for d in all_defs if d["in"] == "path") if "path" in locs else "/u"
        pl = Pipeline(all_defs, template_url, "http://127.0.0.1/api")
        tpl = Template(get_serializers_for_operation(pl.operation))
        for loc in locs:
            for nm, v in conts[loc].items():
                tpl.add_parameter(loc, nm, gv(v))
        impl = []
        try:
            for op in ops:
                if op["op"] == "unmodified":
                    tv = tpl.with_body(media_type="application/json", value=gv({"b": 1})) if op.get("body") else tpl.unmodified()
                elif op["op"] == "withParameter":
                    tv = tpl.with_parameter(location=op["loc"], name=op["name"], value=gv(op["value"]))
                else:
                    tv = tpl.with_container(container_name=CNAME[op["loc"]], value=copy.deepcopy(op["container"]),
                                            generation_mode=GenerationMode.POSITIVE)
                impl.append({loc: canon_container(tv.kwargs[CNAME[loc]]) for loc in locs})
        except Exception as e:  # noqa: BLE001
            impl.append(f"EXC:{type(e).__name__}")
        runs.append((locs, all_defs, conts, ops, impl))
        reqs.append(("template_history", {
            "vq": vq, "vt": vt, "vm": vm, "vs": vs,
            "defs": [{"loc": loc, "defs": [wire_def(d) for d in all_defs if d["in"] == loc]} for loc in locs],
            "conts": [{"loc": loc, "container": enc_container(conts[loc])} for loc in locs],
            "ops": [{"op": o["op"], **({"loc": o["loc"]} if "loc" in o else {}), **({"name": o["name"]} if "name" in o else {}),
                     **({"value": enc_val(o["value"])} if "value" in o else {}),
                     **({"container": enc_container(o["container"])} if "container" in o else {})} for o in ops]}))
    for (locs, defs, conts, ops, impl), m in zip(runs, drv.batch(reqs)):
        inp = {"locations": locs, "defs": defs, "template": conts, "ops": ops}
        model_err(m, inp)
        chk.case("Template:history-of-cases", key=[locs, [wire_def(d) for d in defs], {k: enc_container(v) for k, v in conts.items()},
                                                   _json.dumps(ops, sort_keys=True, default=repr)], sample={**inp, "impl": impl})
        chk.feature(f"template-history:ops={len(ops)}")
        if impl and isinstance(impl[-1], str):
            chk.feature("template-history:raised")
            continue
        first_of = {}
        for k, (case_m, case_i) in enumerate(zip(m, impl)):
            mm = {l: c for l, c in case_m}
            if any(c is None for c in mm.values()):
                chk.feature("template-history:outside-model(repr)")
                continue
            got = {l: typed(case_i[l]) for l in locs}
            want = {l: typed(mm[l]) for l in locs}
            if got != want:
                chk.disagreement("Template:history-of-cases", {**inp, "case_index": k}, want, got)
                break
        # specification replay (independent of the model): a container that a case does not vary must equal what the first
        # case that did not vary it carried
        for k, (op, case_i) in enumerate(zip(ops, impl)):
            for l in locs:
                if op.get("loc") == l:
                    continue
                if l in first_of and first_of[l] != case_i[l]:
                    chk.violation("C06:Template._serialize:unvaried-container-changes-between-cases-of-one-template",
                                  f"{CNAME[l]} was {first_of[l]!r} in an earlier case and is {case_i[l]!r} in case #{k} although "
                                  f"neither case varies it: the template's value was serialized again", {**inp, "case_index": k})
                    break
                first_of.setdefault(l, case_i[l])


# ---- coverage phase: Template._serialize --------------------------------------------------------------------------------

def corr_template(chk, n, variants):
    rng, drv = chk.rng, chk.driver()
    vq, vt, vm, vs, _ = variants
    cases = []
    for _ in range(n):
        loc = rng.choice(LOCS)
        defs = []
        for nm in rng.sample(["p", "q", "id"], rng.choice([1, 2])):
            ty = rng.choice(TYPES)
            d = raw_def(nm, loc, ty, rng.choice(LEGAL_STYLES[loc]), rng.choice(EXPLODES))
            if loc == "path":
                d["required"] = True
            defs.append(d)
        container = {d["name"]: gen_val(rng, d["schema"]["type"]) for d in defs}
        cases.append((loc, defs, container))
    reqs = [("template", {"vq": vq, "vt": vt, "vm": vm, "vs": vs, "loc": loc, "defs": [wire_def(d) for d in defs],
                          "container": enc_container(c)}) for loc, defs, c in cases]
    outs = drv.batch(reqs)
    pipes = {}
    for (loc, defs, c), m in zip(cases, outs):
        model_err(m, (loc, defs, c))
        key = _json.dumps([loc, defs], sort_keys=True)
        if key not in pipes:
            template = "/u/" + "/".join("{%s}" % d["name"] for d in defs) if loc == "path" else "/u"
            pipes[key] = Pipeline(defs, template, "http://127.0.0.1/api")
        serializers = get_serializers_for_operation(pipes[key].operation)
        cname = {"path": "path_parameters", "query": "query", "header": "headers", "cookie": "cookies"}[loc]
        try:
            impl = canon_container(Template(serializers)._serialize({cname: copy.deepcopy(c)})[cname])
        except Exception as e:  # noqa: BLE001
            impl = f"EXC:{type(e).__name__}"
        chk.case("Template._serialize", key=[loc, [wire_def(d) for d in defs], enc_container(c)], nontrivial=m is not None,
                 sample={"location": loc, "defs": defs, "container": c, "impl": impl})
        chk.feature(f"template:loc={loc}")
        if m is None:
            chk.feature("template:outside-model(repr)")
            continue
        if typed(impl) != typed(m):
            chk.disagreement("Template._serialize", {"loc": loc, "defs": defs, "container": c}, m, impl)


def corr_empty_dicts(chk, n):
    """the `{}` -> "" step of RequestsTransport.serialize_case"""
    rng, drv = chk.rng, chk.driver()
    pl = Pipeline([{"name": "a", "in": "query", "schema": {"type": "object"}}], "/u", "http://127.0.0.1/api")
    conts = [{"a": {}, "b": {"k": 1}, "c": []}, {"a": {}}, {}]
    conts += [{rng.choice(["a", "b", "c"]): rng.choice([{}, {"k": "v"}, [], "", 0, "x", ["y"]]) for _ in range(rng.randrange(0, 4))} for _ in range(n)]
    outs = drv.batch([("empty_dicts", {"container": enc_container(c)}) for c in conts])
    for c, m in zip(conts, outs):
        model_err(m, c)
        case = pl.operation.Case(query=copy.deepcopy(c))
        impl = guard(lambda case=case: canon_container(REQUESTS_TRANSPORT.serialize_case(case, base_url=pl.base_url)["params"]))
        chk.case("serialize_case.params", key=enc_container(c), nontrivial=any(v == {} for v in c.values()), sample={"query": c, "impl": impl})
        if typed(impl) != typed(m):
            chk.disagreement("serialize_case.params", c, m, impl)
        # replay: the pass that keeps empty objects visible to `requests` must leave every other entry as generated
        if isinstance(impl, list):
            got = {k: v for k, v in impl}
            for k, v in c.items():
                if isinstance(v, (str, int, bool)) and (k not in got or typed(got[k]) != typed(enc_val(v))):
                    chk.violation("C06:serialize_case:query-value-changed-next-to-an-empty-object",
                                  f"query {c!r}: the entry {k}={v!r} is handed to requests as {got.get(k, '<missing>')!r}",
                                  {"mechanism": "empty_dicts", "query": c, "params": impl})
                    break


# ---- the three transports deliver the same request ----------------------------------------------------------------------

TOKEN_CHARS = "abcXYZ019-_.~!*'()"


def multipart_transports(chk):
    """"the Content-Type equals the case's media type" for multipart bodies too: each transport writes its own boundary, so
    the requests are compared as (media type, decoded form fields).  WSGI and ASGI in process; the fields are read back with
    the standard multipart parser of the standard library's email package."""
    from email import message_from_bytes

    from schemathesis.transport.asgi import ASGI_TRANSPORT
    defs = [{"name": "id", "in": "path", "required": True, "schema": {"type": "string"}}]
    media = {"multipart/form-data": {"type": "object", "properties": {"a": {"type": "string"}, "n": {"type": "integer"}}}}
    pl = Pipeline(defs, "/items/{id}/sub", "http://127.0.0.1:8080/api", body=media, method="post")
    wsgi_app, asgi_app = WsgiRecorder(), AsgiRecorder()
    for body in ({"a": "x y", "n": 5}, {"a": "é&=", "n": 0}, {"a": ""}):
        case = pl.case({"path": {"id": "7"}}, body=copy.deepcopy(body), media_type="multipart/form-data")
        for t, fn, rec in (("wsgi", lambda: WSGI_TRANSPORT.send(case, app=wsgi_app), wsgi_app),
                           ("asgi", lambda: ASGI_TRANSPORT.send(case, app=asgi_app), asgi_app)):
            rec.last = None
            try:
                fn()
            except Exception as e:  # noqa: BLE001
                chk.violation(f"C06:transport[{t}]:send-raised-{type(e).__name__}", f"{t} transport raised {e!r} for a multipart body",
                              {"mechanism": "multipart", "body": body})
                continue
            got = rec.last
            ct = (got["headers"].get("content-type") or "") if got else ""
            fields = None
            if ct.lower().startswith("multipart/form-data"):
                msg = message_from_bytes(b"Content-Type: " + ct.encode("latin-1") + b"\r\n\r\n" + got["body"])
                if msg.is_multipart():
                    fields = {p_.get_param("name", header="content-disposition"): (p_.get_payload(decode=True) or b"").decode("utf-8")
                              for p_ in msg.get_payload()}
            chk.case(f"transport:multipart[{t}]", key=[t, body], nontrivial=True, sample={"body": body, "content_type": ct, "fields": fields})
            chk.feature(f"transport:multipart:{t}")
            want = {k: str(v) for k, v in body.items()}
            if fields != want:
                chk.violation(f"C06:transport[{t}]:multipart-body-not-delivered-as-multipart",
                              f"{t}: a multipart/form-data case with the fields {want} arrives with Content-Type {ct!r} and is read "
                              f"back as {fields}", {"mechanism": "multipart", "transport": t, "body": body, "content_type": ct,
                                                    "raw_body": got["body"][:300].decode("latin-1") if got else None})


def replay_transports(chk, n, loopback: bool):
    from schemathesis.transport.asgi import ASGI_TRANSPORT

    rng = chk.rng
    defs = [{"name": "id", "in": "path", "required": True, "schema": {"type": "string"}},
            {"name": "q", "in": "query", "schema": {"type": "string"}},
            {"name": "tags", "in": "query", "schema": {"type": "array", "items": {"type": "string"}}},
            {"name": "X-Token", "in": "header", "schema": {"type": "string"}},
            {"name": "sid", "in": "cookie", "schema": {"type": "string"}}]
    wsgi_app, asgi_app = WsgiRecorder(), AsgiRecorder()
    lb = Loopback() if loopback else None
    try:
        bases = ["http://127.0.0.1:8080/api", "http://127.0.0.1:8080", "http://127.0.0.1:8080/api/v1/"]
        media = {"application/json": {}, "application/x-www-form-urlencoded": {"type": "object"}, "text/plain": {"type": "string"}}
        pipes = {b: Pipeline(defs, "/items/{id}/sub", b, body=media, method="post") for b in bases}
        for i in range(n):
            base = rng.choice(bases)
            pl = pipes[base]
            raw = {"path": {"id": gen_text(rng, 5) or "x"},
                   "query": {"q": gen_text(rng, 5), "tags": [gen_text(rng, 3) for _ in range(rng.randrange(0, 3))]},
                   "header": {"X-Token": "".join(rng.choice(TOKEN_CHARS + " ,;=") for _ in range(rng.randrange(1, 6))).strip() or "t"},
                   "cookie": {"sid": "".join(rng.choice(TOKEN_CHARS) for _ in range(rng.randrange(1, 6)))}}
            mt = rng.choice(["application/json"] * 3 + ["application/x-www-form-urlencoded", "text/plain"])
            if mt == "application/json":
                body = rng.choice(BODIES)
            elif mt == "text/plain":
                body = gen_text(rng, 8)
            else:
                body = {(gen_text(rng, 3) or "k"): rng.choice([gen_text(rng, 4), 5, "a b&c=d"]) for _ in range(rng.randrange(1, 4))}
            form = mt == "application/x-www-form-urlencoded"
            try:
                case = pl.case(raw, body=copy.deepcopy(body), media_type=mt)
            except Rejected:
                chk.feature("transport:rejected-by-is_valid-filter")
                continue
            prep = pl.prepared(case)
            sp = urlsplit(prep.url)
            want = {"path": unquote_to_bytes(sp.path), "query": parse_qsl(sp.query, keep_blank_values=True),
                    "x-token": prep.headers.get("X-Token"), "content-type": prep.headers.get("Content-Type"),
                    "cookies": sorted(cookie_pairs(prep.headers.get("Cookie"))),
                    "body": prep.body if isinstance(prep.body, bytes) else (prep.body or "").encode("utf-8"),
                    "tcid": prep.headers.get(SCHEMATHESIS_TEST_CASE_HEADER)}
            if form:   # a form body is compared as the list of decoded fields (the encoders may spell a space differently)
                want["body"] = parse_qsl(want["body"].decode("ascii"), keep_blank_values=True)
            sends = [("wsgi", lambda: WSGI_TRANSPORT.send(case, app=wsgi_app), wsgi_app),
                     ("asgi", lambda: ASGI_TRANSPORT.send(case, app=asgi_app), asgi_app)]
            if lb is not None and i % 4 == 0:
                port_base = base.replace(":8080", f":{lb.port}")
                sends.append(("loopback", lambda: REQUESTS_TRANSPORT.send(case, base_url=port_base), lb))
            for t, fn, rec in sends:
                rec.last = None
                try:
                    resp = fn()
                except Exception as e:  # noqa: BLE001
                    chk.violation(f"C06:transport[{t}]:send-raised-{type(e).__name__}", f"{t} transport raised {e!r}",
                                  {"mechanism": "transport", "raw": raw, "body": body, "media_type": mt, "base": base})
                    continue
                got = rec.last
                chk.feature(f"transport:body={mt}")
                if form:
                    got["body"] = guard(lambda: parse_qsl(got["body"].decode("ascii"), keep_blank_values=True))
                # the request kept for reports (Response.request) is the prepared request
                if t != "loopback":
                    rr = resp.request
                    rsp = urlsplit(rr.url)
                    rbody = rr.body if isinstance(rr.body, bytes) else (rr.body or "").encode("utf-8")
                    recorded = {"path": unquote_to_bytes(rsp.path), "query": parse_qsl(rsp.query, keep_blank_values=True),
                                "content-type": rr.headers.get("Content-Type"), "cookies": sorted(cookie_pairs(rr.headers.get("Cookie"))),
                                "body": parse_qsl(rbody.decode("ascii"), keep_blank_values=True) if form else rbody}
                    for part, v in recorded.items():
                        if v != want[part]:
                            chk.violation(f"C06:transport[{t}]:recorded-{part}-differs-from-prepared-request",
                                          f"{t} transport: Response.request has {part}={v!r}, the prepared request has {want[part]!r}",
                                          {"mechanism": "transport", "raw": raw, "body": body, "media_type": mt, "base": base, "transport": t})
                chk.case(f"transport[{t}]", key=[t, base, raw, mt, repr(body)], nontrivial=True,
                         sample={"raw": raw, "body": body, "received_path": repr(got.get("path_bytes") or got.get("raw_path"))})
                chk.feature(f"transport:{t}")
                if t == "wsgi":
                    gpath = (got["script"].encode("latin-1") + got["path_bytes"])
                elif t == "asgi":
                    gpath = got["path_bytes"]
                else:
                    gpath = unquote_to_bytes(got["raw_path"])
                parts = {"path": gpath, "query": parse_qsl(got["query"], keep_blank_values=True),
                         "x-token": got["headers"].get("x-token"), "content-type": got["headers"].get("content-type"),
                         "cookies": sorted(cookie_pairs(got["headers"].get("cookie"))), "body": got["body"],
                         "tcid": got["headers"].get(SCHEMATHESIS_TEST_CASE_HEADER.lower())}
                for part, v in parts.items():
                    if v != want[part]:
                        chk.violation(f"C06:transport[{t}]:{part}-differs-from-prepared-request",
                                      f"{t} transport delivered {part}={v!r}, the prepared request has {want[part]!r}",
                                      {"mechanism": "transport", "raw": raw, "body": body, "media_type": mt, "base": base, "transport": t})
                if t == "loopback" and got["raw_path"] != sp.path:
                    chk.violation("C06:transport[loopback]:raw-path-re-encoded", f"wire path {got['raw_path']!r} != prepared {sp.path!r}",
                                  {"mechanism": "transport", "raw": raw, "body": body, "base": base, "transport": t})
    finally:
        if lb is not None:
            lb.close()


COVERAGE_STABILITY_DOCS = [
    {"openapi": "3.0.2", "info": {"title": "t", "version": "1"}, "paths": {"/u/{id}/{n}": {"get": {"parameters": [
        {"name": "id", "in": "path", "required": True, "schema": {"type": "string", "enum": ["a b", "c%d"]}},
        {"name": "n", "in": "path", "required": True, "style": "label", "schema": {"type": "integer", "minimum": 5}},
        {"name": "q", "in": "query", "schema": {"type": "integer", "minimum": 1, "maximum": 3}},
        {"name": "t", "in": "query", "style": "pipeDelimited", "explode": False,
         "schema": {"type": "array", "items": {"type": "integer"}, "minItems": 2, "maxItems": 2}},
        {"name": "X-H", "in": "header", "schema": {"type": "integer", "minimum": 7}}],
        "responses": {"200": {"description": "ok"}}}}}},
    {"openapi": "3.0.2", "info": {"title": "t", "version": "1"}, "paths": {"/m/{p}": {"post": {"parameters": [
        {"name": "p", "in": "path", "required": True, "style": "matrix", "schema": {"type": "string", "enum": ["x y"]}},
        {"name": "c", "in": "cookie", "schema": {"type": "boolean"}}],
        "requestBody": {"content": {"application/json": {"schema": {"type": "object", "properties": {
            "k": {"type": "integer", "minimum": 0, "maximum": 2}}, "required": ["k"]}}}},
        "responses": {"200": {"description": "ok"}}}}}},
]


def coverage_stability(chk):
    """The parts of a coverage-phase case that the case does not vary are the template's generated values: they must be
    the same on every case of the operation (they are serialized anew for each case, never cumulatively)."""
    import schemathesis
    from schemathesis.generation import GenerationMode
    from schemathesis.generation.hypothesis.builder import _iter_coverage_cases
    for raw in COVERAGE_STABILITY_DOCS:
        schema = schemathesis.openapi.from_dict(raw)
        for result in schema.get_all_operations():
            op = result.ok()
            cases = list(_iter_coverage_cases(op, [GenerationMode.POSITIVE, GenerationMode.NEGATIVE], None))
            base = cases[0]
            for i, c in enumerate(cases):
                data = c.meta.phase.data
                varied = (getattr(data, "parameter_location", None), getattr(data, "parameter", None))
                for cont, loc in (("path_parameters", "path"), ("query", "query"), ("headers", "header"), ("cookies", "cookie")):
                    b, v = getattr(base, cont) or {}, getattr(c, cont) or {}
                    for name, bv in dict(b).items():
                        if (loc, name) == varied or name not in v:
                            continue
                        chk.case("coverage:unvaried-parts-stable", key=[op.label, i, cont, name], nontrivial=i > 0)
                        if v[name] != bv and data.description.startswith(("Unspecified HTTP method", "Default", "Near", "Maximum",
                                                                           "Minimum", "Value", "Enum", "Incorrect", "Invalid")):
                            if data.parameter == name and getattr(data, "parameter_location", None) == loc:
                                continue
                            chk.violation("C06:Template._serialize:unvaried-parameter-changes-between-coverage-cases",
                                          f"{op.label}: {cont}[{name}] is {bv!r} in the first coverage case and {v[name]!r} in case "
                                          f"#{i} ({data.description!r}, which varies {varied}) — the template value was serialized again",
                                          {"doc": raw, "case_index": i, "description": data.description,
                                           "first": {cont: dict(b)}, "this": {cont: dict(v)}})
                            break



# ---- histories of calls: what one call leaves behind for the next ----------------------------------------------------------
#
# Quantifier part "histories": the request of the n-th call on an application is determined by the n-th case (as generated)
# and the configuration of the n-th call alone.  A history is a sequence of `case.call(params=…, cookies=…, session=…)` on
# one application through one transport; the application answers scripted `Set-Cookie` headers; cases are re-sent with
# different configurations.  Model: lean/SV/Model/C06Session.lean (`runTrace`), specification: lean/SV/Spec/C06Session.lean
# (`cookiesOk`, `queryOk`, `recordedOk`, judged on what the real transports delivered).

HIST_DOC = {"openapi": "3.0.2", "info": {"title": "t", "version": "1"}, "paths": {
    "/items": {"get": {"parameters": [{"name": "q", "in": "query", "schema": {"type": "string"}},
                                      {"name": "r", "in": "query", "schema": {"type": "string"}},
                                      {"name": "sid", "in": "cookie", "schema": {"type": "string"}},
                                      {"name": "tok", "in": "cookie", "schema": {"type": "string"}}],
                       "responses": {"200": {"description": "ok"}}}},
    "/login": {"post": {"parameters": [{"name": "r", "in": "query", "schema": {"type": "string"}},
                                       {"name": "sid", "in": "cookie", "schema": {"type": "string"}}],
                        "responses": {"200": {"description": "ok"}}}}}}
HIST_OPS = [["/items", "GET"], ["/login", "POST"]]
HIST_Q, HIST_C, HIST_SC, HIST_H = ["q", "r", "p"], ["sid", "tok", "w", "auth"], ["w", "sid", "s2"], ["X-Cfg", "X-Other"]
HIST_TOKEN = "abcXYZ019"
KF_MERGE_AT = "C06:merge_at:configured-params-or-cookies-written-into-the-case"
KF_RECORDED = "C06:WSGITransport.send:recorded-request-lacks-configured-params"
KF_COOKIE_HEADER = "C06:WSGITransport.send:generated-Cookie-header-not-sent"


def hist_token(rng, origin):
    """values name their origin (g: generated, c: configured, s: Set-Cookie, u: the user's session): no accidental equality"""
    return origin + "".join(rng.choice(HIST_TOKEN) for _ in range(rng.randrange(1, 3)))


def hist_dict(rng, keys, p_none, p_empty, origin):
    r = rng.random()
    if r < p_none:
        return None
    if r < p_none + p_empty:
        return {}
    return {k: hist_token(rng, origin) for k in rng.sample(keys, min(len(keys), rng.choice([1, 1, 2])))}


def gen_history(rng, via):
    store = [{"op": rng.choice(HIST_OPS), "query": hist_dict(rng, HIST_Q[:2], 0.3, 0.1, "g"),
              "cookies": hist_dict(rng, HIST_C[:2], 0.4, 0.1, "g"), "headers": hist_dict(rng, ["X-Gen"], 0.5, 0.1, "g")}
             for _ in range(rng.choice([1, 2, 2, 3]))]
    with_session = via == "wsgi" and rng.random() < 0.3
    calls = []
    for _ in range(rng.choice([2, 2, 3, 3, 4, 5])):
        sc = []
        if rng.random() < 0.5:
            # with a session of the user's, cookie_handler's delete-by-name would also remove a cookie of the same name that the
            # session holds or the response sets: that corner is a Lean witness only, not part of the compared family
            for name in rng.sample(["s2", "s3"] if with_session else HIST_SC, rng.choice([1, 1, 2])):
                sc.append([name, None if rng.random() < 0.2 else hist_token(rng, "s")])
        calls.append({"ix": rng.randrange(len(store)), "params": hist_dict(rng, HIST_Q, 0.6, 0.05, "c"),
                      "cookies": hist_dict(rng, HIST_C, 0.6, 0.05, "c"), "headers": hist_dict(rng, HIST_H, 0.75, 0.05, "c"),
                      "explicit": with_session and rng.random() < 0.6, "setCookies": sc})
    user_jar = {"u": hist_token(rng, "u"), **({"v": hist_token(rng, "u")} if rng.random() < 0.3 else {})} if with_session else {}
    return {"via": via, "store": store, "calls": calls, "userJar": user_jar}


def set_cookie_header(name, value):
    if value is None:
        return f"{name}=; Expires=Thu, 01 Jan 1970 00:00:00 GMT; Max-Age=0; Path=/"
    return f"{name}={value}; Path=/"


def pairs(d):
    return None if d is None else [[k, v] for k, v in d.items()]


class HistoryRig:
    """the three real transports, each against a recording application that answers scripted `Set-Cookie` headers"""

    def __init__(self, loopback: bool):
        self.lb = Loopback() if loopback else None

    def close(self):
        if self.lb is not None:
            self.lb.close()

    def vias(self):
        return ["wsgi", "asgi"] + (["requests"] if self.lb is not None else [])

    def run(self, h):
        """-> list of observations (one per call; the list is shorter when a call raised: last item is 'EXC:…')"""
        import schemathesis

        via = h["via"]
        schema = schemathesis.openapi.from_dict(copy.deepcopy(HIST_DOC))
        if via == "requests":
            rec = self.lb
            schema.configure(base_url=f"http://127.0.0.1:{self.lb.port}/api")
        else:
            rec = WsgiRecorder() if via == "wsgi" else AsgiRecorder()
            schema.configure(app=rec)
        cases = [schema[c["op"][0]][c["op"][1]].Case(query=copy.deepcopy(c["query"]), cookies=copy.deepcopy(c["cookies"]),
                                                      headers=copy.deepcopy(c.get("headers")))
                 for c in h["store"]]
        client = None
        if any(c["explicit"] for c in h["calls"]):
            import werkzeug

            client = werkzeug.Client(rec)
            for k, v in h["userJar"].items():
                client.set_cookie(k, v, domain="localhost")
        out = []
        for call in h["calls"]:
            case = cases[call["ix"]]
            kwargs = {k: copy.deepcopy(call[k]) for k in ("params", "cookies", "headers") if call[k] is not None}
            if call["explicit"]:
                kwargs["session"] = client
            rec.set_cookies = [set_cookie_header(n, v) for n, v in call["setCookies"]]
            rec.last = None
            try:
                resp = case.call(**kwargs)
            except Exception as e:  # noqa: BLE001
                out.append(f"EXC:{type(e).__name__}")
                break
            finally:
                rec.set_cookies = []
            got, req = rec.last, resp.request
            out.append({
                "wire": {"query": [list(p) for p in parse_qsl(got["query"], keep_blank_values=True)],
                         "cookies": [list(p) for p in cookie_pairs(got["headers"].get("cookie"))]},
                "recorded": {"query": [list(p) for p in parse_qsl(urlsplit(req.url).query, keep_blank_values=True)],
                             "cookies": [list(p) for p in cookie_pairs(req.headers.get("Cookie"))]},
                "caseAfter": {"query": pairs(case.query), "cookies": pairs(case.cookies)},
                "headers": sorted(got["headers"])})
        return out


def hist_wire(h):
    """the history in the driver's encoding"""
    return {"store": [{"query": pairs(c["query"]), "cookies": pairs(c["cookies"])} for c in h["store"]],
            "calls": [{"ix": c["ix"], "params": pairs(c["params"]), "cookies": pairs(c["cookies"]), "explicit": c["explicit"],
                       "setCookies": c["setCookies"]} for c in h["calls"]],
            "userJar": pairs(h["userJar"])}


def canon_sent(s):
    return {"query": sorted(map(tuple, s["query"])), "cookies": sorted(map(tuple, s["cookies"]))}


def detect_variant_merge_at() -> str:
    from schemathesis.core.transforms import merge_at

    own = {"a": "1"}
    merge_at({"k": own}, "k", {"b": "2"})
    return "asFound" if "b" in own else "repaired"


def detect_variant_params() -> str:
    pl = Pipeline([{"name": "q", "in": "query", "schema": {"type": "string"}}], "/u", "http://127.0.0.1/api")
    kw = REQUESTS_TRANSPORT.serialize_case(pl.operation.Case(query={"q": "x"}), base_url=pl.base_url, params={"p": "1"})
    return "repaired" if (kw["params"] or {}).get("p") == "1" else "asFound"


HIST_WITNESS = {"store": [{"op": HIST_OPS[1], "query": None, "cookies": None, "headers": None},
                          {"op": HIST_OPS[0], "query": {"q": "x"}, "cookies": None, "headers": None}],
                "calls": [{"ix": 0, "params": None, "cookies": None, "headers": None, "explicit": False, "setCookies": [["w", "s3"]]},
                          {"ix": 1, "params": None, "cookies": None, "headers": None, "explicit": False, "setCookies": []}],
                "userJar": {}}


def detect_client_policy(rig, via) -> str:
    """witness history: does a cookie set by the first response come back with the second call?"""
    obs = rig.run({**HIST_WITNESS, "via": via})
    if len(obs) == 2 and isinstance(obs[1], dict) and ["w", "s3"] in obs[1]["wire"]["cookies"]:
        return "perApp"
    return "perCall"


def judge_history(chk, h, obs, model, verdicts, variants_known):
    """replay: the specification's verdict on every request the real transport delivered"""
    via = h["via"]
    earlier_set, earlier_own_c, earlier_own_q, earlier_headers = set(), set(), set(), set()
    case_now = {ix: {"query": pairs(c["query"]), "cookies": pairs(c["cookies"])} for ix, c in enumerate(h["store"])}
    for i, (call, o) in enumerate(zip(h["calls"], obs)):
        replay = {"mechanism": "history", "history": h, "call_index": i, "observed": o}
        if isinstance(o, str):
            chk.violation(f"C06:history[{via}]:send-raised-{o[4:]}", f"call #{i} of the history raised {o}", replay)
            return
        v, m = verdicts[i], model[i]
        case0 = h["store"][call["ix"]]
        explained = canon_sent(m["wire"]) == canon_sent(o["wire"]) and \
            canon_sent(m["recorded"])["query"] == canon_sent(o["recorded"])["query"]
        own_c = {tuple(p) for p in v["ownCookies"]}
        own_q = {tuple(p) for p in v["ownQuery"]}
        if not v["cookiesOk"]:
            got = {tuple(p) for p in o["wire"]["cookies"]}
            extra, missing = got - own_c - {tuple(p) for p in (v["userJar"] or [])}, own_c - got
            in_case = {tuple(p) for p in case_now[call["ix"]]["cookies"] or []}
            if extra and extra <= in_case and explained and variants_known["merge_at"] == "asFound":
                sig, why = KF_MERGE_AT, f"{sorted(extra)} were configured for an earlier call of the same case only"
            elif extra and extra <= in_case:
                sig, why = f"C06:history[{via}]:case-changed-by-an-earlier-call", f"{sorted(extra)} were written into the case by an earlier call"
            elif extra & earlier_set:
                sig, why = f"C06:history[{via}]:cookie-set-by-an-earlier-response-sent-with-a-later-call", \
                    f"{sorted(extra & earlier_set)} were set by the response to an earlier call"
            elif extra and extra <= earlier_own_c:
                sig, why = f"C06:history[{via}]:cookie-of-an-earlier-call-sent-again", f"{sorted(extra)} belong to an earlier call"
            elif extra:
                sig, why = f"C06:history[{via}]:cookie-neither-generated-nor-configured", f"{sorted(extra)} belong to neither"
            else:
                sig, why = f"C06:history[{via}]:cookie-of-the-call-not-sent", f"{sorted(missing)} did not arrive"
            chk.feature(f"history:lost:{sig.split(':', 2)[2]}")
            chk.violation(sig, f"{via}, call #{i}: the request arrived with cookies {o['wire']['cookies']!r}; the case as generated has "
                          f"{case0['cookies']!r}, the call configures {call['cookies']!r}"
                          f"{', the session of the user holds ' + repr(v['userJar']) if call['explicit'] else ''}: {why}", replay)
        if not v["queryOk"]:
            got = {tuple(p) for p in o["wire"]["query"]}
            extra = got - own_q
            in_case = {tuple(p) for p in case_now[call["ix"]]["query"] or []}
            if extra and extra <= in_case and explained and variants_known["merge_at"] == "asFound":
                sig = KF_MERGE_AT
            elif extra and extra <= in_case:
                sig = f"C06:history[{via}]:case-changed-by-an-earlier-call"
            elif extra and extra <= earlier_own_q:
                sig = f"C06:history[{via}]:query-entry-of-an-earlier-call-sent-again"
            elif extra:
                sig = f"C06:history[{via}]:query-entry-neither-generated-nor-configured"
            else:
                sig = f"C06:history[{via}]:generated-query-entry-not-sent"
            chk.feature(f"history:lost:{sig.split(':', 2)[2]}")
            chk.violation(sig, f"{via}, call #{i}: the request arrived with query {o['wire']['query']!r}; the case as generated has "
                          f"{case0['query']!r}, the call configures {call['params']!r}", replay)
        if not v["recordedOk"]:
            lacks_params = via == "wsgi" and call["params"] and explained and variants_known["params"] == "asFound" and \
                canon_sent(o["recorded"])["query"] != canon_sent(o["wire"])["query"]
            sig = KF_RECORDED if lacks_params else f"C06:history[{via}]:recorded-request-differs-from-the-sent-one"
            chk.feature(f"history:lost:{sig.split(':', 2)[2]}")
            chk.violation(sig, f"{via}, call #{i}: Response.request has query {o['recorded']['query']!r} / cookies "
                          f"{o['recorded']['cookies']!r}, the application received {o['wire']['query']!r} / {o['wire']['cookies']!r}", replay)
        # header names (python mirror of `headers_only_expected`): a header configured for an earlier call only must not come back
        mine = {k.lower() for k in (call["headers"] or {})} | {k.lower() for k in (case0.get("headers") or {})}
        unexpected = sorted((set(o["headers"]) & earlier_headers) - mine)
        if unexpected:
            chk.violation(f"C06:history[{via}]:header-of-an-earlier-call-sent-again", f"{via}, call #{i}: headers {unexpected} were "
                          "configured for an earlier call only", replay)
        missing_h = sorted(mine - set(o["headers"]))
        if missing_h:
            chk.violation(f"C06:history[{via}]:generated-or-configured-header-not-sent", f"{via}, call #{i}: headers {missing_h} of "
                          "the case / the call's configuration did not arrive", replay)
        if all((v["cookiesOk"], v["queryOk"], v["recordedOk"])) and not unexpected:
            chk.feature("history:call-carries-its-own-case-only")
        case_now[call["ix"]] = o["caseAfter"]
        earlier_set |= {(n, val) for n, val in call["setCookies"] if val is not None}
        earlier_own_c |= own_c
        earlier_own_q |= own_q
        earlier_headers |= mine


def replay_cookie_header(chk, n, rig_loopback: bool):
    """a generated header parameter named `Cookie` is a generated header like any other: with no cookies in the case and
    none configured, the application must receive exactly that header (judged with the RFC 6265 cookie-string reader)"""
    import schemathesis

    rng = chk.rng
    doc = {"openapi": "3.0.2", "info": {"title": "t", "version": "1"}, "paths": {"/items": {"get": {"parameters": [
        {"name": "Cookie", "in": "header", "schema": {"type": "string"}}], "responses": {"200": {"description": "ok"}}}}}}
    lb = Loopback() if rig_loopback else None
    try:
        for i in range(n):
            via = ["wsgi", "asgi", "requests"][i % 3] if lb is not None else ["wsgi", "asgi"][i % 2]
            value = "; ".join(f"{name}={hist_token(rng, 'g')}" for name in rng.sample(["h", "sid", "k"], rng.choice([1, 2])))
            schema = schemathesis.openapi.from_dict(copy.deepcopy(doc))
            if via == "requests":
                rec = lb
                schema.configure(base_url=f"http://127.0.0.1:{lb.port}/api")
            else:
                rec = WsgiRecorder() if via == "wsgi" else AsgiRecorder()
                schema.configure(app=rec)
            case = schema["/items"]["GET"].Case(headers={"Cookie": value}, cookies=rng.choice([None, {}]))
            rec.last = None
            replay = {"mechanism": "cookie-header", "via": via, "value": value, "cookies": case.cookies}
            try:
                resp = case.call()
            except Exception as e:  # noqa: BLE001
                chk.violation(f"C06:transport[{via}]:send-raised-{type(e).__name__}", f"{via} transport raised {e!r}", replay)
                continue
            got = rec.last["headers"].get("cookie")
            chk.case(f"transport[{via}]:generated-cookie-header", key=[via, value], nontrivial=True,
                     sample={"via": via, "generated": value, "received": got, "recorded": resp.request.headers.get("Cookie")})
            if cookie_pairs(got) != cookie_pairs(value):
                sig = KF_COOKIE_HEADER if via == "wsgi" and got is None else f"C06:transport[{via}]:generated-Cookie-header-altered"
                chk.violation(sig, f"{via}: the case has the generated header Cookie: {value!r} and no cookies; the application received "
                              f"Cookie: {got!r} (Response.request says {resp.request.headers.get('Cookie')!r})", replay)
    finally:
        if lb is not None:
            lb.close()



def corr_history(chk, n, loopback: bool):
    rng, drv = chk.rng, chk.driver()
    rig = HistoryRig(loopback)
    try:
        vm, vp = detect_variant_merge_at(), detect_variant_params()
        chk.variants.update({"merge_at": vm, "serialize_case.params": vp})
        pols = {}
        for via in rig.vias():
            pols[via] = detect_client_policy(rig, via)
            chk.variants[f"client[{via}]"] = pols[via]
        hs = []
        for i in range(n):
            via = rng.choice(["wsgi", "wsgi", "asgi"]) if (i % 6 or "requests" not in rig.vias()) else "requests"
            hs.append(gen_history(rng, via))
        hs += [{**copy.deepcopy(HIST_WITNESS), "via": via} for via in rig.vias()]
        observed = [rig.run(h) for h in hs]
    finally:
        rig.close()
    models = drv.batch([("session_trace", {"via": h["via"], "pol": pols[h["via"]], "vm": vm, "vp": vp, **hist_wire(h)}) for h in hs])
    verdicts = drv.batch([("session_judge", {**hist_wire(h), "observed": [o for o in obs if isinstance(o, dict)]})
                          for h, obs in zip(hs, observed)])
    for h, obs, m, v in zip(hs, observed, models, verdicts):
        model_err(m, h)
        model_err(v, h)
        via = h["via"]
        mech = f"history[{via}]"
        chk.case(mech, key=h, nontrivial=len(h["calls"]) > 1, sample={"history": h, "observed": obs})
        chk.feature(f"history:via={via}")
        chk.feature(f"history:calls={len(h['calls'])}")
        for call in h["calls"]:
            for k in ("params", "cookies", "headers"):
                if call[k]:
                    chk.feature(f"history:configured-{k}")
            if call["setCookies"]:
                chk.feature("history:response-sets-cookies")
            if call["explicit"]:
                chk.feature("history:call-with-the-user's-session")
        if len({c["ix"] for c in h["calls"]}) < len(h["calls"]):
            chk.feature("history:case-sent-more-than-once")
        # correspondence: the model's history is the implementation's (canonical: entries as sorted pairs)
        for i, o in enumerate(obs):
            if isinstance(o, str):
                break
            mo = m[i]
            if h["calls"][i]["explicit"]:   # whether the record repeats the cookies of the user's session is not part of the contract
                names = {k for k, _ in v[i]["ownCookies"]}
                mo = {**mo, "recorded": {**mo["recorded"], "cookies": [p for p in mo["recorded"]["cookies"] if p[0] in names]}}
                o = {**o, "recorded": {**o["recorded"], "cookies": [p for p in o["recorded"]["cookies"] if p[0] in names]}}
            same = canon_sent(mo["wire"]) == canon_sent(o["wire"]) and canon_sent(mo["recorded"]) == canon_sent(o["recorded"]) \
                and all((None if mo["caseAfter"][k] is None else sorted(map(tuple, mo["caseAfter"][k])))
                        == (None if o["caseAfter"][k] is None else sorted(map(tuple, o["caseAfter"][k]))) for k in ("query", "cookies"))
            if not same:
                chk.disagreement(mech, {"history": h, "call_index": i, "variants": {"merge_at": vm, "params": vp, "client": pols[via]}},
                                 {k: mo[k] for k in ("wire", "recorded", "caseAfter")}, {k: o[k] for k in ("wire", "recorded", "caseAfter")})
                break
        judge_history(chk, h, obs, m, v, {"merge_at": vm, "params": vp})


def run(chk):
    import time

    t0 = [time.time()]

    def lap(name):
        now = time.time()
        chk.notes.append(f"phase {name}: {now - t0[0]:.1f}s")
        t0[0] = now

    v_quote = detect_variant_quote_all()
    vt, vm, vs, vj = detect_variant_defaults(), detect_variant_matrix(), detect_variant_itemstr(), detect_variant_jsonify()
    chk.variants.update({"quote_all": v_quote, "style_defaults": vt, "matrix_name": vm, "str(item)": vs, "jsonify": vj})
    variants = (v_quote, vt, vm, vs, vj)
    corr_quote(chk, chk.budget(400, 4000))
    corr_quote_all(chk, chk.budget(600, 6000), v_quote)
    corr_utf8(chk, chk.budget(300, 3000))
    lap("quote")
    corr_serialize3(chk, chk.budget(2500, 30000), vt, vm, vs)
    corr_serialize2(chk, chk.budget(600, 6000), vs)
    corr_jsonify_stringify(chk, chk.budget(600, 6000), vj)
    lap("serializers")
    e2e_styles(chk, variants, chk.budget(1500, 20000))
    lap("e2e-strategy")
    e2e_styles(chk, variants, chk.budget(300, 5000), front="template")
    lap("e2e-template")
    e2e_swagger2(chk, variants, chk.budget(300, 4000))
    corr_url(chk, chk.budget(1200, 15000), v_quote)
    lap("swagger2+url")
    corr_headers(chk, chk.budget(500, 5000))
    replay_bodies(chk, chk.budget(300, 3000))
    corr_template(chk, chk.budget(1500, 15000), variants)
    corr_template_history(chk, chk.budget(400, 4000), variants)
    corr_entries(chk, chk.budget(300, 3000), variants)
    corr_empty_dicts(chk, chk.budget(200, 2000))
    coverage_stability(chk)
    lap("headers+bodies+template")
    replay_transports(chk, chk.budget(150, 2000), loopback=chk.thorough)
    multipart_transports(chk)
    lap("transports")
    corr_history(chk, chk.budget(400, 5000), loopback=True)
    replay_cookie_header(chk, chk.budget(30, 300), True)
    lap("histories")
    fill_evidence(chk)
    chk.exhaustive = False


def fill_evidence(chk):
    chk.proved += [
        "pct_roundtrip: strict RFC 3986 decoding of quote(bs, safe) = bs for all byte strings and every safe set without '%'",
        "utf8_roundtrip / path_text_roundtrip: the same for all Unicode scalar strings through UTF-8",
        "path_roundtrip_repaired (full, quote(value, safe='')), path_asFound_exact (as found: spaces arrive as '+', nothing "
        "else changes), path_roundtrip_full_false (witness 'a b'), path_roundtrip_partial (as found, values without a space)",
        "path_value_is_clean_segment: every quoted value is one segment: no '/', never '.'/'..', never empty",
        "url_join / url_join_trailing_slash / wire_path: prepare_url = base segments ++ template segments, each read back "
        "as the literal / the generated value, for all clean base paths and templates",
        "style_roundtrip (general), style_roundtrip_repaired (full), style_roundtrip_full_false (matrix witness), "
        "style_roundtrip_partial (as found): reference decoder of the declared style o serializer = string coercion, all "
        "single-string cells of the location x style x explode x type table, all names and values, under the explicit "
        "no-delimiter hypothesis Decodable",
        "delimiter_inside_item_lost, empty_array_ambiguous, python_repr_inside_array, label_zero_kept, "
        "path_default_style_not_serialized, absent_explode_object_not_serialized: the hypotheses are necessary / the "
        "known-bad cells really are bad (kernel-checked witnesses)",
        "headers_only_expected, generated_header_sent, content_type_is_media_type (+ wsgi_overwrites_generated_content_type witness)",
        "history_independent (full: new client per call, merge_at on a copy, params honoured; all three transports): for every "
        "history of calls — any cases, interleaving, per-call params / cookies, Set-Cookie answers, calls with a session of the "
        "user's in between — every request sent without a session carries exactly its own case's (as generated) and its own "
        "call's cookies and query entries, Response.request is the sent request, no case is changed by being sent; "
        "send_leaves_case_unchanged; history_independent_full_false (code as found: configured params / cookies are written "
        "into the case and sent again), shadowed_params_break_the_record, memoized_client_leaks (a client kept per application: "
        "a cookie set by one response is sent with the next call) — kernel-checked witnesses; history_independent_partial (as "
        "found, histories whose calls configure neither params nor cookies)",
        "session_wire_only_expected, case_cookies_do_not_persist, session_jar_only_from_responses, cookie_handler_cleans_up "
        "(+ session_cookie_shadowed_by_case_is_deleted witness): with a session of the user's (WSGI) a request carries the call's "
        "cookies and otherwise only cookies of that session; the call's cookies never stay in the client; the session only gains "
        "what responses set",
    ]
    chk.partial += [
        "values: primitives (str, int, bool, null) and arrays / objects of primitives; floats and deeper nesting reach Python's "
        "repr / json.dumps and are outside the model (the model answers 'undefined', the replay still judges the wire)",
        "cells whose value is spread over several entries (exploded form arrays / objects, deepObject, exploded cookies) and "
        "`content: application/json` parameters have no single-string theorem: judged on the wire only (reference decoders "
        "decodeDeepObject / decodeFormExplodedArray, json.loads)",
        "urljoin is modelled for http(s) base URLs without query / fragment / params and relative references that are plain "
        "paths (which quote() guarantees); the origin (scheme://host:port) is passed through unmodelled",
        "str.format is modelled for templates made of literal text and {name} fields only",
        "histories: the state between calls is modelled as the case's own query / cookies dicts (str -> str) and the cookie jar "
        "of the client (one domain, Path=/, cookies set or expired by name); headers configured per call are judged on the wire "
        "only (prepare_headers copies: no state); cookies with Domain / Path / Secure attributes, redirects and a session of the "
        "user's on the requests transport (requests.Session's own jar semantics) are outside the model",
    ]
    chk.sampled_only += [
        "requests' PreparedRequest (requote_uri, params / cookie / header encoding), werkzeug's EnvironBuilder and the ASGI test "
        "client are third-party: their output is decoded and compared on every generated case, not modelled",
        "JSON / form / text bodies round-trip and Content-Type = media type: checked on the prepared request (json.loads, "
        "parse_qsl) for sampled bodies; multipart, XML, YAML and binary bodies are not examined",
        "WSGI and ASGI transports deliver the same path, query, headers, cookies and body as the prepared requests.Request "
        "(in-process recording apps on every run; a real loopback HTTP server in the thorough tier)",
        "cookie values are drawn without ';' (a ';' inside a cookie value splits the cookie: same unescaped-join loss as F13)",
        "form and text bodies through the WSGI / ASGI transports and Response.request of those transports: compared with the "
        "prepared request on sampled cases",
        "the cookie jars of werkzeug's test Client, starlette's TestClient and requests.Session are third party: the model's "
        "set / delete / Set-Cookie semantics is compared with them on every generated history (loopback HTTP server for "
        "requests), not verified",
    ]
    chk.assumptions += [
        "a standards-conforming server percent-decodes each path segment / query component first and then applies the "
        "style decoder of the declared parameter (decode-then-split; the code percent-encodes the delimiters themselves)",
        "label arrays with explode=false use ',' (RFC 6570 {.list}, OpenAPI 3.0.4 / 3.1), as the code and its tests do",
        "requests / urllib3 send PreparedRequest.url, headers and body unchanged (checked against a loopback server in the "
        "thorough tier)",
    ]
    chk.trusted += [
        "lean/SV/Spec/C06*.lean: our reading of RFC 3986 (percent-encoding, path segments), RFC 3629, RFC 6265 cookie-string, the "
        "OpenAPI 3.0 style table; pctDecode and utf8Decode are differentially checked against urllib / CPython on every run",
        "lean/SV/Spec/C06Session.lean: cookiesOk / queryOk / recordedOk — our reading of 'the request carries the generated case "
        "and nothing else' for the n-th request of a history (configured additions are allowed, not promised)",
        "harness/gens/c06_pipeline.py: drives the real get_parameters_strategy glue through a constant strategy "
        "(hypothesis.internal ConjectureData.for_choices + BuildContext)",
    ]


def replay(chk, data):
    """re-run one recorded input on the implementation and on the model / specification"""
    print(data.get("what"))
    r = data["replay"]
    print("recorded:", _json.dumps(r, ensure_ascii=False, default=str)[:2000])
    drv = chk.driver()
    variants = (detect_variant_quote_all(), detect_variant_defaults(), detect_variant_matrix(), detect_variant_itemstr(),
                detect_variant_jsonify())
    vq, vt, vm, vs, vj = variants
    print("variants now:", dict(zip(("quote_all", "style_defaults", "matrix_name", "str(item)", "jsonify"), variants)))
    mech = r.get("mechanism") or r.get("correspondence")
    if mech == "quote_all":
        v = r["value"]
        print("impl now:", repr(quote_all({"k": v})["k"]))
        for variant in ("asFound", "repaired"):
            print(f"model[{variant}]:", drv.one("quote_all", {"variant": variant, "val": pval_wire(v)}))
    elif mech == "e2e":
        cell, name, v = r["cell"], r["name"], r["value"]
        template = f"/u/{{{name}}}/x" if cell["loc"] == "path" else "/u"
        d = raw_def(name, cell["loc"], cell["ty"], cell["style"], cell["explode"])
        if cell["loc"] == "path":
            d["required"] = True
        pl = Pipeline([d], template, "http://127.0.0.1:8080/api")
        try:
            case = pl.case({cell["loc"]: {name: copy.deepcopy(v)}})
            prep = pl.prepared(case)
            print("impl now: url =", prep.url, "headers =", dict(prep.headers))
        except Rejected:
            print("impl now: rejected by the is_valid_* filter")
        print("model/spec:", drv.one("cell", {"vt": vt, "vm": vm, "vs": vs, "cell": cell, "name": name, "val": enc_val(v)}))
    elif mech == "url":
        t, params, base = r["template"], r["params"], r["base"]
        names = [S(p[1]) for p in template_pieces(t) if p[0] == "var"]
        pl = Pipeline([{"name": nm, "in": "path", "required": True, "schema": {"type": "string"}} for nm in names], t, base)
        quoted = quote_all(jsonify_python_specific_types(dict(params)))
        formatted = prepare_path(t, quoted)
        print("impl now:", prepare_url(pl.operation.Case(path_parameters=quoted), base))
        print("model:", S(drv.one("prepare_url", {"bpath": B(urlsplit(base).path), "path": B(formatted)})))
    elif mech == "headers":
        a = {k: r[k] for k in ("t", "caseH", "cfg", "ua", "tcid", "mediaType", "multipart", "bodySet", "extra")}
        print("model:", drv.one("headers", a))
        print("(impl: re-run ./check C06 — the case id is random)")
    elif mech == "history":
        h = r["history"]
        rig = HistoryRig(loopback=h["via"] == "requests")
        try:
            pol = detect_client_policy(rig, h["via"])
            obs = rig.run(h)
        finally:
            rig.close()
        vm_, vp_ = detect_variant_merge_at(), detect_variant_params()
        print("variants now:", {"merge_at": vm_, "serialize_case.params": vp_, f"client[{h['via']}]": pol})
        model = drv.one("session_trace", {"via": h["via"], "pol": pol, "vm": vm_, "vp": vp_, **hist_wire(h)})
        verdicts = drv.one("session_judge", {**hist_wire(h), "observed": [o for o in obs if isinstance(o, dict)]})
        for i, (call, o) in enumerate(zip(h["calls"], obs)):
            print(f"call #{i}: case {call['ix']} {h['store'][call['ix']]} configured params={call['params']} cookies={call['cookies']} "
                  f"session={call['explicit']} answers Set-Cookie {call['setCookies']}")
            print("   impl now :", o if isinstance(o, str) else {k: o[k] for k in ("wire", "recorded", "caseAfter")})
            if isinstance(o, dict):
                print("   model    :", {k: model[i][k] for k in ("wire", "recorded", "caseAfter")})
                print("   spec     :", verdicts[i])
    elif mech == "cookie-header":
        print("re-run ./check C06: every run sends generated `Cookie` headers through the three transports")
    elif "input" in r:
        print("model (recorded):", r.get("model"))
        print("impl  (recorded):", r.get("impl"))
        print("re-run ./check C06 with VERIF_SEED=%s to reproduce the correspondence run" % data.get("seed"))
    return 0
