"""C07 — exactly the selected API operations are tested, in every phase.

Correspondence: real schemas (`schemathesis.openapi.from_dict`, `schemathesis.graphql.from_file`) with filters applied
through the real `include`/`exclude`/`FilterArguments.into`/`LazySchema` + `pytest.lazy.get_schema`, observed at
`get_all_operations`, `statistic`, `_operation_iter`, `as_state_machine()` (transitions and rule names), against the
Lean model (lean/SV/Model/C07.lean) on the harness' own reading of the same document.
Replay: the Lean *specification* (lean/SV/Spec/C07.lean) and an independent Python oracle (harness/gens/c07_docs.py)
decide which operations must be offered; what the real code offered / counted / wired is judged against that.
Thorough tier adds an end-to-end run: the engine against a WSGI app that records which operations received requests,
and a real pytest session for lazy fixtures.
"""
from __future__ import annotations

import itertools
import json
import os
import subprocess
import sys
import tempfile
import textwrap

import schemathesis
from schemathesis.core.errors import IncorrectUsage
from schemathesis.core.result import Ok

from harness.core import InfraError, ROOT
from harness.gens import c07_docs as G

KF_LAZY = "C07:pytest.lazy.get_schema:fixture-schema-filters-discarded"
KF_STAT = "C07:_measure_statistic:filters-evaluated-on-unresolved-definition"

ERR_CLASS = {
    "Passing expected value and regex simultaneously is not allowed": "expectedAndRegex",
    "Filter can not be empty": "emptyFilter",
    "Filter already exists": "filterExists",
}


# ---- the real code -----------------------------------------------------------------------------------------------------

def _err_class(exc) -> str:
    msg = str(getattr(exc, "message", None) or exc)
    for k, v in ERR_CLASS.items():
        if k in msg:
            return v
    if "already exists" in msg:
        return "filterExists"
    if "Duplicate values" in msg:
        return "duplicateValues"
    raise InfraError(f"unclassified error from filter construction: {type(exc).__name__}: {msg}")


def apply_calls(target, calls, preds):
    """target: a schema or a LazySchema; returns (object, 'ok') or (None, error class)"""
    try:
        for c in calls:
            kw = G.real_kwargs(c, preds)
            f = kw.pop("func", None)
            target = target.include(f, **kw) if c["inc"] else target.exclude(f, **kw)
    except IncorrectUsage as exc:
        return None, _err_class(exc)
    return target, "ok"


def labels_of(schema):
    out = []
    for r in schema.get_all_operations():
        out.append(r.ok().label if isinstance(r, Ok) else "ERR")
    return out


def stat_of(schema):
    s = schema.statistic
    return [s.operations.total, s.operations.selected, s.links.total, s.links.selected]


def machine_of(schema):
    """(transitions, rule names) or (None, None) when the state machine cannot be built"""
    from schemathesis.core.compat import RefResolutionError
    from schemathesis.core.errors import InvalidStateMachine

    try:
        sm = schema.as_state_machine()
    except (InvalidStateMachine, RefResolutionError):
        return None, None
    trans = []
    for label, t in sm._transitions.operations.items():
        for link in t.outgoing:
            trans.append([label, str(link.status_code), link.name, link.target.label])
    rules = sorted(k for k, v in vars(sm).items() if hasattr(v, "hypothesis_stateful_rule"))
    return trans, rules


class _Request:
    """What `pytest.lazy.get_schema` needs from a FixtureRequest."""

    def __init__(self, value):
        self.value = value

    def getfixturevalue(self, name):
        return self.value


def lazy_labels(fixture_schema, lazy_calls, preds):
    from schemathesis.pytest.lazy import get_schema

    lazy, st = apply_calls(schemathesis.pytest.from_fixture("api"), lazy_calls, preds)
    if lazy is None:
        return {"build": st}

    def test(case):
        pass

    schema = get_schema(request=_Request(fixture_schema), name=lazy.fixture_name, filter_set=lazy.filter_set,
                        test_function=test)
    return {"build": "ok", "labels": labels_of(schema)}


_OBSERVED = [0]


def coverage_targets(schema):
    """which (METHOD path) the coverage phase would send requests to, per offered operation: the labels of the cases
    `_iter_coverage_cases` builds in negative mode (the 'unspecified HTTP method' block uses other methods on the same path)"""
    from schemathesis.generation import GenerationMode
    from schemathesis.generation.hypothesis.builder import _iter_coverage_cases
    out = []
    for r in schema.get_all_operations():
        if not isinstance(r, Ok):
            continue
        op = r.ok()
        try:
            targets = sorted({f"{c.method.upper()} {op.path}" for c in _iter_coverage_cases(op, [GenerationMode.NEGATIVE], None)})
        except Exception as e:  # noqa: BLE001
            targets = [f"raises:{type(e).__name__}"]
        out.append([op.label, targets])
    return out


def observe(base, calls, preds, lazy_calls=None, machine=True):
    schema, st = apply_calls(base, calls, preds)
    if schema is None:
        return {"build": st}
    out = {"build": "ok", "all": labels_of(schema), "iter": sum(1 for _ in schema._operation_iter()),
           "stat": stat_of(schema)}
    # pytest parametrisation takes its operations from a clone made by `parametrize()`
    def test(case):
        pass

    from schemathesis.pytest.plugin import SchemaHandleMark

    schema.parametrize()(test)
    out["parametrize"] = labels_of(SchemaHandleMark.get(test))
    _OBSERVED[0] += 1
    if _OBSERVED[0] % 5 == 0:
        out["coverage"] = coverage_targets(schema)
    if machine:
        out["trans"], out["rules"] = machine_of(schema)
    if lazy_calls is not None:
        out["lazy"] = lazy_labels(schema, lazy_calls, preds)
    return out


def compare(chk, sub, inp, model_out, impl_out):
    """one model-vs-implementation comparison of observable `sub` (counted per observable, not per generator)"""
    m = chk.mech.setdefault(sub, {"cases": 0, "disagreements": 0, "nontrivial": 0})
    m["cases"] += 1
    m["nontrivial"] += 1
    if model_out != impl_out:
        chk.disagreement(sub, inp, model_out, impl_out)


# ---- one document against many programs ------------------------------------------------------------------------------

class Case:
    def __init__(self, name, raw, preds):
        self.name, self.raw = name, raw
        self.world = G.World(raw, preds)
        self.base = schemathesis.openapi.from_dict(raw)
        self.body_pp = {}
        for r in self.base.get_all_operations():
            if isinstance(r, Ok):
                o = r.ok()
                self.body_pp[(o.method, o.path)] = (bool(o.body), bool(o.path_parameters))
        self.ops = self.world.wire_ops(self.body_pp)
        self.facts = self.world.facts()
        self.gql = False

    def load(self):
        """a freshly loaded schema of this document (its own FilterSet object)"""
        return schemathesis.openapi.from_dict(self.raw)

    def replay_base(self):
        return {"doc": self.raw, "doc_name": self.name}


def normalize_rule_names(model_rules):
    from schemathesis.generation.stateful.state_machine import _normalize_name

    names = []
    for r in model_rules:
        if r[0] == "RANDOM":
            names.append(_normalize_name(f"RANDOM -> {r[1]}"))
        else:
            names.append(_normalize_name(f"{r[0]} -> {r[1]} -> {r[2]} -> {r[3]}"))
    return sorted(names)


def oracle_offered(case: Case, calls):
    inc, exc = G.program_conjs(calls)
    return [f["name"] for f in case.facts if G.oracle_selected(inc, exc, f)]


def oracle_links(case: Case, offered):
    """number of links whose source and target are both offered (targets by operationId / reference)"""
    by_id = {f["operation_id"]: f["name"] for f in case.facts if f["operation_id"] is not None}
    n = 0
    for f in case.facts:
        if f["name"] not in offered:
            continue
        for link in f["links"]:
            t = link["t"]
            if t is None:
                continue
            target = by_id.get(t["id"]) if "id" in t else f"{t['ref'][0].upper()} {t['ref'][1]}"
            if target in offered:
                n += 1
    return n


def judge(chk, case: Case, programs, mechanism, reg, variants, machine=True):
    """programs: [{'calls': […], 'lazy': […]|None}]"""
    drv = chk.driver()
    preds = case.world.preds
    wire_programs = []
    for p in programs:
        w = {"calls": [G.wire_call(c, reg) for c in p["calls"]]}
        if p.get("lazy") is not None:
            w["lazy"] = [G.wire_call(c, reg) for c in p["lazy"]]
        wire_programs.append(w)
    rx = reg.tables(case.world.strings())
    models = []
    for i in range(0, len(wire_programs), 1500):
        res = drv.batch([("run", {"rx": rx, "ops": case.ops, "programs": wire_programs[i:i + 1500]})])[0]
        if isinstance(res, dict) and "__err__" in res:
            raise InfraError(f"model error {res} on document {case.name}")
        models.extend(res)
    sv, lv = variants["statistic"], variants["lazy"]
    for p, w, m in zip(programs, wire_programs, models):
        impl = observe(case.base, p["calls"], preds, p.get("lazy"), machine=machine)
        key = {"doc": case.name, "program": w}
        replay = {"doc": case.raw, "doc_name": case.name, "program": p}
        chk.feature(f"{mechanism}:build={impl['build']}")
        compare(chk, "_add_filter", replay, m["build"], impl["build"])
        if impl["build"] != m["build"]:
            chk.case(mechanism, key=key, nontrivial=True)
            continue
        if impl["build"] != "ok":
            chk.case(mechanism, key=key, nontrivial=True, sample={"program": w, "impl": impl})
            continue
        expected = oracle_offered(case, p["calls"])
        if expected != m["spec"]:
            raise InfraError(f"Lean specification and Python oracle disagree on {case.name} {w}: {m['spec']} vs {expected}")
        exp_links = oracle_links(case, expected)
        if exp_links != m["spec_links"]:
            raise InfraError(f"Lean link specification and Python oracle disagree on {case.name} {w}: "
                             f"{m['spec_links']} vs {exp_links}")
        total = len(case.facts)
        nontrivial = 0 < len(expected) < total or bool(p.get("lazy"))
        chk.case(mechanism, key=key, nontrivial=nontrivial, sample={"doc": case.name, "program": w, "impl": impl})
        chk.feature(f"{mechanism}:selected={len(expected)}/{total}")
        for c in p["calls"]:
            for k in c["kw"]:
                chk.feature(f"filter:{'include' if c['inc'] else 'exclude'}:{k}")
            if c["dep"]:
                chk.feature("filter:exclude:deprecated=True")
        # ---- correspondence -------------------------------------------------------------------------------------------
        compare(chk, "get_all_operations", replay, m["all"], impl["all"])
        compare(chk, "parametrize", replay, m["all"], impl["parametrize"])
        compare(chk, "_operation_iter", replay, m["iter"], impl["iter"])
        compare(chk, "_measure_statistic", replay, m[f"stat_{sv}"], impl["stat"])
        if machine:
            mt = None if m["trans"] is None else sorted(m["trans"])
            it = None if impl["trans"] is None else sorted(impl["trans"])
            compare(chk, "collect_transitions", replay, mt, it)
            mr = None if m["rules"] is None else normalize_rule_names(m["rules"])
            compare(chk, "state_machine_rules", replay, mr, impl["rules"])
        # ---- replay: the specification judges what the implementation did -----------------------------------------
        documented = {f["name"] for f in case.facts}
        for label, targets in impl.get("coverage", []):
            chk.feature("coverage-targets:observed")
            for t in targets:
                if t != label and t in documented:
                    chk.violation("C07:coverage:request-to-a-documented-operation-other-than-the-one-under-test",
                                  f"the coverage cases built for {label} include a request {t}: a documented operation "
                                  f"({'selected' if t in expected else 'NOT selected by the filters'}) is exercised as an "
                                  "'unspecified method' of its own path",
                                  {**replay, "operation": label, "target": t, "expected": expected})
        if impl["all"] != expected:
            chk.violation("C07:get_all_operations:offered-differs-from-selection",
                          f"get_all_operations offers {impl['all']} but the filters select {expected}",
                          {**replay, "impl": impl["all"], "expected": expected})
        if impl["parametrize"] != expected:
            chk.violation("C07:parametrize:offered-differs-from-selection",
                          f"pytest parametrisation offers {impl['parametrize']} but the filters select {expected}",
                          {**replay, "impl": impl["parametrize"], "expected": expected})
        if impl["stat"][:2] != [total, len(expected)]:
            explained = impl["stat"] == m["stat_asFound"] and m["stat_repaired"][:2] == [total, len(expected)] \
                and impl["all"] == expected
            chk.violation(KF_STAT if explained else "C07:statistic:operation-count-differs-from-offered",
                          f"statistic reports {impl['stat'][1]}/{impl['stat'][0]} operations but {len(expected)}/{total} "
                          "are selected and offered", {**replay, "impl": impl["stat"], "expected": [total, len(expected)]})
        elif machine and impl["trans"] is not None:
            if impl["stat"][3] != len(impl["trans"]) or impl["stat"][3] != exp_links:
                chk.violation("C07:statistic:link-count-differs-from-transitions",
                              f"statistic reports {impl['stat'][3]} selected links, the state machine has "
                              f"{len(impl['trans'])} transitions, {exp_links} links join selected operations",
                              {**replay, "impl": impl["stat"], "transitions": impl["trans"], "expected": exp_links})
        if machine and impl["trans"] is not None:
            bad = [t for t in impl["trans"] if t[0] not in expected or t[3] not in expected]
            if bad:
                chk.violation("C07:state_machine:transition-touches-unselected-operation",
                              f"state machine transition {bad[0]} has an unselected source or target",
                              {**replay, "impl": impl["trans"], "expected": expected})
            if len(impl["trans"]) < exp_links:
                chk.violation("C07:state_machine:transition-between-selected-operations-missing",
                              f"{exp_links} links join selected operations but only {len(impl['trans'])} transitions exist",
                              {**replay, "impl": impl["trans"], "expected": exp_links})
        if p.get("lazy") is not None:
            ml, il = m["lazy"], impl["lazy"]
            chk.feature(f"{mechanism}:lazy-build={il['build']}")
            compare(chk, "LazySchema:_add_filter", replay, ml["build"], il["build"])
            if ml["build"] == il["build"] == "ok":
                compare(chk, "lazy.get_schema", replay, ml[lv], il["labels"])
                inc1, exc1 = G.program_conjs(p["calls"])
                inc2, exc2 = G.program_conjs(p["lazy"])
                lexp = [f["name"] for f in case.facts if G.oracle_selected(inc1 + inc2, exc1 + exc2, f)]
                if lexp != ml["spec"]:
                    raise InfraError(f"Lean lazy specification and Python oracle disagree on {case.name} {w}")
                if il["labels"] != lexp:
                    explained = il["labels"] == ml["asFound"] and ml["repaired"] == lexp
                    chk.violation(KF_LAZY if explained else "C07:lazy:offered-differs-from-selection",
                                  f"lazy fixture offers {il['labels']} but the fixture's and the lazy object's filters "
                                  f"select {lexp}", {**replay, "impl": il["labels"], "expected": lexp})


# ---- program generators ----------------------------------------------------------------------------------------------

def atom_call(inc, atom, dep=False):
    return G.call(inc, dep, **{atom[0]: atom[1]})


def single_calls(inc):
    calls = [atom_call(inc, a) for a in G.ATOMS]
    if not inc:
        calls.append(G.call(False, True))
    return calls


def exhaustive_programs(max_inc, max_exc):
    incs = [list(c) for k in range(max_inc + 1) for c in itertools.combinations(single_calls(True), k)]
    excs = [list(c) for k in range(max_exc + 1) for c in itertools.combinations(single_calls(False), k)]
    for i in incs:
        for e in excs:
            yield {"calls": i + e}


def random_call(rng, inc):
    k = rng.choice([1, 1, 2, 2, 3])
    kw = {}
    for a in rng.sample(G.ATOMS, k):
        base = a[0][:-6] if a[0].endswith("_regex") else a[0]
        if base not in kw and base + "_regex" not in kw:
            kw[a[0]] = a[1]
    if rng.random() < 0.04:  # expected value and regex for the same attribute
        attr = rng.choice(G.ATTRS)
        kw[attr], kw[attr + "_regex"] = "x", "x"
    dep = (not inc) and rng.random() < 0.2
    if rng.random() < 0.02:
        kw = {}
    return G.call(inc, dep, **kw)


def random_program(rng, lazy=False):
    calls = [random_call(rng, rng.random() < 0.5) for _ in range(rng.choice([1, 2, 2, 3, 4]))]
    rng.shuffle(calls)
    p = {"calls": calls}
    if lazy:
        p["lazy"] = [random_call(rng, rng.random() < 0.5) for _ in range(rng.choice([0, 1, 1, 2]))]
    return p


WITNESS_LAZY = {"calls": [G.call(False, method="DELETE")], "lazy": []}
WITNESS_STAT = {"calls": [G.call(True, func=2)]}


def detect_variants(chk, case_a: Case):
    preds = case_a.world.preds
    impl = observe(case_a.base, WITNESS_LAZY["calls"], preds, WITNESS_LAZY["lazy"], machine=False)
    lazy = "asFound" if any(l.startswith("DELETE ") for l in impl["lazy"]["labels"]) else "repaired"
    impl = observe(case_a.base, WITNESS_STAT["calls"], preds, machine=False)
    stat = "asFound" if impl["stat"][1] != len(impl["all"]) else "repaired"
    return {"lazy": lazy, "statistic": stat}


# ---- derivation histories: schemas derived from schemas, shared FilterSet objects, lazy chains -----------------------

HIST_ROOTS = 2  # object 0: a freshly loaded schema; object 1: a `from_fixture` object


def conj_key(conj):
    """Identity of the filter one conjunction of criteria is stored as (HTTP method values upper-cased)."""
    k = []
    for crit in conj:
        if crit[0] in ("is", "oneOf") and crit[1] == "method":
            v = crit[2]
            crit = (crit[0], crit[1], [x.upper() for x in v] if isinstance(v, list) else v.upper())
        k.append(json.dumps(crit))
    return tuple(k)


def call_keys(c):
    return [conj_key(conj) for conj in G.call_conjs(c)]


def cli_kwargs(a, exprs=None):
    kwargs = {}
    for mode in ("include", "exclude"):
        for attr in G.ATTRS:
            kwargs[f"{mode}_{attr}"] = tuple(a.get(f"{mode}_{attr}", ()))
            kwargs[f"{mode}_{attr}_regex"] = a.get(f"{mode}_{attr}_regex")
        kwargs[f"{mode}_by"] = (exprs or {}).get(a.get(f"{mode}_by"))
    kwargs["exclude_deprecated"] = a.get("exclude_deprecated", False)
    return kwargs


def wire_cli(a, reg):
    w = {}
    for k, v in a.items():
        w[k] = reg.id(k.split("_", 1)[1][:-6], v) if k.endswith("_regex") else v
    return w


def oracle_refusal(parent_keys, c):
    """Which refusal (if any) the documented rules prescribe for one include/exclude call on a parent holding
    `parent_keys` (on either side).  Independent of the model; `exclude(func, deprecated=True)` is two exclusions."""
    kw = c["kw"]
    both = any(kw.get(a) is not None and kw.get(a + "_regex") is not None for a in G.ATTRS)
    split = (not c["inc"]) and c["dep"] and kw.get("func") is not None
    have = set(parent_keys)
    if split:
        first = (json.dumps(("deprecated",)),)
        if first in have:
            return "filterExists"
        have = have | {first}
    if both:
        return "expectedAndRegex"
    keys = call_keys(c)
    last = keys[-1]
    if not last:
        return "emptyFilter"
    if last in have:
        return "filterExists"
    return None


class History:
    """Runs one derivation history on the real objects, observing EVERY object created so far after each step."""

    def __init__(self, case, preds, root=None):
        self.case, self.preds = case, preds
        self.root = case.load() if root is None else root
        self.objs = [{"kind": "schema", "obj": self.root, "pool": ([], []), "keys": [], "via": "root"},
                     {"kind": "lazy", "obj": schemathesis.pytest.from_fixture("api"), "pool": ([], []), "keys": [],
                      "via": "root"}]

    def observe_obj(self, o):
        if o["kind"] == "schema":
            return {"all": labels_of(o["obj"]), "stat": stat_of_fresh(o["obj"])}
        from schemathesis.pytest.lazy import get_schema

        def test(case):
            pass

        schema = get_schema(request=_Request(self.root), name="api", filter_set=o["obj"].filter_set, test_function=test)
        return {"all": labels_of(schema), "stat": stat_of_fresh(schema)}

    def step(self, st):
        """returns the refusal class or None"""
        from schemathesis.pytest.lazy import get_schema
        from schemathesis.pytest.plugin import SchemaHandleMark

        if st["op"] == "derive":
            parent = self.objs[st["p"]]
            c = st["call"]
            kw = G.real_kwargs(c, self.preds)
            f = kw.pop("func", None)
            try:
                new = parent["obj"].include(f, **kw) if c["inc"] else parent["obj"].exclude(f, **kw)
            except IncorrectUsage as exc:
                return _err_class(exc)
            inc, exc = parent["pool"]
            conjs = G.call_conjs(c)
            pool = (inc + conjs, exc) if c["inc"] else (inc, exc + conjs)
            self.objs.append({"kind": parent["kind"], "obj": new, "pool": pool, "keys": parent["keys"] + call_keys(c),
                              "via": "derive"})
        elif st["op"] == "adopt":
            import click
            from schemathesis.cli.commands.run import filters as cli_filters

            try:
                fs = cli_filters.FilterArguments(**cli_kwargs(st["cli"])).into()
            except (click.UsageError, IncorrectUsage) as exc:
                return _err_class(exc)
            new = self.case.load()
            new.filter_set = fs  # as cli/commands/run/executor.py does with the freshly loaded schema
            inc, exc = cli_conjs(st["cli"])
            self.objs.append({"kind": "schema", "obj": new, "pool": (inc, exc),
                              "keys": [conj_key(cj) for cj in inc + exc], "via": "adopt"})
        elif st["op"] == "share":
            parent = self.objs[st["p"]]
            if st.get("how") == "parametrize":
                def test(case):
                    pass

                parent["obj"].parametrize()(test)
                new = SchemaHandleMark.get(test)
            else:
                new = parent["obj"].clone()
            self.objs.append({**parent, "obj": new, "via": "share"})
        else:
            lz, fx = self.objs[st["l"]], self.objs[st["f"]]

            def test(case):
                pass

            new = get_schema(request=_Request(fx["obj"]), name="api", filter_set=lz["obj"].filter_set, test_function=test)
            self.objs.append({"kind": "schema", "obj": new, "pool": (fx["pool"][0] + lz["pool"][0], fx["pool"][1] + lz["pool"][1]),
                              "keys": fx["keys"] + lz["keys"], "via": "resolve"})
        return None


def stat_of_fresh(schema):
    s = schema._measure_statistic()
    return [s.operations.total, s.operations.selected, s.links.total, s.links.selected]


def random_history(rng, call_gen=None, adopt=True):
    """A typed random history over the two roots; biased towards deriving again from objects that already have
    children and towards adding to the side that is already populated."""
    call_gen = call_gen or random_call
    kinds = ["schema", "lazy"]
    children = [0, 0]
    steps = []
    sides = [set(), set()]
    for _ in range(rng.choice([3, 4, 5, 6, 7])):
        x = rng.random()
        schemas = [i for i, k in enumerate(kinds) if k == "schema"]
        lazies = [i for i, k in enumerate(kinds) if k == "lazy"]
        if x < 0.12 and len(kinds) > 2:
            p = rng.choice(schemas)
            steps.append({"op": "share", "p": p, "how": rng.choice(["clone", "parametrize"])})
            kinds.append("schema"); children.append(0); sides.append(set(sides[p])); children[p] += 1
            continue
        if 0.24 <= x < 0.30 and adopt:
            a = {k: v for k, v in random_cli(rng).items() if not k.endswith("_by")}
            steps.append({"op": "adopt", "cli": a})
            kinds.append("schema"); children.append(0)
            sides.append({m for m in ("inc", "exc") if any(k.startswith("include" if m == "inc" else "exclude") and v
                                                          for k, v in a.items())})
            continue
        if 0.12 <= x < 0.24:
            l, f = rng.choice(lazies), rng.choice(schemas)
            steps.append({"op": "resolve", "l": l, "f": f})
            kinds.append("schema"); children.append(0); sides.append(sides[l] | sides[f])
            continue
        # derive: prefer a filtered parent (w=3), one that already has children (w=+3)
        weights = [1 + (3 if sides[i] else 0) + (3 if children[i] else 0) for i in range(len(kinds))]
        p = rng.choices(range(len(kinds)), weights)[0]
        inc = rng.random() < 0.5
        if sides[p] and rng.random() < 0.6:
            inc = rng.choice(sorted(sides[p])) == "inc"
        c = call_gen(rng, inc)
        if steps and rng.random() < 0.12:  # repeat an earlier call (a sibling's, or the parent's own: "already exists")
            earlier = [s["call"] for s in steps if s["op"] == "derive"]
            if earlier:
                c = rng.choice(earlier)
        steps.append({"op": "derive", "p": p, "call": c})
        children[p] += 1
        # the new object exists only when the call is accepted; the generator tracks the optimistic shape and
        # `run_histories` drops steps that refer to objects that were never created
        kinds.append(kinds[p]); children.append(0); sides.append(sides[p] | {"inc" if c["inc"] else "exc"})
    return steps


def wire_step(st, reg):
    if st["op"] == "derive":
        return {"op": "derive", "p": st["p"], "call": G.wire_call(st["call"], reg)}
    if st["op"] == "share":
        return {"op": "share", "p": st["p"]}
    if st["op"] == "adopt":
        return {"op": "adopt", "cli": wire_cli(st["cli"], reg)}
    return {"op": "resolve", "l": st["l"], "f": st["f"]}


def realise_history(case, steps, preds, root=None, real_indices=False):
    """Run the steps on the real objects.  The generator assumed every derive is accepted; indices are remapped so
    that a step referring to an object that was never created is dropped (`real_indices`: the steps are a recorded
    history whose indices already are creation indices).  Returns (kept steps, per-step record)."""
    h = History(case, preds, root)
    alive = {0: 0, 1: 1}  # generator index -> real index
    gen_next = HIST_ROOTS
    kept, records = [], []
    for st in steps:
        gi = gen_next
        gen_next += 1
        refs = [st[k] for k in ("p", "l", "f") if k in st]
        if real_indices:
            alive = {i: i for i in range(len(h.objs))}
        if any(r not in alive for r in refs):
            continue
        real = {**st, **{k: alive[st[k]] for k in ("p", "l", "f") if k in st}}
        if real["op"] == "share" and h.objs[real["p"]]["kind"] != "schema":
            continue
        if real["op"] == "resolve" and (h.objs[real["l"]]["kind"] != "lazy" or h.objs[real["f"]]["kind"] != "schema"):
            continue
        before = len(h.objs)
        parent_keys = list(h.objs[real["p"]]["keys"]) if real["op"] == "derive" else None
        err = h.step(real)
        if len(h.objs) > before:
            alive[gi] = before
        kept.append(real)
        records.append({"err": err, "parent_keys": parent_keys,
                        "objs": [h.observe_obj(o) for o in h.objs],
                        "meta": [{"kind": o["kind"], "via": o["via"], "pool": o["pool"]} for o in h.objs]})
    # at the end: the cached `statistic` property of every schema, and all generators consumed in lock-step
    final = {"cached": [stat_of(o["obj"]) if o["kind"] == "schema" else None for o in h.objs],
             "interleaved": interleaved_labels([o["obj"] for o in h.objs if o["kind"] == "schema"])}
    return h, kept, records, final


def interleaved_labels(schemas):
    """get_all_operations of several schemas consumed round-robin (they share `_should_skip`'s default `_ctx_cache`)"""
    gens = [iter(s.get_all_operations()) for s in schemas]
    out = [[] for _ in schemas]
    live = list(range(len(gens)))
    while live:
        for i in list(live):
            try:
                r = next(gens[i])
            except StopIteration:
                live.remove(i)
                continue
            out[i].append(r.ok().label if isinstance(r, Ok) else "ERR")
    return out


def step_kind(st):
    if st["op"] == "derive":
        return "include" if st["call"]["inc"] else "exclude"
    return st["op"]


def run_histories(chk, case: Case, histories, mechanism, reg, variants):
    preds = case.world.preds
    sv, lv = variants["statistic"], variants["lazy"]
    realised = [realise_history(case, steps, preds) for steps in histories]
    wires = [[wire_step(st, reg) for st in kept] for _, kept, _, _ in realised]
    rx = reg.tables(case.world.strings())
    models = []
    for i in range(0, len(wires), 400):
        res = chk.driver().batch([("history", {"rx": rx, "ops": case.ops, "roots": HIST_ROOTS, "variant": lv,
                                               "gql": case.gql, "histories": wires[i:i + 400]})])[0]
        if isinstance(res, dict) and "__err__" in res:
            raise InfraError(f"model error {res} on document {case.name}")
        models.extend(res)
    total = len(case.facts)
    for (h, kept, records, final), wire, model in zip(realised, wires, models):
        replay = {**case.replay_base(), "history": kept}
        key = {"doc": case.name, "history": wire}
        multi = sum(1 for r in records if r["err"] is None) >= 2
        chk.case(mechanism, key=key, nontrivial=multi,
                 sample={"doc": case.name, "history": wire, "final": [o["all"] for o in records[-1]["objs"]] if records else []})
        chk.feature(f"{mechanism}:steps={len(kept)}")
        settled = {}  # object index -> True once it has been seen offering its own selection
        stop = False
        for t, (st, rec, m) in enumerate(zip(kept, records, model)):
            kind = step_kind(st)
            chk.feature(f"history:step:{kind}:{'refused' if rec['err'] else 'accepted'}")
            if st["op"] == "derive" and rec["err"] is None and any(
                    s2.get("p") == st["p"] and s2["op"] == "derive" for s2 in kept[:t]):
                chk.feature("history:parent-derived-from-more-than-once")
            here = {**replay, "step": t}
            compare(chk, "history:refusal", here, m["err"], rec["err"])
            # the refusal: Lean value semantics vs the independent reading of the rules, then the implementation
            if st["op"] == "derive":
                want = oracle_refusal(rec["parent_keys"], st["call"])
                if want != m["spec_err"]:
                    raise InfraError(f"Lean value semantics and Python oracle disagree on the refusal of step {t} of "
                                     f"{wire} ({case.name}): {m['spec_err']} vs {want}")
                if rec["err"] != want:
                    chk.violation(f"C07:history:{kind}:call-judged-against-filters-the-parent-does-not-have",
                                  f"step {t} ({kind} on object {st['p']}) was "
                                  f"{'refused with ' + rec['err'] if rec['err'] else 'accepted'}; the parent's own "
                                  f"filters prescribe {want or 'acceptance'}", {**here, "impl": rec["err"], "expected": want})
                    stop = True
            if st["op"] == "adopt" and rec["err"] != m["spec_err"]:
                chk.violation("C07:history:adopt:options-judged-against-filters-of-another-run",
                              f"step {t} (command-line options {st['cli']}) was "
                              f"{'refused with ' + rec['err'] if rec['err'] else 'accepted'}; on their own the options "
                              f"prescribe {m['spec_err'] or 'acceptance'}", {**here, "impl": rec["err"], "expected": m["spec_err"]})
                stop = True
            if len(m["objs"]) != len(rec["objs"]):
                compare(chk, "history:objects", here, len(m["objs"]), len(rec["objs"]))
                break
            compare(chk, "history:get_all_operations", here, [o["all"] for o in m["objs"]], [o["all"] for o in rec["objs"]])
            compare(chk, "history:_measure_statistic", here, [o[f"stat_{sv}"] for o in m["objs"]],
                    [o["stat"] for o in rec["objs"]])
            # ---- replay: every object created so far must offer what ITS OWN filters select --------------------------
            for i, (obs, meta, mo, spec) in enumerate(zip(rec["objs"], rec["meta"], m["objs"], m["spec"])):
                inc, exc = meta["pool"]
                expected = [f["name"] for f in case.facts if G.oracle_selected(inc, exc, f)]
                if expected != spec:
                    raise InfraError(f"Lean value semantics and Python oracle disagree on object {i} after step {t} of "
                                     f"{wire} ({case.name}): {spec} vs {expected}")
                if obs["all"] != expected:
                    if lv == "asFound" and obs["all"] == mo["all"] and meta["via"] == "resolve":
                        sig = KF_LAZY
                    elif settled.get(i):
                        sig = f"C07:history:{kind}:changed-what-an-existing-{meta['kind']}-selects"
                    else:
                        sig = f"C07:history:{kind}:new-object-offered-differs-from-selection"
                    chk.violation(sig, f"after step {t} ({kind}) object {i} ({meta['kind']}, created by {meta['via']}) "
                                       f"offers {obs['all']}; its own filters select {expected}",
                                  {**here, "object": i, "impl": obs["all"], "expected": expected})
                    stop = sig != KF_LAZY
                elif obs["stat"][:2] != [total, len(expected)]:
                    explained = obs["stat"] == mo["stat_asFound"] and mo["stat_repaired"][:2] == [total, len(expected)]
                    chk.violation(KF_STAT if explained else "C07:history:statistic-differs-from-offered",
                                  f"after step {t} object {i} reports {obs['stat'][1]}/{obs['stat'][0]} operations but "
                                  f"{len(expected)}/{total} are selected and offered",
                                  {**here, "object": i, "impl": obs["stat"], "expected": [total, len(expected)]})
                    stop = not explained
                else:
                    settled[i] = True
                if stop:
                    break
            if stop:
                break
        if stop or not records or len(model) != len(records) or len(model[-1]["objs"]) != len(records[-1]["objs"]):
            continue
        # ---- end of the history: cached statistic, lock-step iteration ------------------------------------------------
        last, metas = model[-1], records[-1]["meta"]
        here = {**replay, "step": len(kept) - 1}
        m_cached = [o[f"stat_{sv}"] if mt["kind"] == "schema" else None for o, mt in zip(last["objs"], metas)]
        compare(chk, "history:statistic(cached)", here, m_cached, final["cached"])
        m_inter = [o["all"] for o, mt in zip(last["objs"], metas) if mt["kind"] == "schema"]
        compare(chk, "history:get_all_operations(lock-step)", here, m_inter, final["interleaved"])
        specs = [sp for sp, mt in zip(last["spec"], metas) if mt["kind"] == "schema"]
        for j, (got, want) in enumerate(zip(final["interleaved"], specs)):
            if got != want:
                chk.violation("C07:history:lock-step-iteration-offered-differs-from-selection",
                              f"consuming get_all_operations of all schemas in lock-step, schema #{j} offers {got}; its "
                              f"filters select {want}", {**here, "impl": got, "expected": want})
        for i, (got, sp, mt, mo) in enumerate(zip(final["cached"], last["spec"], metas, last["objs"])):
            if got is not None and got[:2] != [total, len(sp)]:
                explained = got == mo["stat_asFound"] and mo["stat_repaired"][:2] == [total, len(sp)]
                chk.violation(KF_STAT if explained else "C07:history:cached-statistic-differs-from-offered",
                              f"schema.statistic of object {i} reports {got[1]}/{got[0]}; {len(sp)}/{total} are selected",
                              {**here, "object": i, "impl": got, "expected": [total, len(sp)]})


# the shapes named in the property text, as fixed histories (run on every designed document)
def designed_histories():
    c = G.call
    d = lambda p, call: {"op": "derive", "p": p, "call": call}
    return [
        # derive, derive again from the first, keep using the first (include side / exclude side)
        [d(0, c(True, tag="x")), d(2, c(True, tag="y")), d(2, c(True, method="post"))],
        [d(0, c(False, tag="x")), d(2, c(False, method=["POST", "DELETE"])), d(2, c(False, True))],
        # siblings from one filtered parent; a repeated call on the sibling must be judged against the parent only
        [d(0, c(True, path="/a")), d(2, c(True, path_regex="b$")), d(2, c(True, path_regex="b$")), d(3, c(False, method="get"))],
        # lazy chains and resolution against filtered fixtures, the lazy objects being reused afterwards
        [d(1, c(True, path_regex="^/a")), d(2, c(True, path_regex="b$")), {"op": "resolve", "l": 2, "f": 0},
         d(0, c(False, method="DELETE")), {"op": "resolve", "l": 2, "f": 5}, d(2, c(False, tag="y")),
         {"op": "resolve", "l": 2, "f": 5}],
        [d(1, c(False, func="dep")), d(2, c(False, tag="x")), {"op": "resolve", "l": 3, "f": 0}, d(2, c(False, tag="y")),
         {"op": "resolve", "l": 2, "f": 0}],
        # clones / parametrize handles share the FilterSet object; deriving from either must not touch the other
        [d(0, c(True, method="get")), {"op": "share", "p": 2, "how": "parametrize"}, d(3, c(True, method="post")),
         {"op": "share", "p": 2, "how": "clone"}, d(2, c(True, method="delete")), d(5, c(False, path="/a"))],
        # a refused second half of exclude(func, deprecated=True) after its first half was added to the clone
        [d(0, c(False, func=0)), d(2, c(False, True, func=0)), d(2, c(False, func="dep")), d(2, c(False, True, func=1))],
        [d(0, c(False, func="dep")), d(2, c(False, True, func=0)), d(2, c(False, tag="x"))],
        # several command-line runs in one process: each builds its own FilterSet; then the Python API on top of one
        [{"op": "adopt", "cli": {"include_tag": ["x"], "exclude_deprecated": False}},
         {"op": "adopt", "cli": {"include_method": ["post"], "exclude_deprecated": True}},
         d(2, c(True, path="/b")), {"op": "adopt", "cli": {"include_tag": ["x"], "exclude_deprecated": False}},
         d(3, c(False, tag="y")), {"op": "adopt", "cli": {"exclude_path_regex": "b$", "exclude_deprecated": True}}],
    ]


# ---- command line ----------------------------------------------------------------------------------------------------

CLI_VALUES = {"path": ["/a", "/b", "/c"], "method": ["GET", "get", "post", "DELETE"], "name": ["GET /a", "POST /b", "DELETE /a"],
              "tag": ["x", "y"], "operation_id": ["getA", "delA", "postB"]}
CLI_REGEX = {"path": ["^/a", "b$"], "method": ["^(get|post)$", "DEL"], "name": ["^POST "], "tag": ["^y"],
             "operation_id": ["^get"]}
CLI_EXPR = [1, 2, 3]  # predicate numbers that are --include-by / --exclude-by expressions


def random_cli(rng):
    a = {}
    for mode in ("include", "exclude"):
        for attr in G.ATTRS:
            if rng.random() < 0.22:
                vals = rng.sample(CLI_VALUES[attr], rng.choice([1, 1, 2]))
                if rng.random() < 0.06:
                    vals.append(vals[0])
                a[f"{mode}_{attr}"] = vals
            if rng.random() < 0.15:
                a[f"{mode}_{attr}_regex"] = rng.choice(CLI_REGEX[attr])
        if rng.random() < 0.15:
            a[f"{mode}_by"] = rng.choice(CLI_EXPR)
    a["exclude_deprecated"] = rng.random() < 0.2
    return a


def cli_conjs(a):
    inc, exc = [], []
    if a.get("include_by") is not None:
        inc.append([("pred", a["include_by"])])
    for attr in G.ATTRS:
        inc += [[("is", attr, v)] for v in a.get(f"include_{attr}", [])]
    rxs = [("matches", attr, a[f"include_{attr}_regex"]) for attr in G.ATTRS if a.get(f"include_{attr}_regex")]
    if rxs:
        inc.append(rxs)
    if a.get("exclude_by") is not None:
        exc.append([("pred", a["exclude_by"])])
    for attr in G.ATTRS:
        exc += [[("is", attr, v)] for v in a.get(f"exclude_{attr}", [])]
    exc += [[("matches", attr, a[f"exclude_{attr}_regex"])] for attr in G.ATTRS if a.get(f"exclude_{attr}_regex")]
    if a.get("exclude_deprecated"):
        exc.append([("deprecated",)])
    return inc, exc


def cli_run(chk, case: Case, argsets, reg, variants):
    import click
    from schemathesis.cli.commands.run import filters as cli_filters

    preds = case.world.preds
    exprs = {1: "/x-internal == true", 2: '/parameters/0/name == "id"', 3: "/deprecated != true"}
    wires = []
    for a in argsets:
        w = {}
        for k, v in a.items():
            if k.endswith("_regex"):
                w[k] = reg.id(k.split("_", 1)[1][:-6], v)
            elif k == "exclude_by":
                # --include-by and --exclude-by closures are distinct objects even for the same expression text:
                # the exclude side reads a second copy of the predicate columns
                w[k] = v + len(preds)
            else:
                w[k] = v
        wires.append(w)
    rx = reg.tables(case.world.strings())
    ops2 = [{**o, "raw": {**o["raw"], "fns": o["raw"]["fns"] * 2}, "res": {**o["res"], "fns": o["res"]["fns"] * 2}}
            for o in case.ops]
    models = chk.driver().batch([("cli", {"rx": rx, "ops": ops2, "args": wires})])[0]
    if isinstance(models, dict):
        raise InfraError(f"model error {models}")
    sv = variants["statistic"]
    for a, w, m in zip(argsets, wires, models):
        kwargs = {}
        for mode in ("include", "exclude"):
            for attr in G.ATTRS:
                kwargs[f"{mode}_{attr}"] = tuple(a.get(f"{mode}_{attr}", ()))
                kwargs[f"{mode}_{attr}_regex"] = a.get(f"{mode}_{attr}_regex")
            kwargs[f"{mode}_by"] = exprs.get(a.get(f"{mode}_by"))
        kwargs["exclude_deprecated"] = a["exclude_deprecated"]
        try:
            fs = cli_filters.FilterArguments(**kwargs).into()
            build = "ok"
        except (click.UsageError, IncorrectUsage) as exc:
            build = _err_class(exc)
        replay = {"doc": case.raw, "doc_name": case.name, "cli": a}
        chk.case("cli", key={"doc": case.name, "cli": w}, nontrivial=True, sample={"cli": a, "build": build})
        chk.feature(f"cli:build={build}")
        compare(chk, "cli:FilterArguments.into", replay, m["build"], build)
        if build != m["build"]:
            continue
        if build != "ok":
            continue
        schema = case.base.clone()
        schema.filter_set = fs  # as cli/commands/run/executor.py does
        impl_all, impl_stat = labels_of(schema), stat_of(schema)
        # the expression closures are fresh objects: evaluate them through the oracle's predicate numbers
        inc, exc = cli_conjs(a)
        expected = [f["name"] for f in case.facts if G.oracle_selected(inc, exc, f)]
        if expected != m["spec"]:
            raise InfraError(f"Lean CLI specification and Python oracle disagree on {case.name} {a}: {m['spec']} vs {expected}")
        compare(chk, "cli:get_all_operations", replay, m["all"], impl_all)
        compare(chk, "cli:_measure_statistic", replay, m[f"stat_{sv}"], impl_stat)
        if impl_all != expected:
            chk.violation("C07:cli:offered-differs-from-documented-option-meaning",
                          f"with options {a} the run offers {impl_all}; the documented meaning selects {expected}",
                          {**replay, "impl": impl_all, "expected": expected})
        if impl_stat[:2] != [len(case.facts), len(expected)]:
            explained = impl_stat == m["stat_asFound"] and m["stat_repaired"][:2] == [len(case.facts), len(expected)] \
                and impl_all == expected
            chk.violation(KF_STAT if explained else "C07:statistic:operation-count-differs-from-offered",
                          f"statistic reports {impl_stat[1]}/{impl_stat[0]} but {len(expected)}/{len(case.facts)} are offered",
                          {**replay, "impl": impl_stat, "expected": [len(case.facts), len(expected)]})


# ---- GraphQL ---------------------------------------------------------------------------------------------------------

GQL_SDL = """
type Query { getBooks: [String!]! getAuthors: [String!]! book(id: Int!): String }
type Mutation { addBook(title: String!): String! addAuthor(name: String!): String! }
"""
GQL_ATOMS = [("name", "Query.getBooks"), ("name", ["Query.book", "Mutation.addBook"]), ("name_regex", "^Query\\."),
             ("name_regex", "Author"), ("name", "Mutation.nothing"), ("name_regex", "^add")]


class GqlCase:
    """The GraphQL schema in the shape `run_histories` needs (facts for the oracle, wire ops for the model)."""

    gql = True
    name = "graphql"

    def __init__(self):
        from types import SimpleNamespace

        base = schemathesis.graphql.from_file(GQL_SDL)
        names = [r.ok().label for r in base.get_all_operations()]
        view = {"tags": None, "opid": None, "dep": False, "fns": []}
        self.raw = GQL_SDL
        self.ops = [{"m": "POST", "p": "", "label": n, "raw": view, "res": view, "links": [], "body": False, "pp": False}
                    for n in names]
        self.facts = [{"name": n, "method": "POST", "path": "", "tags": None, "operation_id": None, "deprecated": False,
                       "preds": [], "links": []} for n in names]
        self.world = SimpleNamespace(preds=[], strings=lambda: {"name": set(names)})

    def load(self):
        return schemathesis.graphql.from_file(GQL_SDL)

    def replay_base(self):
        return {"graphql": GQL_SDL}


def gql_random_call(rng, inc):
    kw = dict([rng.choice(GQL_ATOMS)])
    if rng.random() < 0.05:
        kw = {"name": "Query.book", "name_regex": "book"}
    if rng.random() < 0.03:
        kw = {}
    return G.call(inc, False, **kw)


def graphql_run(chk, reg):
    base = schemathesis.graphql.from_file(GQL_SDL)
    names = [r.ok().label for r in base.get_all_operations()]
    ops = [{"m": "POST", "p": "", "label": n, "raw": {"tags": None, "opid": None, "dep": False, "fns": []},
            "res": {"tags": None, "opid": None, "dep": False, "fns": []}, "links": [], "body": False, "pp": False}
           for n in names]
    programs = []
    singles_i = [atom_call(True, a) for a in GQL_ATOMS]
    singles_e = [atom_call(False, a) for a in GQL_ATOMS]
    for i in range(3):
        for e in range(3):
            for ci in itertools.combinations(singles_i, i):
                for ce in itertools.combinations(singles_e, e):
                    programs.append({"calls": list(ci) + list(ce)})
    wires = [{"calls": [G.wire_call(c, reg) for c in p["calls"]]} for p in programs]
    rx = reg.tables({"name": set(names)})
    models = chk.driver().batch([("run", {"rx": rx, "ops": ops, "gql": True, "programs": wires})])[0]
    if isinstance(models, dict):
        raise InfraError(f"model error {models}")
    for p, w, m in zip(programs, wires, models):
        schema, st = apply_calls(base, p["calls"], [])
        replay = {"graphql": GQL_SDL, "program": p}
        chk.case("graphql", key=w, nontrivial=st == "ok", sample={"program": w, "build": st})
        compare(chk, "graphql:_add_filter", replay, m["build"], st)
        if st != m["build"]:
            continue
        if st != "ok":
            continue
        impl_all = labels_of(schema)
        s = schema.statistic
        impl_stat = [s.operations.total, s.operations.selected]
        inc, exc = G.program_conjs(p["calls"])
        expected = [n for n in names if G.oracle_selected(inc, exc, {"name": n, "method": "POST", "path": "", "tags": None,
                                                                     "operation_id": None, "deprecated": False, "preds": []})]
        if expected != m["spec"]:
            raise InfraError(f"Lean GraphQL specification and Python oracle disagree on {w}")
        compare(chk, "graphql:get_all_operations", replay, m["all"], impl_all)
        compare(chk, "graphql:_measure_statistic", replay, m["stat"], impl_stat)
        if impl_all != expected:
            chk.violation("C07:graphql:offered-differs-from-selection",
                          f"GraphQL schema offers {impl_all}; the name filters select {expected}",
                          {**replay, "impl": impl_all, "expected": expected})
        if impl_stat != [len(names), len(expected)]:
            chk.violation("C07:graphql:statistic-differs-from-offered",
                          f"GraphQL statistic {impl_stat} but {len(expected)}/{len(names)} offered",
                          {**replay, "impl": impl_stat, "expected": [len(names), len(expected)]})


# ---- run -------------------------------------------------------------------------------------------------------------

def check_tables(chk):
    from schemathesis.specs.openapi.schemas import HTTP_METHODS

    model = chk.driver().one("tables", None)["http_methods"]
    chk.case("tables", key="HTTP_METHODS", nontrivial=True, sample={"model": model})
    compare(chk, "tables:HTTP_METHODS", "HTTP_METHODS", sorted(model), sorted(HTTP_METHODS))
    if sorted(HTTP_METHODS) != sorted(G.HTTP):
        chk.violation("C07:HTTP_METHODS:differs-from-openapi-operation-fields",
                      f"HTTP_METHODS = {sorted(HTTP_METHODS)} is not the set of Open API operation fields",
                      {"impl": sorted(HTTP_METHODS), "expected": sorted(G.HTTP)})


def coverage_targets_mixed_case(chk):
    """finding FC07a (fixed): a path item whose method keys are written in upper case.  The operation is offered (and can be
    excluded) like any other; the coverage cases of its siblings must not reach it as an 'unspecified method'."""
    raw = {"openapi": "3.0.2", "info": {"title": "t", "version": "1"}, "paths": {"/a": {
        "GET": {"responses": {"200": {"description": "ok"}}}, "delete": {"responses": {"200": {"description": "ok"}}},
        "Post": {"responses": {"200": {"description": "ok"}}}}}}
    for excl in (None, "GET", "POST"):
        schema = schemathesis.openapi.from_dict(raw)
        if excl:
            schema = schema.exclude(method=excl)
        offered = labels_of(schema)
        for label, targets in coverage_targets(schema):
            chk.case("coverage-targets:mixed-case-method-keys", key=[excl, label], nontrivial=True, sample={"excluded": excl, "op": label, "targets": targets})
            for t in targets:
                if t != label and t.split(" ")[0] in ("GET", "DELETE", "POST"):
                    chk.violation("C07:coverage:request-to-a-documented-operation-other-than-the-one-under-test",
                                  f"the coverage cases built for {label} include a request {t}: the path item documents it "
                                  f"(method key in upper / mixed case); offered operations: {offered}",
                                  {"doc": raw, "excluded_method": excl, "operation": label, "target": t})


def run(chk):
    rng = chk.rng
    preds = G.make_preds()
    reg = G.RegexRegistry()
    docs = G.designed_docs()
    cases = {k: Case(k, v, preds) for k, v in docs.items()}
    variants = detect_variants(chk, cases["A"])
    chk.variants.update({"pytest.lazy.get_schema": variants["lazy"], "_measure_statistic": variants["statistic"]})
    check_tables(chk)
    coverage_targets_mixed_case(chk)
    # 1. corpus: witnesses of the known findings and minimised past disagreements run first
    judge(chk, cases["A"], [WITNESS_LAZY, WITNESS_STAT], "witness", reg, variants)
    for f in sorted((ROOT / "corpus" / "C07").glob("*.json")):
        entry = json.loads(f.read_text())
        judge(chk, Case(f.stem, entry["doc"], preds), [entry["program"]], "corpus", reg, variants)
    # 2. exhaustive small scope: every filter set of <=1 include and <=1 exclude single-criterion filters, every document
    small = list(exhaustive_programs(1, 1))
    for k, c in cases.items():
        judge(chk, c, small, "exhaustive-1x1", reg, variants)
    n_ex = len(small) * len(cases)
    if chk.thorough:
        big = list(exhaustive_programs(2, 2))
        judge(chk, cases["A"], big, "exhaustive-2x2", reg, variants)
        mid = list(exhaustive_programs(2, 1)) + list(exhaustive_programs(1, 2))
        for k in ("B", "C", "D"):
            judge(chk, cases[k], mid, "exhaustive-2x1", reg, variants)
        n_ex += len(big) + 3 * len(mid)
    else:
        sample = rng.sample(list(exhaustive_programs(2, 2)), 900)
        judge(chk, cases["A"], sample, "sampled-2x2", reg, variants)
    # 3. random programs (multi-criterion filters, deprecated flag, error shapes) on designed and random documents
    n_docs = chk.budget(20, 250)
    per_doc = chk.budget(60, 150)
    for k, c in cases.items():
        judge(chk, c, [random_program(rng) for _ in range(chk.budget(300, 2500))], "random", reg, variants)
    for i in range(n_docs):
        raw = G.random_doc(rng, preds)
        c = Case(f"random{i}", raw, preds)
        judge(chk, c, [random_program(rng) for _ in range(per_doc)], "random-doc", reg, variants)
    # 4. lazy fixtures
    for k, c in cases.items():
        judge(chk, c, [random_program(rng, lazy=True) for _ in range(chk.budget(250, 2500))], "lazy", reg, variants,
              machine=False)
    singles = [[]] + [[atom_call(True, a)] for a in G.ATOMS[::3]] + [[atom_call(False, a)] for a in G.ATOMS[1::3]]
    lz = [{"calls": a, "lazy": b} for a in singles for b in singles]
    judge(chk, cases["A"], lz, "lazy-pairs", reg, variants, machine=False)
    # 4b. derivation histories: every object observed after every step (parents after their children were derived,
    #     siblings, clones / parametrize handles, lazy chains resolved against filtered fixtures, refused calls)
    import time

    t_hist = time.time()
    n_hist = 0
    for k, c in cases.items():
        hs = designed_histories() + [random_history(rng) for _ in range(chk.budget(100, 600))]
        run_histories(chk, c, hs, "history", reg, variants)
        n_hist += len(hs)
    for i in range(chk.budget(3, 25)):
        c = Case(f"hrandom{i}", G.random_doc(rng, preds), preds)
        hs = [random_history(rng) for _ in range(chk.budget(30, 40))]
        run_histories(chk, c, hs, "history-random-doc", reg, variants)
        n_hist += len(hs)
    gq = GqlCase()
    gql_designed = [[{**st, "call": G.call(st["call"]["inc"], False, **dict([GQL_ATOMS[j % len(GQL_ATOMS)]]))}
                     if st["op"] == "derive" else st for j, st in enumerate(h)] for h in designed_histories()
                    if not any(st["op"] == "adopt" for st in h)]
    hs = gql_designed + [random_history(rng, gql_random_call, adopt=False) for _ in range(chk.budget(50, 300))]
    run_histories(chk, gq, hs, "history-graphql", reg, variants)
    n_hist += len(hs)
    chk.notes.append(f"derivation histories: {n_hist} histories of 3-7 steps over 2 roots, every object observed after "
                     f"every step, {time.time() - t_hist:.1f}s")
    # 5. command line
    for k, c in cases.items():
        cli_run(chk, c, [random_cli(rng) for _ in range(chk.budget(300, 5000))], reg, variants)
    # 6. GraphQL (name filters only, as documented)
    graphql_run(chk, reg)
    if chk.thorough:
        end_to_end(chk, cases, preds, variants)
    chk.exhaustive = False
    chk.notes.append(f"exhaustive scopes: {n_ex} (document, filter set) pairs; atoms = {len(G.ATOMS)} + deprecated flag")
    chk.assumptions += [
        "documents are well-formed: every path item resolves, responses are present, operationIds are unique, method "
        "keys are ASCII; upper-case keys such as 'GET' are not Open API operation fields (code and oracle agree)",
        "regular expressions and user predicates are opaque: `re` decides them for model, oracle and code alike "
        "(HTTP methods case-insensitively)",
        "Python set iteration order of FilterSet._includes/_excludes is unobservable (any/all of pure predicates)",
        "string hashes of distinct matcher labels do not collide",
    ]
    chk.trusted += ["harness/gens/c07_docs.py: own $ref resolver, JSON-pointer walker, reading of facts and links from the "
                    "raw document, Python selection oracle"]
    chk.proved += [
        "match_spec: FilterSet.match = (no includes or some include filter holds) and no exclude filter holds",
        "stored_matcher_meaning / call_meaning / call_errors: every matcher kind (value, list, regex, deprecated, "
        "predicate on name/method/path/tag/operationId) means its criterion; one call = one conjunctive filter; the "
        "three refusals of _add_filter are exact",
        "reachable_filter_sets_normalised + match_is_selection + iteration_agrees + offered_iff_selected: for every "
        "filter set the API can build, get_all_operations offers exactly the selected operations, in order",
        "shouldSkip_spec: the is_empty shortcut of _should_skip is sound; non-operation keys are always skipped",
        "statistic_operations_repaired, statistic_links_agree: selected/total operation and link counts equal what is "
        "offered / the number of state-machine transitions (repaired statistic; distinct keys and operationIds)",
        "no_transition_for_excluded, transitions_complete, no_rule_for_excluded: state-machine transitions and rules "
        "join offered operations only, and all links between offered operations are present",
        "cli_into_spec: FilterArguments.into denotes the documented meaning of the command-line options",
        "lazy_repaired, lazy_repaired_respects_fixture_excludes: pooled filter sets give the full statement",
        "graphql_agrees: GraphQL iteration and statistic agree with the selection rule",
        "exclude_only_shrinks: an added exclusion never adds an operation",
        "history_refines_values, history_refusals_agree: with FilterSet._includes/_excludes as mutable set objects in a "
        "heap (FilterSet.__init__'s `arg or set()`, clone, merge, in-place _add_filter), after ANY history of "
        "include/exclude on any schema or lazy schema, clone()/parametrize(), get_schema and command-line runs, every "
        "object's sets hold exactly its own immutable filter set, and every call is refused exactly when its parent's "
        "own filters prescribe it",
        "derivation_never_changes_existing, later_derivations_do_not_change_offered: no later step (deriving from it, "
        "from a sibling, refused or half-refused calls, sharing, resolving) changes what an existing schema offers, "
        "reports or wires",
        "history_objects_offer_selected, history_values_append_only: every object of every history is in normal form and "
        "offers exactly the operations the selection rule selects for its own filters",
        "cli_into_in_place: FilterArguments.into fills a FilterSet of its own in place and touches no existing object",
    ]
    chk.partial += [
        "statistic_operations_partial (+ statistic_operations_full_false): as found, the operation counts are right only "
        "when filters give the same verdict on the unresolved and the resolved definition (F29b)",
        "lazy_partial (+ lazy_full_false): as found, a lazy fixture honours the selection only when the fixture's schema "
        "has no filters of its own (F29)",
        "link theorems assume distinct operationIds and resolvable link targets; path-item / operation level schema "
        "errors (Err results) are outside the model",
        "_ctx_cache of _should_skip is shared mutable state: concurrent calls from several threads are not modelled "
        "(interleaved consumption of several schemas' get_all_operations generators in one thread is exercised)",
        "heap model: a FilterSet object is identified with its pair of set objects (its two slots are never rebound); "
        "direct in-place use of schema.filter_set.include(...) by user code is outside the history language",
    ]
    chk.sampled_only += [
        "GraphQL: only name filters (as documented) are exercised against the real schema (single filter sets and "
        "derivation histories)",
        "requests actually received by the API under test per engine phase (thorough tier: loopback server, "
        "max_examples=4; also for schemas in the middle of a derivation history and through the command line's "
        "into_event_stream with its reported selected/total) and a real pytest session for lazy fixtures and schemas "
        "from which further objects were derived (thorough tier)",
        "derivation histories are sampled (3-7 steps, 2 roots) plus nine designed shapes per document; the theorem "
        "covers all lengths",
        "regular-expression and expression/user-function matchers are opaque in the model; their truth tables come from "
        "`re` and the harness' own JSON-pointer walker",
    ]


def _template_regex(path):
    import re

    return re.compile("^" + re.sub(r"\\\{[^/]+?\\\}", "[^/]+", re.escape(path)) + "$")


class RecordingApp:
    """WSGI app serving the document and recording every other request."""

    def __init__(self, raw):
        self.raw, self.log = raw, []

    def __call__(self, environ, start_response):
        path, method = environ["PATH_INFO"], environ["REQUEST_METHOD"]
        n = int(environ.get("CONTENT_LENGTH") or 0)
        if n:
            environ["wsgi.input"].read(n)
        if path == "/openapi.json":
            body = json.dumps(self.raw).encode()
        else:
            self.log.append((method, path))
            body = b"{}"
        start_response("200 OK", [("Content-Type", "application/json"), ("Content-Length", str(len(body)))])
        return [body]


def engine_requests(chk, case: Case, programs, preds, histories=None):
    """Run the real engine, one phase at a time, against a loopback server; judge which operations got requests."""
    import threading
    from wsgiref.simple_server import WSGIRequestHandler, make_server

    import hypothesis
    from schemathesis.engine import from_schema
    from schemathesis.engine.config import EngineConfig, ExecutionConfig
    from schemathesis.engine.phases import PhaseName
    from schemathesis.generation import GenerationConfig, GenerationMode

    class Quiet(WSGIRequestHandler):
        def log_message(self, *a):
            pass

    app = RecordingApp(case.raw)
    srv = make_server("127.0.0.1", 0, app, handler_class=Quiet)
    th = threading.Thread(target=srv.serve_forever, daemon=True)
    th.start()
    try:
        base = schemathesis.openapi.from_url(f"http://127.0.0.1:{srv.server_port}/openapi.json")
        templates = {}
        for f in case.facts:
            templates.setdefault(f["path"], (_template_regex(f["path"]), set()))[1].add(f["method"])
        all_phases = (PhaseName.PROBING, PhaseName.EXAMPLES, PhaseName.COVERAGE, PhaseName.FUZZING,
                      PhaseName.STATEFUL_TESTING)
        targets = []
        for p in programs:
            schema, st = apply_calls(base, p["calls"], preds)
            if schema is None:
                continue
            targets.append((schema, oracle_offered(case, p["calls"]), p, all_phases))
        # schemas in the middle of a derivation history: the engine runs on a parent AFTER children were derived from it
        for steps in histories or ():
            h, kept, records, _ = realise_history(case, steps, preds, root=base)
            parents = sorted({st["p"] for st in kept if st["op"] == "derive"} - {0, 1})
            for i in parents:
                o = h.objs[i] if i < len(h.objs) else None
                if o is None or o["kind"] != "schema":
                    continue
                inc, exc = o["pool"]
                expected = [f["name"] for f in case.facts if G.oracle_selected(inc, exc, f)]
                targets.append((o["obj"], expected, {"history": kept, "object": i},
                                (PhaseName.FUZZING, PhaseName.STATEFUL_TESTING)))
        for schema, expected, p, phases in targets:
            for phase in phases:
                app.log.clear()
                cfg = EngineConfig(execution=ExecutionConfig(
                    phases=[phase], seed=chk.seed,
                    generation=GenerationConfig(modes=[GenerationMode.POSITIVE, GenerationMode.NEGATIVE]),
                    hypothesis_settings=hypothesis.settings(max_examples=4, deadline=None, database=None,
                                                            derandomize=True, stateful_step_count=4)))
                schema.generation_config = cfg.execution.generation
                for _ in from_schema(schema, config=cfg).execute():
                    pass
                hit = set()
                for method, path in list(app.log):
                    for tpl, (rx, methods) in templates.items():
                        if rx.match(path) and method.lower() in methods:
                            hit.add(f"{method.upper()} {tpl}")
                replay = {"doc": case.raw, "doc_name": case.name, **({"program": p} if "calls" in p else p),
                          "phase": phase.value}
                chk.case("engine" if "calls" in p else "engine-history",
                         key={"doc": case.name, "program": p.get("calls", p), "phase": phase.value},
                         nontrivial=bool(hit), sample={"phase": phase.value, "hit": sorted(hit), "expected": expected})
                chk.feature(f"engine:{phase.value}:operations-hit={len(hit)}")
                stray = sorted(hit - set(expected))
                where = "engine" if "calls" in p else "engine-after-later-derivations"
                if stray:
                    chk.violation(f"C07:{where}:request-sent-to-unselected-operation:{phase.value}",
                                  f"phase {phase.value} sent requests to {stray}, which the filters do not select",
                                  {**replay, "impl": sorted(hit), "expected": expected})
                if phase == PhaseName.FUZZING and set(expected) - hit:
                    chk.violation(f"C07:{where}:selected-operation-not-exercised:Fuzzing",
                                  f"selected operations {sorted(set(expected) - hit)} received no request in the fuzzing phase",
                                  {**replay, "impl": sorted(hit), "expected": expected})
    finally:
        srv.shutdown()
        th.join(timeout=10)
        srv.server_close()


def cli_event_stream(chk, case: Case, argsets):
    """The command-line path end to end: FilterArguments.into -> RunConfig -> into_event_stream (which assigns the
    filter set to the loaded schema, reports its statistic and runs the engine) against a recording loopback server."""
    import threading
    from wsgiref.simple_server import WSGIRequestHandler, make_server

    import click
    import hypothesis
    from schemathesis.cli.commands.run import filters as cli_filters
    from schemathesis.cli.commands.run.events import LoadingFinished
    from schemathesis.cli.commands.run.executor import RunConfig, into_event_stream
    from schemathesis.core.output import OutputConfig
    from schemathesis.engine.config import EngineConfig, ExecutionConfig
    from schemathesis.engine.phases import PhaseName

    class Quiet(WSGIRequestHandler):
        def log_message(self, *a):
            pass

    exprs = {1: "/x-internal == true", 2: '/parameters/0/name == "id"', 3: "/deprecated != true"}
    app = RecordingApp(case.raw)
    srv = make_server("127.0.0.1", 0, app, handler_class=Quiet)
    th = threading.Thread(target=srv.serve_forever, daemon=True)
    th.start()
    templates = {}
    for f in case.facts:
        templates.setdefault(f["path"], (_template_regex(f["path"]), set()))[1].add(f["method"])
    try:
        for a in argsets:
            kwargs = {}
            for mode in ("include", "exclude"):
                for attr in G.ATTRS:
                    kwargs[f"{mode}_{attr}"] = tuple(a.get(f"{mode}_{attr}", ()))
                    kwargs[f"{mode}_{attr}_regex"] = a.get(f"{mode}_{attr}_regex")
                kwargs[f"{mode}_by"] = exprs.get(a.get(f"{mode}_by"))
            kwargs["exclude_deprecated"] = a["exclude_deprecated"]
            try:
                fs = cli_filters.FilterArguments(**kwargs).into()
            except (click.UsageError, IncorrectUsage):
                continue
            inc, exc = cli_conjs(a)
            expected = [f["name"] for f in case.facts if G.oracle_selected(inc, exc, f)]
            app.log.clear()
            cfg = RunConfig(
                location=f"http://127.0.0.1:{srv.server_port}/openapi.json", base_url=None, filter_set=fs,
                engine=EngineConfig(execution=ExecutionConfig(
                    phases=[PhaseName.FUZZING, PhaseName.STATEFUL_TESTING], seed=chk.seed,
                    hypothesis_settings=hypothesis.settings(max_examples=4, deadline=None, database=None,
                                                            derandomize=True, stateful_step_count=4))),
                wait_for_schema=None, rate_limit=None, output=OutputConfig(), report=None, args=[], params={})
            reported = None
            for ev in into_event_stream(cfg):
                if isinstance(ev, LoadingFinished):
                    st = ev.statistic
                    reported = [st.operations.total, st.operations.selected]
                elif type(ev).__name__ == "FatalError":
                    raise InfraError(f"command-line event stream failed on {case.name} {a}: {ev.exception!r}")
            hit = set()
            for method, path in list(app.log):
                for tpl, (rx, methods) in templates.items():
                    if rx.match(path) and method.lower() in methods:
                        hit.add(f"{method.upper()} {tpl}")
            replay = {"doc": case.raw, "doc_name": case.name, "cli": a, "phase": "event-stream"}
            chk.case("cli-event-stream", key={"doc": case.name, "cli": a}, nontrivial=0 < len(expected) < len(case.facts),
                     sample={"cli": a, "reported": reported, "hit": sorted(hit), "expected": expected})
            if reported != [len(case.facts), len(expected)]:
                chk.violation("C07:cli:reported-selected-total-differs-from-selection",
                              f"with options {a} the run reports {reported}; {len(expected)}/{len(case.facts)} are selected",
                              {**replay, "impl": reported, "expected": [len(case.facts), len(expected)]})
            stray = sorted(hit - set(expected))
            if stray:
                chk.violation("C07:cli:request-sent-to-unselected-operation",
                              f"with options {a} requests went to {stray}, which the options do not select",
                              {**replay, "impl": sorted(hit), "expected": expected})
            if set(expected) - hit:
                chk.violation("C07:cli:selected-operation-not-exercised",
                              f"with options {a} the selected {sorted(set(expected) - hit)} received no request",
                              {**replay, "impl": sorted(hit), "expected": expected})
    finally:
        srv.shutdown()
        th.join(timeout=10)
        srv.server_close()


PYTEST_FILE = r"""
import json, os
import pytest, schemathesis
from hypothesis import settings

RAW = json.load(open(os.path.join(os.path.dirname(__file__), "doc.json")))
LOG = os.path.join(os.path.dirname(__file__), "seen.log")


def _schema():
    s = schemathesis.openapi.from_dict(RAW)
    s = s.exclude(method="DELETE")
    return s


@pytest.fixture
def api():
    return _schema()


lazy = schemathesis.pytest.from_fixture("api").include(path_regex="^/a")
direct = _schema().include(path_regex="^/a")
# derived later and not used by any test: must not change what `lazy` / `direct` select
lazy_wider = lazy.include(path_regex="b$")
direct_wider = direct.include(path_regex="b$")
lazy_narrower = lazy.exclude(method="get")
direct_narrower = direct.exclude(method="get")


@lazy.parametrize()
@settings(max_examples=1, deadline=None, database=None, derandomize=True)
def test_lazy(case):
    with open(LOG, "a") as f:
        f.write("lazy " + case.operation.label + "\n")


@direct.parametrize()
@settings(max_examples=1, deadline=None, database=None, derandomize=True)
def test_direct(case):
    with open(LOG, "a") as f:
        f.write("direct " + case.operation.label + "\n")
"""


def pytest_session(chk, case: Case):
    """A real pytest run: lazy fixture vs the same filters applied directly."""
    calls = [G.call(False, method="DELETE"), G.call(True, path_regex="^/a")]
    expected = oracle_offered(case, calls)
    with tempfile.TemporaryDirectory(prefix="c07-") as d:
        with open(os.path.join(d, "doc.json"), "w") as f:
            json.dump(case.raw, f)
        with open(os.path.join(d, "test_c07.py"), "w") as f:
            f.write(PYTEST_FILE)
        env = dict(os.environ, PYTHONDONTWRITEBYTECODE="1", HYPOTHESIS_STORAGE_DIRECTORY=os.path.join(d, ".hyp"))
        r = subprocess.run([sys.executable, "-m", "pytest", "-q", "-p", "no:cacheprovider", "-x", "test_c07.py"], cwd=d,
                           env=env, stdout=subprocess.PIPE, stderr=subprocess.STDOUT, text=True, timeout=600)
        seen = {"lazy": set(), "direct": set()}
        log = os.path.join(d, "seen.log")
        if not os.path.exists(log):
            raise InfraError(f"pytest session produced no log: {r.stdout[-1500:]}")
        for line in open(log):
            kind, label = line.rstrip("\n").split(" ", 1)
            seen[kind].add(label)
    replay = {"doc": case.raw, "doc_name": case.name, "program": {"calls": [calls[0]], "lazy": [calls[1]]}}
    for kind in ("direct", "lazy"):
        got = sorted(seen[kind])
        chk.case("pytest-session", key={"doc": case.name, "kind": kind}, nontrivial=True, sample={"kind": kind, "ran": got})
        if got != sorted(expected):
            if kind == "lazy":
                dropped_fixture = sorted(oracle_offered(case, [calls[1]]))
                sig = KF_LAZY if got == dropped_fixture else "C07:lazy:pytest-session-ran-unselected-operations"
            else:
                sig = "C07:parametrize:pytest-session-ran-unselected-operations"
            chk.violation(sig, f"pytest ({kind}) ran {got}; the filters select {sorted(expected)}",
                          {**replay, "impl": got, "expected": sorted(expected)})


def end_to_end(chk, cases, preds, variants):
    rng = chk.rng
    for k in ("A", "B", "D"):
        programs = [{"calls": []}, {"calls": [G.call(False, method="DELETE")]}, {"calls": [G.call(False, True)]},
                    {"calls": [G.call(True, tag="x"), G.call(False, func=0)]}]
        while len(programs) < 12:
            p = random_program(rng)
            if observe(cases[k].base, p["calls"], preds, machine=False)["build"] == "ok":
                programs.append(p)
        hist = designed_histories()[:3] + [random_history(rng, adopt=False) for _ in range(5)]
        engine_requests(chk, cases[k], programs, preds, histories=hist)
        cli_event_stream(chk, cases[k], [random_cli(rng) for _ in range(10)])
    pytest_session(chk, cases["A"])


def replay(chk, data):
    preds = G.make_preds()
    reg = G.RegexRegistry()
    r = data["replay"]
    print(data.get("what"))
    if "input" in r and isinstance(r["input"], dict):  # a recorded correspondence disagreement
        print("recorded model:", json.dumps(r.get("model")))
        print("recorded impl :", json.dumps(r.get("impl")))
        r = r["input"]
    if "graphql" in r and "history" not in r:
        base = schemathesis.graphql.from_file(r["graphql"])
        schema, st = apply_calls(base, r["program"]["calls"], [])
        print("program:", json.dumps(r["program"]))
        print("impl now:", st, labels_of(schema) if schema is not None else None)
        return 0
    if "doc" not in r and "history" not in r:
        print(json.dumps(r, indent=1, default=str)[:4000])
        return 0
    case = GqlCase() if "graphql" in r else Case(r.get("doc_name", "replay"), r["doc"], preds)
    variants = detect_variants(chk, Case("A", G.designed_docs()["A"], preds))
    print("variants of this tree:", variants)
    if "history" in r:
        h, kept, records, final = realise_history(case, r["history"], preds, real_indices=True)
        wire = [wire_step(st, reg) for st in kept]
        m = chk.driver().one("history", {"rx": reg.tables(case.world.strings()), "ops": case.ops, "roots": HIST_ROOTS,
                                         "variant": variants["lazy"], "gql": case.gql, "histories": [wire]})[0]
        for t, (st, rec, mm) in enumerate(zip(kept, records, m)):
            print(f"step {t}: {json.dumps(st)}")
            print(f"   impl : refusal={rec['err']} offered per object={[o['all'] for o in rec['objs']]}")
            print(f"   model: refusal={mm['err']} offered per object={[o['all'] for o in mm['objs']]}")
            print(f"   spec : refusal={mm['spec_err']} selected per object={mm['spec']}")
        print("cached statistic at the end:", final["cached"], "lock-step iteration:", final["interleaved"])
        print("recorded: step", r.get("step"), "object", r.get("object"), "impl", r.get("impl"), "expected", r.get("expected"))
        if "phase" in r:
            print("recorded engine phase:", r["phase"], "on object", r.get("object"))
    elif "program" in r:
        p = r["program"]
        print("program:", json.dumps(p))
        impl = observe(case.base, p["calls"], preds, p.get("lazy"))
        print("impl now:", json.dumps(impl))
        w = {"calls": [G.wire_call(c, reg) for c in p["calls"]]}
        if p.get("lazy") is not None:
            w["lazy"] = [G.wire_call(c, reg) for c in p["lazy"]]
        m = chk.driver().one("run", {"rx": reg.tables(case.world.strings()), "ops": case.ops, "programs": [w]})
        print("model/spec:", json.dumps(m))
        print("oracle offered:", oracle_offered(case, p["calls"]))
        if "phase" in r:
            print("recorded engine phase:", r["phase"], "operations hit:", r.get("impl"), "expected:", r.get("expected"))
    elif "cli" in r:
        chk2 = type(chk)(chk.prop, chk.tier, chk.seed)
        cli_run(chk2, case, [r["cli"]], reg, variants)
        print("cli:", json.dumps(r["cli"]))
        print("recorded impl:", r.get("impl"), "expected:", r.get("expected"))
        print("now: violations =", [(v["signature"], v["what"]) for v in chk2.violations],
              "known =", [k["signature"] for k in chk2.known_hits],
              "disagreements =", {k: v["disagreements"] for k, v in chk2.mech.items() if v["disagreements"]})
    return 0
