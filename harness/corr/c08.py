"""C08 — every documented operation is offered with its effective parameters, or reported.

Correspondence: abstract Open API 3 documents (harness/gens/c08_docs.py) are realised as one dict (`from_dict`) or as
several JSON/YAML files in a temporary directory (`from_path`, relative `$ref`s); the real schema object is driven
through access sequences (`get_all_operations` completely or step by step, `schema[path][method]`,
`get_operation_by_id`, `get_operation_by_reference`) and every result (offered parameters per container, body
alternatives, Ok/Err labels, identity of the returned instance, the resolver's scope stack) is compared with the Lean
model (lean/SV/Model/C08.lean) in the variant the tree exhibits.
Replay: what the real code returned is judged by the Lean specification (`effective`, `conforms`, `documented`)
and by an independent Python resolver that works on the realised files; look-ups are compared with what a fresh
iteration offers for the same (path, method).
The JSON-vs-YAML clause is a differential run (sampled only).
"""
from __future__ import annotations

import copy
import itertools
import json
import os
import tempfile

import schemathesis
from schemathesis.core.compat import RefResolutionError
from schemathesis.core.deserialization import deserialize_yaml
from schemathesis.core.errors import InvalidSchema
from schemathesis.core.result import Ok

from harness.core import InfraError
from harness.gens import c08_docs as G

# ---- known-finding signatures (narrow: call site + failing shape) ---------------------------------------------------
KF_MERGE = "C08:collect_parameters:path-level-parameter-kept-next-to-overriding-operation-level-one"
KF_SCOPE_PM = "C08:MethodMap._init_operation:shared-parameters-resolved-outside-referenced-path-item-scope"
KF_SCOPE_ID = "C08:get_operation_by_id:parameters-resolved-outside-referenced-path-item-scope"
KF_REF_ITEM = "C08:get_operation_by_reference:operation-of-referenced-path-item-unresolvable"
KF_SUSPEND = "C08:get_all_operations:look-up-while-iteration-suspended-runs-in-path-item-scope"
KF_TYPE = "C08:get_all_operations:TypeError-escapes-on-non-object-parameter-entry"
KF_POPULATE = "C08:_populate_operation_id_cache:unresolvable-path-item-hides-other-operation-ids"

SITES = ["merge", "lookupScope", "typeErr", "suspend", "populate"]


def cls(e: BaseException) -> str:
    if isinstance(e, RefResolutionError):
        return "ref"
    if isinstance(e, InvalidSchema):
        return "invalid"
    if isinstance(e, LookupError):
        return "lookup"
    if isinstance(e, TypeError):
        return "type"
    return f"other:{type(e).__name__}"


def canon_param(p) -> dict:
    d = p.definition
    return {"name": d.get("name"), "in": d.get("in"), "required": bool(d.get("required", False)), "tag": d.get("x-tag", 0)}


def canon_op(op) -> dict:
    return {"path": op.path, "method": op.method,
            "path_parameters": [canon_param(p) for p in op.path_parameters],
            "headers": [canon_param(p) for p in op.headers],
            "cookies": [canon_param(p) for p in op.cookies],
            "query": [canon_param(p) for p in op.query],
            "body": [[b.media_type, b.definition.get("x-tag", 0) if isinstance(b.definition, dict) else 0, bool(b.required)]
                     for b in op.body]}


def schemas_of(op) -> dict:
    """(path, method, tag) -> inlined `schema` of every offered parameter that carries a tag"""
    return {(op.path, op.method, p.definition["x-tag"]): p.definition.get("schema")
            for p in op.iter_parameters() if "x-tag" in p.definition}


def canon_item(r) -> dict:
    if isinstance(r, Ok):
        return {"ok": canon_op(r.ok())}
    e = r.err()
    return {"err": [e.path, e.method]}


def strip_model(x):
    """drop what the harness does not compare (the class of the error inside an Err item)"""
    if isinstance(x, dict):
        return {k: strip_model(v) for k, v in x.items() if k != "kind"}
    if isinstance(x, list):
        return [strip_model(v) for v in x]
    return x


class World:
    """one abstract document realised for the real code"""

    def __init__(self, doc, directory=None):
        self.doc = doc
        self.raws = G.realise(doc)
        self.multi = doc["layout"]["multi"]
        if self.multi:
            assert directory is not None
            self.root_path = G.write_files(doc, self.raws, directory)
            self.urls = ["file://" + os.path.join(directory, n) for n in doc["layout"]["names"]]
            # what the loader actually produced from the files (YAML or JSON)
            self.loaded = [deserialize_yaml(open(os.path.join(directory, n), encoding="utf-8").read())
                           for n in doc["layout"]["names"]]
        else:
            self.urls = [""]
            self.loaded = self.raws
        self.oracle = G.Oracle(self.urls, self.raws)

    def schema(self):
        if self.multi:
            return schemathesis.openapi.from_path(self.root_path)
        return schemathesis.openapi.from_dict(copy.deepcopy(self.raws[0]))

    def url_of(self, scope) -> str:
        f, frag = scope
        return self.urls[f] + ("" if frag is None else "#" + frag)

    def reference(self, full, p, m) -> str:
        esc = p.replace("~", "~0").replace("/", "~1")
        return (self.urls[0] if full else "") + f"#/paths/{esc}/{m}"

    def run(self, accesses):
        """-> [(result, stack urls, extras)] for every access"""
        schema = self.schema()
        ops = schema._operation_cache._operations
        out = []
        it = None
        sentinel = object()
        for a in accesses:
            extras = {}
            try:
                if a[0] == "iterate":
                    items, raised = [], None
                    try:
                        for r in schema.get_all_operations():
                            items.append(canon_item(r))
                            if isinstance(r, Ok):
                                extras.setdefault("schemas", {}).update(schemas_of(r.ok()))
                    except Exception as e:  # noqa: BLE001 - the class is the observation
                        raised = cls(e)
                    res = {"items": items, "raised": raised}
                elif a[0] == "start":
                    it = schema.get_all_operations()
                    res = None
                elif a[0] == "next":
                    if it is None:
                        res = None
                    else:
                        try:
                            r = next(it, sentinel)
                            res = {"next": None if r is sentinel else canon_item(r), "raised": None}
                        except Exception as e:  # noqa: BLE001
                            res = {"next": None, "raised": cls(e)}
                else:
                    if a[0] == "pm":
                        op = schema[a[1]][a[2]]
                    elif a[0] == "id":
                        op = schema.get_operation_by_id(a[1])
                    else:
                        op = schema.get_operation_by_reference(self.reference(a[1], a[2], a[3]))
                    idx = next((i for i, o in enumerate(ops) if o is op), -1)
                    res = {"op": idx, "o": canon_op(op)}
                    extras["schemas"] = schemas_of(op)
            except Exception as e:  # noqa: BLE001
                res = {"err": cls(e)}
            out.append((res, list(schema.resolver._scopes_stack), extras))
        if it is not None:
            it.close()
        return out


# ---- specification-side helpers (independent of the model's code path) ---------------------------------------------

def py_effective(op, shared):
    return op + [s for s in shared if not any(o["name"] == s["name"] and o["in"] == s["in"] for o in op)]


def py_documented(world: World):
    """labels of the documented operations by the independent resolver; None when a chain is too deep to judge"""
    labels = []
    for p, entry in world.raws[0]["paths"].items():
        r = world.oracle.path_item(entry)
        if r is None:
            labels.append([p, None])
            continue
        home, item = r
        shared = item.get("parameters", [])
        broken = False
        for e in shared if isinstance(shared, list) else []:
            if world.oracle.chain_broken(home, e):
                broken = True
        if broken:
            labels.append([p, None])
            continue
        labels += [[p, m] for m in item if m in G.HTTP]
    return labels


def expected_security(world: World, opdef_raw, own_params):
    """security parameters the statement asks for, per container; None when a scheme is malformed"""
    root = world.raws[0]
    schemes = root.get("components", {}).get("securitySchemes", {})
    reqs = opdef_raw.get("security")
    if reqs is None:
        reqs = root.get("security", [])
    names = [k for r in reqs for k in r]
    defined = {(p["name"], p["in"]) for p in own_params}
    out = {"path": [], "header": [], "cookie": [], "query": []}
    for key, s in schemes.items():
        if key not in names:
            continue
        t = s.get("type")
        if t is None or (t == "apiKey" and ("name" not in s or "in" not in s)):
            return None
        if "name" in s and "in" in s and (s["name"], s["in"]) in defined:
            continue
        if t == "apiKey":
            if s["in"] in out:
                out[s["in"]].append({"name": s["name"], "in": s["in"], "required": True, "tag": 0})
                defined.add((s["name"], s["in"]))
        elif t == "http":
            out["header"].append({"name": "Authorization", "in": "header", "required": True, "tag": 0})
            defined.add(("Authorization", "header"))
    return out


CONTAINERS = [("path", "path_parameters"), ("header", "headers"), ("cookie", "cookies"), ("query", "query")]


class Judge:
    """implementation-level property replay for one document"""

    def __init__(self, chk, world: World, spec_documented, variants):
        self.chk, self.world, self.variants = chk, world, variants
        self.spec_documented = spec_documented
        self.judge_reqs = []   # (kind, payload) to be sent to the Lean specification in one batch
        self.pending = []
        doc = world.doc
        self.entry_is_ref = {p: "ref" in pe for p, pe in doc["paths"]}
        self.has_broken_item = any(world.oracle.path_item(e) is None for e in world.raws[0]["paths"].values())
        # operationId -> [(path, method)] over resolvable path items
        self.by_id: dict = {}
        self.raw_ops: dict = {}
        for p, entry in world.raws[0]["paths"].items():
            r = world.oracle.path_item(entry)
            if r is None:
                continue
            home, item = r
            for m, od in item.items():
                if m in G.HTTP and isinstance(od, dict):
                    self.raw_ops[(p, m)] = (home, item, od)
                    if "operationId" in od:
                        self.by_id.setdefault(od["operationId"], []).append((p, m))

    def replay(self, accesses=None, extra=None):
        r = {"doc": G.wire(self.world.doc), "layout": self.world.doc["layout"]}
        if accesses is not None:
            r["accesses"] = accesses
        if extra:
            r.update(extra)
        return r

    # -- iteration ---------------------------------------------------------------------------------------------------
    def iteration(self, res, extras):
        chk, world = self.chk, self.world
        labels = [[i["ok"]["path"], i["ok"]["method"]] if "ok" in i else i["err"] for i in res["items"]]
        if res["raised"] is not None:
            has_junk = "junk" in json.dumps(G.wire(world.doc))
            sig = KF_TYPE if res["raised"] == "type" and has_junk else f"C08:get_all_operations:raises-{res['raised']}"
            missing = [l for l in self.spec_documented if l not in labels]
            chk.violation(sig, f"get_all_operations raised {res['raised']} instead of yielding an error for the "
                          f"malformed operation; {len(missing)} documented operation(s) are neither offered nor reported",
                          self.replay(["iterate"], {"offered_or_reported": labels, "documented": self.spec_documented}))
        elif labels != self.spec_documented:
            chk.violation("C08:get_all_operations:documented-operations-differ-from-offered-or-reported",
                          "the operations offered or reported differ from the documented ones",
                          self.replay(["iterate"], {"offered_or_reported": labels, "documented": self.spec_documented}))
        if res["raised"] is None:
            py = py_documented(world)
            if py != self.spec_documented:
                raise InfraError(f"C08 spec `documented` {self.spec_documented} differs from the Python oracle {py} on "
                                 f"{json.dumps(G.wire(world.doc))}")
        for item in res["items"]:
            if "ok" in item:
                self.offered(item["ok"], extras.get("schemas", {}), ["iterate"], route="iterate")

    def offered(self, o, schemas, accesses, route):
        """an operation handed out by the implementation: are its inputs the effective ones?"""
        chk, world = self.chk, self.world
        key = (o["path"], o["method"])
        if key not in self.raw_ops:
            return
        home, item, od = self.raw_ops[key]
        op_ps = world.oracle.params(home, od.get("parameters", []))
        sh_ps = world.oracle.params(home, item.get("parameters", []))
        if op_ps is None or sh_ps is None:
            return  # malformed entry somewhere: only the Ok/Err clause applies
        op_c = [G.canon_param_oracle(p) for _, p, _ in op_ps]
        sh_c = [G.canon_param_oracle(p) for _, p, _ in sh_ps]
        self.judge_reqs.append(("judge", {"op": op_c, "shared": sh_c, "offered": o}))
        self.pending.append((o, op_c, sh_c, accesses, route, od, dict(schemas), op_ps + sh_ps))

    def finish_offered(self, answers):
        chk, world = self.chk, self.world
        for (o, op_c, sh_c, accesses, route, od, schemas, homes), ans in zip(self.pending, answers):
            if "__err__" in ans:
                raise InfraError(f"C08 judge: {ans}")
            eff = py_effective(op_c, sh_c)
            if ans["effective"] != eff:
                raise InfraError(f"C08 spec `effective` differs from the Python oracle: {ans['effective']} vs {eff}")
            own = {name: [p for p in o[name] if p["tag"] != 0] for _, name in CONTAINERS}
            py_ok = all(own[name] == [p for p in eff if p["in"] == loc] for loc, name in CONTAINERS)
            if py_ok != ans["conforms"]:
                raise InfraError(f"C08 spec `conforms` ({ans['conforms']}) differs from the Python oracle ({py_ok}) on {o}")
            if not ans["conforms"]:
                overridden = [s for s in sh_c if any(x["name"] == s["name"] and x["in"] == s["in"] for x in op_c)]
                chained = op_c + sh_c   # what `chain(operation parameters, shared parameters)` offers
                as_found = all(own[name] == [p for p in chained if p["in"] == loc] for loc, name in CONTAINERS)
                if overridden and as_found:
                    sig = KF_MERGE
                else:
                    sig = f"C08:{route}:offered-parameters-differ-from-effective"
                chk.violation(sig, f"{o['method'].upper()} {o['path']} is offered with parameters that are not its effective "
                              f"ones: path-level definition(s) {[(s['name'], s['in']) for s in overridden]} overridden by the "
                              "operation are still present (and win in the generated schema)" if overridden and as_found else
                              f"{o['method'].upper()} {o['path']} is offered with parameters that are not its effective ones",
                              self.replay(accesses, {"offered": o, "effective": eff}))
            # request body alternatives
            rb = od.get("requestBody")
            if isinstance(rb, dict) and isinstance(rb.get("content"), dict):
                want = [[m, c.get("x-tag", 0), bool(rb.get("required", False))] for m, c in rb["content"].items()]
            else:
                want = []
            if o["body"] != want:
                chk.violation(f"C08:{route}:request-body-alternatives-differ", "offered body alternatives differ from the "
                              "documented ones", self.replay(accesses, {"offered": o["body"], "documented": want}))
            # security parameters
            sec = expected_security(world, od, [p for p in eff])
            if sec is not None:
                for loc, name in CONTAINERS:
                    got = [p for p in o[name] if p["tag"] == 0]
                    if got != sec[loc]:
                        chk.violation(f"C08:{route}:security-parameters-differ", f"security parameters in {name} differ",
                                      self.replay(accesses, {"offered": got, "expected": sec[loc]}))
            # references inside a parameter are resolved relative to the file the parameter lives in
            for home, p, hops in homes:
                t = (o["path"], o["method"], p.get("x-tag"))
                exp = world.oracle.expected_schema(home, p)
                if hops + 1 > 8:
                    continue  # beyond the depth limit the code deliberately stops inlining
                if t in schemas and isinstance(exp, dict) and "$ref" not in json.dumps(exp) and schemas[t] != exp:
                    chk.violation(f"C08:{route}:parameter-schema-reference-resolved-elsewhere",
                                  "a schema reference inside a parameter was not resolved in that parameter's file",
                                  self.replay(accesses, {"tag": list(t), "offered": schemas[t], "expected": exp}))
        self.pending, self.judge_reqs = [], []

    # -- look-ups ----------------------------------------------------------------------------------------------------
    def lookups(self, accesses, results, fresh, fresh_schemas):
        """`fresh`: (path, method) -> item of a fresh iteration (None: that iteration raised, nothing to compare
        with); results: [(res, stack, extras)]"""
        if fresh is None:
            return
        chk, world = self.chk, self.world
        base = world.urls[0]
        foreign_seen = False
        seen_idx: dict = {}
        for n, (a, (res, stack, extras)) in enumerate(zip(accesses, results)):
            if a[0] in ("iterate", "start", "next"):
                if a[0] == "iterate" and res is not None:
                    pass
                continue
            before = results[n - 1][1] if n else [base]
            foreign = len(before) > 1 and before[-1] != base
            foreign_seen = foreign_seen or foreign
            if a[0] == "pm":
                target = [(a[1], a[2].lower())]
                route = "schema[path][method]"
            elif a[0] == "id":
                target = self.by_id.get(a[1], [])
                route = "get_operation_by_id"
            else:
                target = [(a[2], a[3])]
                route = "get_operation_by_reference"
            if len(target) != 1:
                continue  # unknown or ambiguous operationId: nothing to compare with
            key = target[0]
            want = fresh.get(key)
            is_ref_item = self.entry_is_ref.get(key[0], False)
            if foreign_seen:
                sig = KF_SUSPEND
            elif a[0] == "pm" and is_ref_item:
                sig = KF_SCOPE_PM
            elif a[0] == "id" and self.has_broken_item and self.variants.get("populate") == "asFound":
                sig = KF_POPULATE   # every get_operation_by_id fails or misses on such a document
            elif a[0] == "id" and is_ref_item:
                sig = KF_SCOPE_ID
            elif a[0] == "ref" and is_ref_item:
                sig = KF_REF_ITEM
            else:
                sig = f"C08:{route}:differs-from-iteration"
            label = f"{key[1].upper()} {key[0]}"
            if want is not None and "ok" in want:
                if "op" not in res:
                    chk.violation(sig, f"{route} fails with {res.get('err')} for {label}, which iteration offers",
                                  self.replay(accesses[: n + 1], {"lookup": res, "iteration": want}))
                elif res["o"] != want["ok"]:
                    chk.violation(sig, f"{route} returns {label} with a different definition than iteration offers",
                                  self.replay(accesses[: n + 1], {"lookup": res["o"], "iteration": want["ok"]}))
            elif "op" in res:
                what = "reports as a schema error" if want is not None else "does not document"
                chk.violation(sig, f"{route} returns an operation for {label}, which iteration {what}",
                              self.replay(accesses[: n + 1], {"lookup": res["o"], "iteration": want}))
            if "op" in res:
                if key in seen_idx and seen_idx[key] != res["op"]:
                    chk.violation(KF_SUSPEND if foreign_seen else "C08:OperationCache:two-instances-for-one-operation",
                                  f"two different instances are handed out for {label}",
                                  self.replay(accesses[: n + 1], {"indices": [seen_idx[key], res["op"]]}))
                seen_idx.setdefault(key, res["op"])
                for t, sch in extras.get("schemas", {}).items():
                    if want is not None and "ok" in want and t in fresh_schemas and fresh_schemas[t] != sch:
                        chk.violation(sig, f"{route} returns {label} with a parameter schema resolved differently than "
                                      "in the operation iteration offers",
                                      self.replay(accesses[: n + 1], {"tag": list(t), "lookup": sch, "iteration": fresh_schemas[t]}))


# ---- access sequences ----------------------------------------------------------------------------------------------

def alphabet(world: World, rng, small=False):
    doc = world.doc
    pms, ids = [], []
    for p, entry in world.raws[0]["paths"].items():
        r = world.oracle.path_item(entry)
        item = r[1] if r else {}
        for m, od in item.items():
            if m in G.HTTP:
                pms.append((p, m))
                if isinstance(od, dict) and "operationId" in od:
                    ids.append(od["operationId"])
        if r is None:
            pms.append((p, "get"))
    if small:
        pms = pms[:3]
        ids = ids[:2]
    lookups = []
    for p, m in pms:
        lookups.append(["pm", p, m.upper() if (len(p) + len(m)) % 2 else m])
        lookups.append(["ref", False, p, m])
        if doc["layout"]["multi"]:
            lookups.append(["ref", True, p, m])
    for i in dict.fromkeys(ids):
        lookups.append(["id", i])
    extra = [["pm", "/zz", "get"], ["id", "nope"], ["ref", False, "/zz", "get"]]
    if pms:
        p, m = pms[0]
        other = next(x for x in G.HTTP if (p, x) not in pms)
        extra += [["pm", p, other], ["ref", False, p, other.upper()]]
    return lookups, extra


def sequences(world: World, rng, n_random, exhaustive_len=2, small=False):
    lookups, extra = alphabet(world, rng, small)
    seqs = [[["iterate"]]]
    sym = lookups + [["iterate"]]
    if len(sym) <= 9:
        for k in range(1, exhaustive_len + 1):
            seqs += [list(s) for s in itertools.product(sym, repeat=k)]
    else:
        seqs += [[s] for s in sym]
    pool = lookups * 3 + extra + [["iterate"]]
    for _ in range(n_random):
        k = rng.randrange(2, 6)
        seqs.append([rng.choice(pool) for _ in range(k)])
    # interleavings with a suspended iteration: a prefix of look-ups, `start`, then `next` / look-ups
    for _ in range(max(2, n_random // 2)):
        pre = [rng.choice(pool) for _ in range(rng.randrange(0, 2))]
        body = [["next"] if rng.random() < 0.5 else rng.choice(lookups or extra) for _ in range(rng.randrange(2, 7))]
        seqs.append(pre + [["start"]] + body)
    return seqs


# ---- witnesses of the known defects (decide the variant the tree exhibits) ------------------------------------------

def P(name, loc, tag, required=False):
    return {"p": {"name": name, "in": loc, "required": required, "tag": tag}}


def OP(oid, params=(), body=None, security=None):
    return {"id": oid, "params": list(params), "body": body, "security": security}


def single(paths, params=(), items=(), schemes=(), security=()):
    return {"paths": paths, "files": [{"params": list(params), "items": list(items)}], "links": [], "schemes": list(schemes),
            "security": list(security), "layout": {"multi": False, "names": ["schema.json"]}}


def multi(paths, files, names=("schema.json", "sub/items.json", "sub/common.json", "common.json")):
    from urllib.parse import urljoin
    strs = {e["ref"][0] for e in _all_refs(paths, files)}
    links = []
    for i, n in enumerate(names):
        for s in sorted(strs - {""}):
            u = urljoin("file:///d/" + n, s)
            for j, m in enumerate(names):
                if u == "file:///d/" + m:
                    links.append([i, s, j])
    return {"paths": paths, "files": files, "links": links, "schemes": [], "security": [],
            "layout": {"multi": True, "names": list(names)}}


def _all_refs(paths, files):
    def entries(es):
        return [e for e in es if isinstance(e, dict) and "ref" in e]

    def item_refs(it):
        out = entries(it["shared"])
        for _, od in it["entries"]:
            out += entries(od["params"])
        return out
    out = []
    for _, pe in paths:
        out += [pe] if "ref" in pe else item_refs(pe["item"])
    for f in files:
        out += entries([e for _, e in f["params"]])
        for _, it in f["items"]:
            out += item_refs(it)
    return out


W_MERGE = single([["/a", {"item": {"shared": [P("q", "query", 2, True)], "entries": [["get", OP("getA", [P("q", "query", 1)])]]}}]])
W_TYPE = single([["/a", {"item": {"shared": [], "entries": [["get", OP("getA", ["junk"])]]}}],
                 ["/b", {"item": {"shared": [], "entries": [["get", OP("getB")]]}}]])
W_SCOPE = multi(
    [["/a", {"ref": ["sub/items.json", "/items/I1"]}],
     ["/b", {"item": {"shared": [], "entries": [["get", OP("getB", [{"ref": ["common.json", "/params/P1"]}])]]}}]],
    [{"params": [], "items": []},
     {"params": [], "items": [["/items/I1", {"shared": [{"ref": ["common.json", "/params/P1"]}],
                                             "entries": [["get", OP("getA", [{"ref": ["common.json", "/params/P2"]}])]]}]]},
     {"params": [["/params/P1", P("p", "query", 1)], ["/params/P2", P("q", "query", 2)]], "items": []},
     {"params": [["/params/P1", P("p", "query", 3)], ["/params/P2", P("q", "query", 4)]], "items": []}])
W_SCOPE_NODECOY = copy.deepcopy(W_SCOPE)
W_SCOPE_NODECOY["files"][3]["params"] = []
W_POPULATE = multi(
    [["/b", {"item": {"shared": [], "entries": [["get", OP("getB")]]}}],
     ["/0", {"ref": ["nope.json", "/items/X"]}],
     ["/c", {"item": {"shared": [], "entries": [["get", OP("getC")]]}}]],
    [{"params": [], "items": []}, {"params": [], "items": []}, {"params": [], "items": []}, {"params": [], "items": []}])

WITNESS_RUNS = {
    "merge": (W_MERGE, [[["iterate"]], [["pm", "/a", "get"]]]),
    "typeErr": (W_TYPE, [[["iterate"]]]),
    "lookupScope": (W_SCOPE, [[["iterate"]], [["pm", "/a", "GET"]], [["id", "getA"]], [["ref", False, "/a", "get"]],
                              [["pm", "/a", "get"], ["id", "getA"]]]),
    "lookupScope2": (W_SCOPE_NODECOY, [[["pm", "/a", "get"]], [["id", "getA"]]]),
    "suspend": (W_SCOPE, [[["start"], ["next"], ["pm", "/b", "get"], ["next"], ["next"], ["pm", "/b", "get"]],
                          [["start"], ["next"], ["id", "getB"]], [["start"], ["next"], ["ref", False, "/b", "get"]]]),
    "populate": (W_POPULATE, [[["id", "getC"], ["id", "getC"]], [["pm", "/c", "get"], ["id", "getC"]]]),
}


def detect_variants(td) -> dict:
    """replay the witnesses on the real code: which variant does the tree exhibit at each site?"""
    v = {}
    w = World(W_MERGE)
    r = w.run([["iterate"]])[0][0]
    v["merge"] = "repaired" if [p["tag"] for p in r["items"][0]["ok"]["query"]] == [1] else "asFound"
    r = World(W_TYPE).run([["iterate"]])[0][0]
    v["typeErr"] = "asFound" if r["raised"] == "type" else "repaired"
    d = tempfile.mkdtemp(dir=td)
    w = World(W_SCOPE, d)
    it = w.run([["iterate"]])[0][0]["items"][0]
    pm = w.run([["pm", "/a", "get"]])[0][0]
    byid = w.run([["id", "getA"]])[0][0]
    v["lookupScope"] = "repaired" if ("op" in pm and pm["o"] == it["ok"] and "op" in byid and byid["o"] == it["ok"]) else "asFound"
    s = w.run([["start"], ["next"]])
    v["suspend"] = "asFound" if len(s[1][1]) > 1 else "repaired"
    d = tempfile.mkdtemp(dir=td)
    r = World(W_POPULATE, d).run([["id", "getC"]])[0][0]
    v["populate"] = "repaired" if "op" in r else "asFound"
    return v


# ---- the check ------------------------------------------------------------------------------------------------------

def check_documents(chk, td, docs, mechanism, seq_budget, variants, small=False, fixed_runs=None):
    """correspondence + replay for a list of abstract documents (one driver batch)"""
    cfg = {s: variants[s] == "repaired" for s in SITES}
    worlds, all_runs, reqs = [], [], []
    for i, doc in enumerate(docs):
        d = tempfile.mkdtemp(dir=td) if doc["layout"]["multi"] else None
        w = World(doc, d)
        runs = fixed_runs[i] if fixed_runs is not None else sequences(w, chk.rng, seq_budget, small=small)
        worlds.append(w)
        all_runs.append(runs)
        reqs.append(("run", {"cfg": cfg, "doc": G.wire(doc), "runs": runs}))
    models = chk.driver().batch(reqs)
    judges = []
    for w, runs, m in zip(worlds, all_runs, models):
        if "__err__" in m:
            raise InfraError(f"C08 model error {m} on {json.dumps(G.wire(w.doc))[:2000]}")
        spec_documented = m["documented"]
        j = Judge(chk, w, spec_documented, variants)
        judges.append(j)
        fresh_items, _, fresh_extras = w.run([["iterate"]])[0]
        fresh_schemas = fresh_extras.get("schemas", {})
        fresh = {}
        for it_ in fresh_items["items"]:
            if "ok" in it_:
                fresh[(it_["ok"]["path"], it_["ok"]["method"])] = it_
            elif it_["err"][1] is not None:
                fresh[tuple(it_["err"])] = it_
        for f in ("multi" if w.multi else "single", f"paths={len(w.doc['paths'])}",
                  "ref-item" if any("ref" in pe for _, pe in w.doc["paths"]) else "inline-items",
                  "wf" if m["wf"] else "not-wf", "unique-ids" if m["uniqueIds"] else "duplicate-ids",
                  "populate-ok" if m["populateOk"] else "populate-aborts"):
            chk.feature(f"{mechanism}:{f}")
        for accesses, mrun in zip(runs, m["runs"]):
            impl = w.run(accesses)
            impl_res = [r for r, _, _ in impl]
            model_res = [strip_model(x["r"]) for x in mrun]
            impl_stacks = [s for _, s, _ in impl]
            model_stacks = [[w.url_of(s) for s in x["stack"]] for x in mrun]
            nontrivial = any(a[0] in ("pm", "id", "ref") for a in accesses) or any(
                isinstance(r, dict) and r.get("items") for r in impl_res)
            chk.case(mechanism, key=[G.wire(w.doc), accesses], nontrivial=nontrivial,
                     sample={"accesses": accesses, "impl": impl_res[:3], "paths": [p for p, _ in w.doc["paths"]]})
            for a in accesses:
                chk.feature(f"{mechanism}:access={a[0]}")
            for r in impl_res:
                if isinstance(r, dict):
                    chk.feature(f"{mechanism}:result={'op' if 'op' in r else 'err:' + r['err'] if 'err' in r else 'iter'}")
            if impl_res != model_res:
                k = next(i for i, (x, y) in enumerate(zip(impl_res, model_res)) if x != y)
                chk.disagreement(mechanism, {"aspect": "results", "doc": G.wire(w.doc), "layout": w.doc["layout"],
                                             "accesses": accesses, "at": k}, model_res[k], impl_res[k])
            elif impl_stacks != model_stacks:
                chk.disagreement(mechanism, {"aspect": "scope-stack", "doc": G.wire(w.doc), "layout": w.doc["layout"],
                                             "accesses": accesses}, model_stacks, impl_stacks)
            # ---- replay: judge what the implementation did
            for a, (res, _, extras) in zip(accesses, impl):
                if a[0] == "iterate":
                    j.iteration(res, extras)
            j.lookups(accesses, impl, fresh if fresh_items["raised"] is None else None, fresh_schemas)
    # one batch for the specification
    flat = [r for j in judges for r in j.judge_reqs]
    answers = chk.driver().batch(flat) if flat else []
    pos = 0
    for j in judges:
        n = len(j.judge_reqs)
        j.finish_offered(answers[pos: pos + n])
        pos += n


TRICKY_KEYS = ["200", "404", "on", "off", "yes", "no", "true", "false", "null", "~", "1e3", "1_000", "0x1F", "0o7", "1:30",
               "2020-01-01", ".5", "1.0", "+1", "y", "n", "Yes", "NO", "0", "-1", "2001-12-14t21:59:43.10-05:00", ".inf", ".NaN"]
DATE_LIKE = ["2020-01-01", "2001-12-14t21:59:43.10-05:00", "2002-12-14", "2001-12-15 2:59:43.10"]


def yaml_json(chk, td, n):
    """JSON-vs-YAML clause (differential, sampled only): tricky keys unquoted, date-like scalars unquoted"""
    rng = chk.rng
    import re

    from schemathesis.core.deserialization import get_yaml_loader
    ts = re.compile(r"^\d{4}-\d\d?-\d\d?")
    left = sorted({tag for rs in get_yaml_loader().yaml_implicit_resolvers.values() for tag, _ in rs if "timestamp" in tag})
    chk.case("yaml-vs-json", key="implicit-resolvers", nontrivial=True)
    if left:
        chk.violation("C08:get_yaml_loader:timestamp-resolver-present", "the YAML loader still resolves timestamps",
                      {"resolvers": left})
    for i in range(n):
        props = {k: {"type": "string"} for k in rng.sample(TRICKY_KEYS, rng.randrange(1, 6))}
        responses = {k: {"description": "r"} for k in rng.sample(["200", "404", "default", "2XX", "500"], rng.randrange(1, 4))}
        example = rng.choice(DATE_LIKE)
        raw = {"openapi": "3.0.2", "info": {"title": "t", "version": "1.0"},
               "paths": {"/a": {"post": {
                   "parameters": [{"name": rng.choice(TRICKY_KEYS), "in": "query", "schema": {"type": "string", "enum": [example, "x"]},
                                   "example": example, "x-tag": 1}],
                   "requestBody": {"content": {"application/json": {"schema": {"type": "object", "properties": props,
                                                                               "required": sorted(props)[:1]}, "x-tag": 2}}},
                   "responses": responses}}}}
        d = tempfile.mkdtemp(dir=td)
        jp, yp = os.path.join(d, "s.json"), os.path.join(d, "s.yaml")
        json.dump(raw, open(jp, "w"))
        text = G.to_yaml(raw, plain=lambda s: bool(ts.match(s)))
        open(yp, "w").write(text + "\n")
        loaded = deserialize_yaml(text)
        chk.case("yaml-vs-json", key=raw, nontrivial=True, sample={"yaml": text[:400]})
        for k in props:
            chk.feature(f"yaml:key={k}")
        if loaded != raw:
            chk.violation("C08:deserialize_yaml:document-differs-from-its-JSON-form",
                          "the YAML form of the document loads to a different value than its JSON form",
                          {"yaml": text, "json": raw, "loaded": repr(loaded)[:2000]})
            continue
        a = schemathesis.openapi.from_path(jp)
        b = schemathesis.openapi.from_path(yp)
        oa = [canon_item(r) for r in a.get_all_operations()]
        ob = [canon_item(r) for r in b.get_all_operations()]
        ra = [r.ok().definition.raw for r in a.get_all_operations() if isinstance(r, Ok)]
        rb = [r.ok().definition.raw for r in b.get_all_operations() if isinstance(r, Ok)]
        if oa != ob or ra != rb:
            chk.violation("C08:from_path:operations-differ-between-JSON-and-YAML",
                          "the same document offers different operations as JSON and as YAML", {"yaml": text, "json": raw})


def check_tables(chk):
    """constants the model hard-codes, read from the source tree on every run"""
    import ast

    from schemathesis.specs.openapi import references, schemas
    t = chk.driver().one("tables", {})
    impl_methods = sorted(schemas.HTTP_METHODS)
    chk.case("tables", key="HTTP_METHODS", nontrivial=True, sample={"HTTP_METHODS": impl_methods})
    if sorted(t["httpMethods"]) != impl_methods:
        chk.disagreement("tables", "HTTP_METHODS", sorted(t["httpMethods"]), impl_methods)
    src = ast.parse(open(schemas.__file__, encoding="utf-8").read())
    levels = {}
    for node in ast.walk(src):
        if isinstance(node, ast.FunctionDef) and node.name in ("_resolve_shared_parameters", "_resolve_operation"):
            for call in ast.walk(node):
                if isinstance(call, ast.Call) and getattr(call.func, "attr", "") == "resolve_all" and len(call.args) == 2:
                    levels[node.name] = eval(compile(ast.Expression(call.args[1]), "<level>", "eval"),  # noqa: S307
                                             {"RECURSION_DEPTH_LIMIT": references.RECURSION_DEPTH_LIMIT})
    hops = {k: references.RECURSION_DEPTH_LIMIT - v for k, v in levels.items()}
    chk.case("tables", key="hops", nontrivial=True, sample={"hops": hops})
    if set(hops.values()) != {t["hops"]} or len(hops) != 2:
        chk.disagreement("tables", "reference hops followed = RECURSION_DEPTH_LIMIT - start level", t["hops"], hops)


def swagger2_replay(chk, n):
    """Swagger 2.0 documents share `_collect_operation_parameters` / `get_all_operations`; their collect_parameters is
    not modelled, so this is implementation-level replay only: the Lean specification judges the offered containers."""
    rng = chk.rng
    reqs, cases = [], []
    for i in range(n):
        tag = [0]

        def par(name=None, loc=None):
            tag[0] += 1
            return {"name": name or rng.choice(G.NAMES[:5]), "in": loc or rng.choice(["query", "header", "path"]),
                    "required": rng.random() < 0.5, "type": "string", "x-tag": tag[0]}
        shared = [par() for _ in range(rng.randrange(0, 3))]
        own = [par(*(rng.choice([(p["name"], p["in"]) for p in shared]) if shared and rng.random() < 0.6 else (None, None)))
               for _ in range(rng.randrange(0, 3))]
        raw = {"swagger": "2.0", "info": {"title": "t", "version": "1"},
               "paths": {"/a": {"parameters": shared, "get": {"operationId": "a", "parameters": own,
                                                              "responses": {"200": {"description": "OK"}}}}}}
        schema = schemathesis.openapi.from_dict(raw)
        results = [canon_item(r) for r in schema.get_all_operations()]
        looked = canon_op(schema["/a"]["get"])
        chk.case("swagger2:replay-only", key=raw, nontrivial=bool(shared and own), sample={"raw": raw["paths"], "impl": results})
        if results != [{"ok": looked}]:
            chk.violation("C08:swagger2:look-up-differs-from-iteration", "Swagger 2.0: schema[path][method] differs from "
                          "what iteration offers", {"raw": raw, "iteration": results, "lookup": looked})
        if len(results) == 1 and "ok" in results[0]:
            op_c, sh_c = [G.canon_param_oracle(p) for p in own], [G.canon_param_oracle(p) for p in shared]
            reqs.append(("judge", {"op": op_c, "shared": sh_c, "offered": results[0]["ok"]}))
            cases.append((raw, op_c, sh_c, results[0]["ok"]))
    for (raw, op_c, sh_c, o), ans in zip(cases, chk.driver().batch(reqs)):
        if not ans["conforms"]:
            overridden = [s for s in sh_c if any(x["name"] == s["name"] and x["in"] == s["in"] for x in op_c)]
            chained = op_c + sh_c
            as_found = all([p for p in o[name] if p["tag"] != 0] == [p for p in chained if p["in"] == loc]
                           for loc, name in CONTAINERS)
            chk.violation(KF_MERGE if overridden and as_found else "C08:swagger2:offered-parameters-differ-from-effective",
                          "Swagger 2.0: GET /a is offered with parameters that are not its effective ones",
                          {"raw": raw, "offered": o, "effective": ans["effective"]})


def swagger_consumes(chk):
    """Swagger 2.0: the body alternatives an operation is offered with are its effective `consumes` - its own list if it has
    one, else the document's - whichever way the operation is obtained.  Designed family, independent oracle."""
    import itertools
    glob = [None, ["application/json"], ["application/xml", "application/json"]]
    own = [None, ["application/x-www-form-urlencoded"], ["text/plain", "application/json"]]
    kinds = ["body", "formData"]
    for g, o, kind in itertools.product(glob, own, kinds):
        param = ({"name": "b", "in": "body", "required": True, "schema": {"type": "object"}} if kind == "body"
                 else {"name": "f", "in": "formData", "type": "string", "required": True})
        op = {"operationId": "mk", "parameters": [param], "responses": {"200": {"description": "ok"}}}
        if o is not None:
            op["consumes"] = o
        raw = {"swagger": "2.0", "info": {"title": "t", "version": "1"}, "paths": {"/a": {"post": op}}}
        if g is not None:
            raw["consumes"] = g
        expected = o if o is not None else g
        if expected is None:
            expected = ["application/json"] if kind == "body" else None       # the documented default
        routes = {}
        schema = schemathesis.openapi.from_dict(copy.deepcopy(raw))
        try:
            routes["iterate"] = [r.ok() for r in schema.get_all_operations()][0]
            routes["path-method"] = schemathesis.openapi.from_dict(copy.deepcopy(raw))["/a"]["POST"]
            routes["by-id"] = schemathesis.openapi.from_dict(copy.deepcopy(raw)).get_operation_by_id("mk")
            routes["by-reference"] = schemathesis.openapi.from_dict(copy.deepcopy(raw)).get_operation_by_reference("#/paths/~1a/post")
        except Exception as e:  # noqa: BLE001
            chk.feature(f"swagger-consumes:raises:{type(e).__name__}")
            continue
        for route, opn in routes.items():
            got = [b.media_type for b in opn.body]
            chk.case("swagger2:consumes", key=[g, o, kind, route], nontrivial=True,
                     sample={"global": g, "own": o, "kind": kind, "route": route, "offered": got})
            chk.feature(f"swagger-consumes:{'own' if o else 'global' if g else 'default'}:{kind}")
            if expected is not None and got != expected:
                chk.violation("C08:swagger2:body-alternatives-differ-from-effective-consumes",
                              f"POST /a ({kind} parameter) obtained by {route} is offered with media types {got}; document "
                              f"consumes={g}, operation consumes={o}: effective {expected}",
                              {"document": raw, "route": route, "offered": got, "expected": expected})


def run(chk):
    rng = chk.rng
    check_tables(chk)
    swagger_consumes(chk)
    chk.assumptions += [
        "urljoin + file loading behave as the finite table `links` of the model says (computed by the harness with "
        "urllib.parse.urljoin over the fixture layout)",
        "a parameter definition is identified by (name, in, required, x-tag); the rest of the definition is carried along "
        "unchanged (validated for `schema` by the independent resolver)",
        "operationIds are unique and dictionary keys are unique (well-formedness hypotheses of the look-up theorems)",
        "PyYAML implements YAML 1.1 scalar resolution as documented (JSON-vs-YAML clause)",
    ]
    chk.trusted += ["harness/gens/c08_docs.py (realisation of abstract documents, independent reference resolver)"]
    chk.proved += [
        "C08_effective / C08_effective_conforms / C08_override_wins / C08_operation_level_kept / C08_path_level_kept_iff: "
        "the repaired merge offers exactly the effective parameters (operation-level ones, then the path-level ones not "
        "overridden on (name, in)), split by location, security parameters appended behind them, all body alternatives; "
        "the generated schema takes the operation-level definition",
        "merge_asFound_witness / C08_effective_full_false: the tree as found keeps the overridden path-level definition and "
        "lets it win (F14)",
        "C08_security: every active apiKey scheme's parameter is defined in its location, every active http scheme adds "
        "Authorization",
        "C08_total / C08_total_each: with TypeError handled, the labels of what get_all_operations yields are exactly the "
        "documented operations, errors name their path; total_asFound_witness / C08_total_full_false (FC08a)",
        "C08_lookup_refines / C08_lookup_by_path_method / C08_lookup_by_id / C08_lookup_by_reference / "
        "C08_abstract_map_is_iteration: in every state reachable by any access sequence each look-up answers what "
        "iteration offers for that (path, method), independent of the history (scope repaired); C08_same_instance: one "
        "instance per operation for every access order",
        "lookup_scope_asFound_witness(_error) / C08_lookup_refines_full_false (F15), "
        "lookup_by_reference_referenced_item_witness (F15b), suspend_asFound_witness (F15c), populate_asFound_witness (FC08b)",
        "C08_scope_balanced / C08_scope_root: the scope stack is unchanged by every completed operation; with the repaired "
        "generator it is the root scope alone in every reachable state",
    ]
    chk.partial += [
        "C08_total_partial: as found, nothing is dropped whenever the generator runs to completion (the escaping TypeError "
        "is the only way to lose an operation)",
        "look-up theorems assume unique operationIds / unique dictionary keys / a completely populated operationId table "
        "(wfDoc, uniqueIds, populateOk; evaluated by the driver on every generated document, see input_distribution) and, "
        "for the code as found, cover all orders of complete iterations and look-ups but not look-ups between two next() "
        "calls (F15c) nor path items behind $ref (F15)",
        "get_operation_by_reference is proved for path items written in place only (F15b is not repaired)",
        "resolve_all is modelled at the level of `parameters` entries (reference chains, depth limit, scopes per hop); "
        "inlining below a parameter is compared with an independent resolver only",
    ]
    chk.sampled_only += ["JSON-vs-YAML equality of loaded documents and offered operations (differential run with PyYAML "
                         "and the repo's loader; not modelled in Lean)",
                         "inlining of references nested inside a parameter's schema (resolve_all below the parameter "
                         "level): compared with an independent resolver on every generated document, not modelled",
                         "Swagger 2.0 collect_parameters (body/formData) is not modelled"]
    with tempfile.TemporaryDirectory(prefix="verif-c08-") as td:
        variants = detect_variants(td)
        chk.variants.update(variants)
        # 1. witnesses of the known defects (corpus)
        for name, (doc, runs) in WITNESS_RUNS.items():
            check_documents(chk, td, [copy.deepcopy(doc)], f"witness:{name}", 0, variants, fixed_runs=[runs])
        # 2. small documents, all access sequences up to length 2 (+ random longer ones, + suspended interleavings)
        n_small = chk.budget(40, 250)
        docs = [G.Gen(rng, multi=False).doc(npaths=rng.choice([1, 2])) for _ in range(n_small)]
        check_documents(chk, td, docs, "single-file:small-exhaustive", chk.budget(6, 20), variants, small=True)
        # 3. larger well-formed and malformed single-file documents
        n = chk.budget(60, 500)
        docs = [G.Gen(rng, multi=False, malformed=0.0 if i % 2 else 0.25).doc() for i in range(n)]
        check_documents(chk, td, docs, "single-file:random", chk.budget(10, 40), variants)
        # 4. multi-file layouts (JSON and YAML files, relative references, decoy file)
        n = chk.budget(50, 450)
        docs = [G.Gen(rng, multi=True, malformed=0.0 if i % 3 else 0.2, yaml=bool(i % 2)).doc() for i in range(n)]
        check_documents(chk, td, docs, "multi-file:random", chk.budget(10, 40), variants)
        # 5. JSON vs YAML
        yaml_json(chk, td, chk.budget(150, 1500))
        # 6. Swagger 2.0 (replay only)
        swagger2_replay(chk, chk.budget(150, 1500))
    chk.exhaustive = False


def replay(chk, data):
    r = data["replay"]
    print(data.get("what"))
    if "doc" not in r and isinstance(r.get("input"), dict) and "doc" in r["input"]:
        print("recorded model:", json.dumps(r.get("model"))[:1500])
        print("recorded impl: ", json.dumps(r.get("impl"))[:1500])
        r = r["input"]
    if "doc" not in r:
        print(json.dumps(r, indent=1)[:4000])
        return 0
    doc = dict(r["doc"])
    doc["layout"] = r["layout"]
    accesses = r.get("accesses") or [["iterate"]]
    with tempfile.TemporaryDirectory(prefix="verif-c08-") as td:
        variants = detect_variants(td)
        w = World(doc, tempfile.mkdtemp(dir=td) if doc["layout"]["multi"] else None)
        print("document (file 0):", json.dumps(w.raws[0])[:3000])
        print("accesses:", accesses)
        impl = w.run(accesses)
        for a, (res, stack, _) in zip(accesses, impl):
            print("impl ", a, "->", json.dumps(res), "stack", stack)
        cfg = {s: variants[s] == "repaired" for s in SITES}
        m = chk.driver().one("run", {"cfg": cfg, "doc": G.wire(doc), "runs": [accesses]})
        for a, x in zip(accesses, m["runs"][0]):
            print("model", a, "->", json.dumps(strip_model(x["r"])), "stack", [w.url_of(s) for s in x["stack"]])
        print("variants:", variants, " documented:", m["documented"])
    return 0
